/-
  PCV.Proofs.HyraxTranscript — lemmas about the transcript view of Hyrax
  (`Model/HyraxTranscript.lean`): what the log and the challenges are functions of, projection to
  the challenge-list model (`Model/Hyrax.lean`), lock-step of `open` / `check`, displaced proofs.
-/
import Mathlib.Data.List.Forall2
import PCV.Proofs.Hyrax
import PCV.Model.HyraxTranscript

set_option linter.unusedSectionVars false
set_option linter.unusedVariables false

namespace PCV
namespace Hyrax
variable {F : Type} [Field F]

/-! ### the events of one iteration -/

theorem absorbIter_eq (s : Log F) (ks : List F) (hh : F) (T point : List F) (ce cd cb : F) :
    absorbIter s ks hh T point ce cd cb
      = s ++ [.absorb (.key ks hh), .absorb (.rowComs T), .absorb (.point point),
              .absorb (.comEval ce), .absorb (.comD cd), .absorb (.comB cb)] := by
  simp [absorbIter, Sponge.absorb]

/-- the events of one complete iteration: six absorbs and one squeeze of one field element -/
def iterEvents (ks : List F) (hh : F) (T point : List F) (a : F × F × F) : Log F :=
  [.absorb (.key ks hh), .absorb (.rowComs T), .absorb (.point point),
   .absorb (.comEval a.1), .absorb (.comD a.2.1), .absorb (.comB a.2.2), .squeezeField 1]

theorem runLog_cons (ks : List F) (hh : F) (point T : List F) (Ts : List (List F)) (a : F × F × F)
    (as : List (F × F × F)) (s : Log F) :
    runLog ks hh point (T :: Ts) (a :: as) s
      = runLog ks hh point Ts as (s ++ iterEvents ks hh T point a) := by
  simp [runLog, absorbIter_eq, iterEvents]

/-- the log only grows: the run appends the events of its iterations to the prior history -/
theorem runLog_eq_append (ks : List F) (hh : F) (point : List F) (Ts : List (List F))
    (as : List (F × F × F)) (s : Log F) :
    runLog ks hh point Ts as s
      = s ++ ((Ts.zip as).map fun x => iterEvents ks hh x.1 point x.2).flatten := by
  induction Ts generalizing as s with
  | nil => simp [runLog]
  | cons T Ts ih =>
    cases as with
    | nil => simp [runLog]
    | cons a as => rw [runLog_cons, ih]; simp

theorem runLog_length (ks : List F) (hh : F) (point : List F) (Ts : List (List F))
    (as : List (F × F × F)) (s : Log F) :
    (runLog ks hh point Ts as s).length = s.length + 7 * min Ts.length as.length := by
  induction Ts generalizing as s with
  | nil => simp [runLog]
  | cons T Ts ih =>
    cases as with
    | nil => simp [runLog]
    | cons a as =>
      rw [runLog_cons, ih]
      simp only [List.length_append, iterEvents, List.length_cons, List.length_nil]
      omega

/-! ### `open`: projection to the challenge-list model -/

theorem openComs_of_openOne (ks : List F) (hh : F) (L R : List F) (st : State F) (rEval : F)
    (d : List F) (rD rB c : F) (π : Proof F)
    (h : openOne ks hh L R st rEval d rD rB c = .ok π) :
    openComs ks hh L R st rEval d rD rB = .ok (π.comEval, π.comD, π.comB) := by
  unfold openOne at h
  unfold openComs
  cases hm : st.mat.rowMul L with
  | error e => rw [hm] at h; cases h
  | ok lt =>
    rw [hm] at h
    simp only at h ⊢
    cases hk : key0 ks with
    | none => rw [hk] at h; cases h
    | some k0 =>
      rw [hk] at h
      simp only at h ⊢
      split at h
      · cases h
      · rename_i hd
        rw [if_neg hd]
        simp only [Except.ok.injEq] at h
        subst h
        rfl

/-- inversion of one iteration of `openLoopT` -/
theorem openLoopT_cons_inv (ro : RO F) (ks : List F) (hh : F) (L R : List F) (n dim : Nat)
    (point : List F) (it : OpenItem F × List F) (its : List (OpenItem F × List F))
    (draws : List F) (s : Log F) (πs : List (Proof F)) (rest : List F) (s' : Log F)
    (h : openLoopT ro ks hh L R n dim point (it :: its) draws s = .ok (πs, rest, s')) :
    ∃ π πs', it.1.polyLabel = it.1.comLabel ∧ it.1.nv = n ∧ dim + 3 ≤ draws.length ∧
      openOne ks hh L R it.1.st (drawREval draws) (drawD dim draws) (drawRD dim draws)
        (drawRB dim draws)
        (ro.fe (absorbIter s ks hh it.2 point π.comEval π.comD π.comB) 0) = .ok π ∧
      openLoopT ro ks hh L R n dim point its (draws.drop (dim + 3))
        (absorbIter s ks hh it.2 point π.comEval π.comD π.comB ++ [.squeezeField 1])
          = .ok (πs', rest, s') ∧
      πs = π :: πs' := by
  unfold openLoopT at h
  split at h
  · cases h
  · rename_i hl
    split at h
    · cases h
    · rename_i hnv
      split at h
      · cases h
      · rename_i hdr
        cases hc : openComs ks hh L R it.1.st (drawREval draws) (drawD dim draws)
            (drawRD dim draws) (drawRB dim draws) with
        | error e => rw [hc] at h; cases h
        | ok abc =>
          obtain ⟨ce, cd, cb⟩ := abc
          rw [hc] at h
          simp only [Sponge.squeezeOne] at h
          cases h1 : openOne ks hh L R it.1.st (drawREval draws) (drawD dim draws)
              (drawRD dim draws) (drawRB dim draws) (ro.fe (absorbIter s ks hh it.2 point ce cd cb) 0) with
          | error e => rw [h1] at h; cases h
          | ok π =>
            rw [h1] at h
            simp only at h
            have hcc := openComs_of_openOne _ _ _ _ _ _ _ _ _ _ _ h1
            rw [hc] at hcc
            simp only [Except.ok.injEq, Prod.mk.injEq] at hcc
            obtain ⟨rfl, rfl, rfl⟩ := hcc
            cases h2 : openLoopT ro ks hh L R n dim point its (draws.drop (dim + 3))
                (absorbIter s ks hh it.2 point π.comEval π.comD π.comB ++ [.squeezeField 1]) with
            | error e => rw [h2] at h; cases h
            | ok r =>
              obtain ⟨πs', rest', s''⟩ := r
              rw [h2] at h
              simp only [Except.ok.injEq, Prod.mk.injEq] at h
              obtain ⟨rfl, rfl, rfl⟩ := h
              exact ⟨π, πs', by simpa using hl, by simpa using hnv, by omega, h1, h2, rfl⟩

/-- **`open` on a sponge = `open` on the challenges it squeezes.**  If the transcript version
answers, the challenge-list model answers the same proofs when given the challenges
`runChallenges` (a function of the oracle, the prior history, the statement and the ABSORBED proof
components); the final sponge is `runLog`, and exactly `dim + 3` draws per polynomial are used. -/
theorem openLoopT_spec (ro : RO F) (ks : List F) (hh : F) (L R : List F) (n dim : Nat)
    (point : List F) (items : List (OpenItem F × List F)) :
    ∀ (draws : List F) (s : Log F) (πs : List (Proof F)) (rest : List F) (s' : Log F),
      openLoopT ro ks hh L R n dim point items draws s = .ok (πs, rest, s') →
      openLoop ks hh L R n dim (items.map (·.1)) draws
          (runChallenges ro ks hh point (items.map (·.2)) (πs.map Proof.absorbed) s) = .ok πs ∧
        s' = runLog ks hh point (items.map (·.2)) (πs.map Proof.absorbed) s ∧
        rest = draws.drop (items.length * (dim + 3)) ∧ πs.length = items.length := by
  induction items with
  | nil =>
    intro draws s πs rest s' h
    simp only [openLoopT, Except.ok.injEq, Prod.mk.injEq] at h
    obtain ⟨rfl, rfl, rfl⟩ := h
    simp [openLoop, runLog]
  | cons it its ih =>
    intro draws s πs rest s' h
    obtain ⟨π, πs', hl, hnv, hdr, h1, h2, rfl⟩ :=
      openLoopT_cons_inv ro ks hh L R n dim point it its draws s πs rest s' h
    obtain ⟨i1, i2, i3, i4⟩ := ih _ _ _ _ _ h2
    refine ⟨?_, ?_, ?_, by simp [i4]⟩
    · simp only [List.map_cons, runChallenges, Proof.absorbed, openLoop]
      rw [if_neg (by simp [hl]), if_neg (by simp [hnv]), if_neg (by omega)]
      simp only [h1]
      rw [i1]
    · simp only [List.map_cons, runLog, Proof.absorbed]
      simpa [Proof.absorbed] using i2
    · rw [i3, List.drop_drop]
      congr 1
      simp only [List.length_cons]
      ring

/-! ### `check`: projection, and what its log is -/

section Dec
variable [DecidableEq F]

/-- **The verifier's decisions are those of the challenge-list model** on the challenges
`runChallenges` — for every input, honest or not. -/
theorem checkLoopT_fst (ro : RO F) (ks : List F) (hh : F) (L R : List F) (dim : Nat) (point : List F)
    (coms : List (List F)) :
    ∀ (vs : List F) (πs : List (Proof F)) (s : Log F),
      (checkLoopT ro ks hh L R dim point coms vs πs s).map (·.1)
        = checkLoop ks hh L R dim coms vs πs
            (runChallenges ro ks hh point coms (πs.map Proof.absorbed) s) := by
  induction coms with
  | nil => intro vs πs s; simp [checkLoopT, checkLoop, Except.map]
  | cons com coms ih =>
    intro vs πs s
    cases vs with
    | nil => simp [checkLoopT, checkLoop, Except.map]
    | cons v vs =>
      cases πs with
      | nil => simp [checkLoopT, checkLoop, Except.map]
      | cons π πs =>
        simp only [checkLoopT, checkLoop, List.map_cons, runChallenges, Proof.absorbed,
          Sponge.squeezeOne]
        cases preCheck ks hh dim com v π with
        | error e => simp [Except.map]
        | ok b =>
          cases b with
          | false => simp [Except.map]
          | true =>
            simp only
            cases postCheck ks hh L R com π
                (ro.fe (absorbIter s ks hh com point π.comEval π.comD π.comB) 0) with
            | error e => simp [Except.map]
            | ok b =>
              cases b with
              | false => simp [Except.map]
              | true =>
                simp only
                have := ih vs πs
                  (absorbIter s ks hh com point π.comEval π.comD π.comB ++ [.squeezeField 1])
                simpa [Proof.absorbed] using this

/-- **The verifier's sponge after ANY answered `check`** (accepted or `Ok(false)`) is the run log
of the first `k` (commitment, absorbed triple) pairs for some `k`: it depends on the statement and
on `com_eval, com_d, com_b` of the proofs — never on `z, z_d, z_b, r_eval` or the claimed values,
which only decide how far the loop gets. -/
theorem checkLoopT_log (ro : RO F) (ks : List F) (hh : F) (L R : List F) (dim : Nat) (point : List F)
    (coms : List (List F)) :
    ∀ (vs : List F) (πs : List (Proof F)) (s : Log F) (b : Bool) (s' : Log F),
      checkLoopT ro ks hh L R dim point coms vs πs s = .ok (b, s') →
      ∃ k, k ≤ min coms.length (min vs.length πs.length) ∧
        s' = runLog ks hh point (coms.take k) ((πs.take k).map Proof.absorbed) s ∧
        (b = true → k = min coms.length (min vs.length πs.length)) := by
  induction coms with
  | nil =>
    intro vs πs s b s' h
    simp only [checkLoopT, Except.ok.injEq, Prod.mk.injEq] at h
    obtain ⟨rfl, rfl⟩ := h
    exact ⟨0, by simp, by simp [runLog], by simp⟩
  | cons com coms ih =>
    intro vs πs s b s' h
    cases vs with
    | nil =>
      simp only [checkLoopT, Except.ok.injEq, Prod.mk.injEq] at h
      obtain ⟨rfl, rfl⟩ := h
      exact ⟨0, by simp, by simp [runLog], by simp⟩
    | cons v vs =>
      cases πs with
      | nil =>
        simp only [checkLoopT, Except.ok.injEq, Prod.mk.injEq] at h
        obtain ⟨rfl, rfl⟩ := h
        exact ⟨0, by simp, by simp [runLog], by simp⟩
      | cons π πs =>
        simp only [checkLoopT, Sponge.squeezeOne] at h
        cases hp : preCheck ks hh dim com v π with
        | error e => rw [hp] at h; cases h
        | ok b1 =>
          rw [hp] at h
          cases b1 with
          | false =>
            simp only [Except.ok.injEq, Prod.mk.injEq] at h
            obtain ⟨rfl, rfl⟩ := h
            exact ⟨0, by simp, by simp [runLog], by simp⟩
          | true =>
            simp only at h
            cases hq : postCheck ks hh L R com π
                (ro.fe (absorbIter s ks hh com point π.comEval π.comD π.comB) 0) with
            | error e => rw [hq] at h; cases h
            | ok b2 =>
              rw [hq] at h
              cases b2 with
              | false =>
                simp only [Except.ok.injEq, Prod.mk.injEq] at h
                obtain ⟨rfl, rfl⟩ := h
                refine ⟨1, by simp, ?_, by simp⟩
                simp [runLog, Proof.absorbed]
              | true =>
                simp only at h
                obtain ⟨k, hk, hs, hb⟩ := ih vs πs _ b s' h
                refine ⟨k + 1, by simp only [List.length_cons]; omega, ?_, ?_⟩
                · simp only [List.take_succ_cons, List.map_cons, runLog, Proof.absorbed]
                  simpa [Proof.absorbed] using hs
                · intro hbt
                  have := hb hbt
                  simp only [List.length_cons]
                  omega

/-- the same at the level of `check`: its answers are those of `Hyrax.check` on the squeezed
challenges -/
theorem checkT_fst (ro : RO F) (ks : List F) (hh : F) (coms : List (List F)) (point vs : List F)
    (πs : List (Proof F)) (s : Log F) :
    (checkT ro ks hh coms point vs πs s).map (·.1)
      = check ks hh coms point vs πs
          (runChallenges ro ks hh point coms (πs.map Proof.absorbed) s) := by
  unfold checkT check
  simp only
  split
  · rfl
  · split
    · rfl
    · exact checkLoopT_fst ro ks hh _ _ _ point coms vs πs s

/-- an accepted `check` leaves the sponge at the full run log -/
theorem checkT_accept_log (ro : RO F) (ks : List F) (hh : F) (coms : List (List F))
    (point vs : List F) (πs : List (Proof F)) (s s' : Log F)
    (h : checkT ro ks hh coms point vs πs s = .ok (true, s')) :
    s' = runLog ks hh point coms (πs.map Proof.absorbed) s := by
  unfold checkT at h
  simp only at h
  split at h
  · cases h
  · split at h
    · cases h
    · rename_i hlen
      obtain ⟨k, _, hs, hb⟩ := checkLoopT_log ro ks hh _ _ _ point coms vs πs s true s' h
      have hk := hb rfl
      have h1 : coms.length = πs.length := by
        by_contra hne; exact hlen (Or.inl hne)
      have h2 : vs.length = πs.length := by
        by_contra hne; exact hlen (Or.inr hne)
      have : k = πs.length := by omega
      subst this
      rw [hs, ← h1, List.take_length, h1, List.take_length]

/-- an answered `check` (`Ok(true)` or `Ok(false)`) leaves the sponge at the run log of a prefix -/
theorem checkT_log (ro : RO F) (ks : List F) (hh : F) (coms : List (List F))
    (point vs : List F) (πs : List (Proof F)) (s : Log F) (b : Bool) (s' : Log F)
    (h : checkT ro ks hh coms point vs πs s = .ok (b, s')) :
    ∃ k, k ≤ πs.length ∧
      s' = runLog ks hh point (coms.take k) ((πs.take k).map Proof.absorbed) s := by
  unfold checkT at h
  simp only at h
  split at h
  · cases h
  · split at h
    · cases h
    · obtain ⟨k, hk, hs, _⟩ := checkLoopT_log ro ks hh _ _ _ point coms vs πs s b s' h
      exact ⟨k, by omega, hs⟩

/-! ### lock-step of one `open` / `check` pair -/

/-- an `open` item made from a commitment of `p`: the state and the row commitments are what
`commit` returned for `p` (for some blinding draws) -/
def HonestItem (ks : List F) (hh : F) (it : OpenItem F × List F) (p : MLPoly F) : Prop :=
  ∃ ρs, commitOne ks hh p ρs = .ok (it.2, it.1.st)

/-- **Lock-step of the loops.**  On honest items, whenever the prover's loop answers, the
verifier's loop on the same prior history accepts the true values and ends with EXACTLY the
prover's sponge. -/
theorem loopT_lockstep (ro : RO F) (ks : List F) (hh : F) (point : List F)
    (hn : point.length % 2 = 0) (items : List (OpenItem F × List F)) (polys : List (MLPoly F))
    (hh' : List.Forall₂ (HonestItem ks hh) items polys) :
    ∀ (draws : List F) (s : Log F) (πs : List (Proof F)) (rest : List F) (s' : Log F),
      openLoopT ro ks hh (tensorL point) (tensorR point) point.length (2 ^ (point.length / 2))
        point items draws s = .ok (πs, rest, s') →
      checkLoopT ro ks hh (tensorL point) (tensorR point) (2 ^ (point.length / 2)) point
        (items.map (·.2)) (polys.map fun p => mleEval p.evals point) πs s = .ok (true, s') := by
  induction hh' with
  | nil =>
    intro draws s πs rest s' h
    simp only [openLoopT, Except.ok.injEq, Prod.mk.injEq] at h
    obtain ⟨rfl, rfl, rfl⟩ := h
    simp [checkLoopT]
  | @cons it p its ps hit _ ih =>
    intro draws s πs rest s' h
    obtain ⟨π, πs', _, _, _, h1, h2, rfl⟩ :=
      openLoopT_cons_inv ro ks hh _ _ _ _ point it its draws s πs rest s' h
    obtain ⟨ρs, hc⟩ := hit
    obtain ⟨⟨k0, hk, hcl, hzl, e1, e2, e3⟩, _, _, _⟩ :=
      honest_item_ok ks hh p ρs it.2 it.1.st point _ _ _ _ _ π hn hc h1
    have hpre : preCheck ks hh (2 ^ (point.length / 2)) it.2 (mleEval p.evals point) π = .ok true :=
      (preCheck_true_iff _ _ _ _ _ _).2 ⟨k0, hk, e1, hcl⟩
    have hpost : postCheck ks hh (tensorL point) (tensorR point) it.2 π
        (ro.fe (absorbIter s ks hh it.2 point π.comEval π.comD π.comB) 0) = .ok true :=
      (postCheck_true_iff _ _ _ _ _ _ _).2 ⟨k0, hk, e2, hzl, e3⟩
    simp only [List.map_cons, checkLoopT, hpre, Sponge.squeezeOne, hpost]
    exact ih _ _ _ _ _ h2

/-- **Lock-step of `open` and `check`.** -/
theorem openT_checkT_lockstep (ro : RO F) (ks : List F) (hh : F) (point : List F)
    (items : List (OpenItem F × List F)) (polys : List (MLPoly F))
    (hh' : List.Forall₂ (HonestItem ks hh) items polys)
    (draws : List F) (s : Log F) (πs : List (Proof F)) (rest : List F) (s' : Log F)
    (ho : openT ro ks hh items point draws s = .ok (πs, rest, s')) :
    checkT ro ks hh (items.map (·.2)) point (polys.map fun p => mleEval p.evals point) πs s
      = .ok (true, s') := by
  unfold openT at ho
  simp only at ho
  by_cases hn : point.length % 2 = 1
  · rw [if_pos hn] at ho; cases ho
  · rw [if_neg hn] at ho
    have hlen := (openLoopT_spec ro ks hh _ _ _ _ point items draws s πs rest s' ho).2.2.2
    have hpl : polys.length = items.length := hh'.length_eq.symm
    unfold checkT
    simp only
    rw [if_neg hn, if_neg (by simp [hlen, hpl])]
    exact loopT_lockstep ro ks hh point (by omega) items polys hh' draws s πs rest s' ho

end Dec

end Hyrax
end PCV
