/-
  PCV.Proofs.StreamKZGExtract — what an ALGEBRAIC forger against the streaming-KZG multi-point verifier
  gives away.  `verify_multi_points` tests `(Σ ηⁱCᵢ − g·I_η(τ))·g2 = π·g2·Z(τ)`.  A forger whose proof element
  is a combination of the published G1 powers, `π = g·a(τ)`, against honest commitments `Cᵢ = g·pᵢ(τ)`, has
  written down the polynomial `Q = Σ ηⁱpᵢ − I_η − a·Z` with the trapdoor as a root; at the evaluation point
  `z_j` that polynomial takes the value `Σᵢ ηⁱ(pᵢ(z_j) − eᵢ[j])`, the η-combination of the errors of the claimed
  table in column `j`.  So a table with a false entry is accepted only if the batching challenge η is a root of
  that column's (non-zero) error polynomial, or the trapdoor is a root of the non-zero `Q`.
-/
import PCV.Proofs.StreamKZGVerify
import PCV.Proofs.Roots
import PCV.Proofs.RootsCoeff
import PCV.Proofs.KZG10Extract

set_option linter.unusedSectionVars false

namespace PCV
namespace SKZG

variable {F : Type} [Field F] [DecidableEq F]

theorem pmul_length_le (p q : List F) : (pmul p q).length ≤ p.length + q.length := by
  induction p with
  | nil => simp [pmul]
  | cons a p ih =>
    simp only [pmul, padd_len, pscale_len, List.length_cons]
    omega

/-- the values of the forger's relation: `Σ ηⁱpᵢ(x) − I_η(x) − a(x)·Z(x)` -/
def forgeFun (ps : List (List F)) (pts : List F) (evals : List (List F)) (a : List F) (η x : F) : F :=
  dot (ps.map (evalPoly · x)) (powersOf η evals.length) - interpAt pts evals η x
    - evalPoly a x * prodLin pts x

/-- the η-combination of the errors of column `j` of the claimed table -/
def colErr (ps : List (List F)) (evals : List (List F)) (η z : F) (j : Nat) : F :=
  dot (ps.map (evalPoly · z)) (powersOf η evals.length)
    - dot (evals.map (fun e => e.getD j 0)) (powersOf η evals.length)

/-- **The relation an accepted algebraic proof satisfies.** Well-formed key, distinct points, a table of
the right shape, honest commitments, `π = g·a(τ)`: acceptance is `forgeFun … τ = 0`. -/
theorem multi_forgery_root (g g2 τ : F) (a' b : Nat) (ps : List (List F)) (pts : List F)
    (evals : List (List F)) (a : List F) (η : F) (hg : g ≠ 0) (hg2 : g2 ≠ 0)
    (hnd : pts.Nodup) (ha : pts.length ≤ a') (hb : pts.length + 1 ≤ b) (hev : evals ≠ [])
    (hcl : ps.length = evals.length) (hrows : ∀ e ∈ evals, e.length = pts.length) :
    verifyMultiPoints ⟨PCV.powers g τ a', PCV.powers g2 τ b⟩ (ps.map (fun p => g * evalPoly p τ)) pts evals
        (g * evalPoly a τ) η = .ok true
      ↔ forgeFun ps pts evals a η τ = 0 := by
  rw [verifyMulti_wf g g2 τ a' b _ pts evals _ η hnd ha hb hev (by simpa using hcl) hrows]
  rw [dot_map_mul_left]
  constructor
  · intro h
    have h1 := of_decide_eq_true (by simpa using h)
    unfold forgeFun
    have : g * g2 * (dot (ps.map (evalPoly · τ)) (powersOf η evals.length) - interpAt pts evals η τ
        - evalPoly a τ * prodLin pts τ) = 0 := by linear_combination h1
    rcases mul_eq_zero.1 this with h2 | h2
    · rcases mul_eq_zero.1 h2 with h3 | h3
      · exact absurd h3 hg
      · exact absurd h3 hg2
    · exact h2
  · intro h
    unfold forgeFun at h
    have : (g * dot (ps.map (evalPoly · τ)) (powersOf η evals.length) - g * interpAt pts evals η τ) * g2
        = g * evalPoly a τ * (g2 * prodLin pts τ) := by linear_combination g * g2 * h
    simp [this]

/-- the interpolants' η-combination takes, at the `j`-th point, the η-combination of column `j` -/
theorem interpAt_point (pts : List F) (evals : List (List F)) (η : F) (hnd : pts.Nodup)
    (hrows : ∀ e ∈ evals, e.length = pts.length) (j : Nat) (hj : j < pts.length) :
    interpAt pts evals η pts[j] = dot (evals.map (fun e => e.getD j 0)) (powersOf η evals.length) := by
  unfold interpAt
  congr 1
  apply List.map_congr_left
  intro e he
  have hl := hrows e he
  rw [interpolate_eval pts e hnd hl j hj (by omega)]
  simp [List.getD_eq_getElem?_getD, List.getElem?_eq_getElem (show j < e.length by omega)]

/-- **Value of the relation at an evaluation point**: the vanishing polynomial kills the forger's term, the
interpolant reproduces the claimed column. -/
theorem forgeFun_at_point (ps : List (List F)) (pts : List F) (evals : List (List F)) (a : List F) (η : F)
    (hnd : pts.Nodup) (hrows : ∀ e ∈ evals, e.length = pts.length) (j : Nat) (hj : j < pts.length) :
    forgeFun ps pts evals a η pts[j] = colErr ps evals η pts[j] j := by
  unfold forgeFun colErr
  rw [interpAt_point pts evals η hnd hrows j hj,
    prodLin_eq_zero_of_mem pts pts[j] (List.getElem_mem hj)]
  ring

/-- the relation is a polynomial of known coefficients and bounded length -/
theorem forgeFun_poly (ps : List (List F)) (pts : List F) (evals : List (List F)) (a : List F) (η : F)
    (n : Nat) (hps : ∀ p ∈ ps, p.length ≤ n) (hev : evals ≠ []) (hcl : ps.length = evals.length) :
    ∃ Q : List F, Q.length ≤ max (max n pts.length) (a.length + (pts.length + 1)) ∧
      ∀ x, evalPoly Q x = forgeFun ps pts evals a η x := by
  have hps0 : ps ≠ [] := by
    intro h; apply hev; rw [h] at hcl; exact List.length_eq_zero_iff.1 hcl.symm
  have hpw := powersOf_ne_nil η evals.length (by
    intro h; exact hev (List.length_eq_zero_iff.1 h))
  obtain ⟨B, _, hBl, hBe⟩ := linearCombination_spec ps (powersOf η evals.length) n hps0 hpw hps
  obtain ⟨I, _, hIl, hIe⟩ := linearCombination_spec (evals.map (interpolate pts))
    (powersOf η evals.length) pts.length (by simpa using hev) hpw
    (by intro p hp
        obtain ⟨e, _, rfl⟩ := List.mem_map.1 hp
        exact interpolate_length pts e)
  refine ⟨padd (padd B (pscale (-1) I)) (pscale (-1) (pmul a (vanishing pts))), ?_, ?_⟩
  · simp only [padd_len, pscale_len]
    have := pmul_length_le a (vanishing pts)
    rw [vanishing_length] at this
    omega
  · intro x
    rw [eval_padd, eval_padd, eval_pscale, eval_pscale, eval_pmul, eval_vanishing, hBe, hIe]
    unfold forgeFun interpAt
    simp only [List.map_map, Function.comp_def]
    ring

/-- **Few bad trapdoors.** Fix the polynomials, the points, the claimed table, the batching challenge and the
forger's coefficients.  If for some column `j` the η-combination of the errors is non-zero, the trapdoors for
which the forged proof is accepted lie in a set of at most `max(n, m, |a|+m+1) − 1` elements (`n` the
polynomials' length bound, `m` the number of points). -/
theorem multi_forgery_exceptional_set (ps : List (List F)) (pts : List F) (evals : List (List F))
    (a : List F) (η : F) (n : Nat) (hps : ∀ p ∈ ps, p.length ≤ n) (hnd : pts.Nodup) (hev : evals ≠ [])
    (hcl : ps.length = evals.length) (hrows : ∀ e ∈ evals, e.length = pts.length)
    (j : Nat) (hj : j < pts.length) (herr : colErr ps evals η pts[j] j ≠ 0) :
    ∃ S : Finset F, S.card ≤ max (max n pts.length) (a.length + (pts.length + 1)) - 1 ∧
      ∀ (g g2 τ : F) (a' b : Nat), g ≠ 0 → g2 ≠ 0 → pts.length ≤ a' → pts.length + 1 ≤ b → τ ∉ S →
        verifyMultiPoints ⟨PCV.powers g τ a', PCV.powers g2 τ b⟩ (ps.map (fun p => g * evalPoly p τ))
          pts evals (g * evalPoly a τ) η ≠ .ok true := by
  obtain ⟨Q, hQl, hQe⟩ := forgeFun_poly ps pts evals a η n hps hev hcl
  have hne : ∃ x, evalPoly Q x ≠ 0 :=
    ⟨pts[j], by rw [hQe, forgeFun_at_point ps pts evals a η hnd hrows j hj]; exact herr⟩
  obtain ⟨S, hcard, hS⟩ := Roots.zeros_bounded Q hne
  refine ⟨S, le_trans hcard (Nat.sub_le_sub_right hQl 1), ?_⟩
  intro g g2 τ a' b hg hg2 ha hb hτ hacc
  rw [multi_forgery_root g g2 τ a' b ps pts evals a η hg hg2 hnd ha hb hev hcl hrows] at hacc
  exact hτ (hS τ (by rw [hQe]; exact hacc))

/-- the column error as a polynomial in η: its coefficient list is the column of errors -/
theorem colErr_eq_evalPoly (ps : List (List F)) (evals : List (List F)) (η z : F) (j : Nat)
    (hcl : ps.length = evals.length) :
    colErr ps evals η z j
      = evalPoly ((ps.zip evals).map (fun pe => evalPoly pe.1 z - pe.2.getD j 0)) η := by
  have key : ∀ (ps : List (List F)) (evals : List (List F)) (c : F), ps.length = evals.length →
      dot (ps.map (evalPoly · z)) (PCV.powers c η ps.length)
        - dot (evals.map (fun e => e.getD j 0)) (PCV.powers c η ps.length)
      = c * evalPoly ((ps.zip evals).map (fun pe => evalPoly pe.1 z - pe.2.getD j 0)) η := by
    intro ps
    induction ps with
    | nil => intro evals c _; simp [PCV.powers]
    | cons p ps ih =>
      intro evals c hl
      cases evals with
      | nil => simp at hl
      | cons e evals =>
        have hl' : ps.length = evals.length := by simpa using hl
        have := ih evals (η * c) hl'
        simp only [List.length_cons, PCV.powers, List.map_cons, dot_cons, List.zip_cons_cons,
          evalPoly_cons]
        linear_combination this
  unfold colErr powersOf
  rw [← hcl]
  have := key ps evals 1 hcl
  rw [one_mul] at this
  exact this


/-- **Few bad batching challenges.** If entry `i` of column `j` of the claimed table is false, the batching
challenges `η` for which the column's combined error vanishes lie in a set of at most `(number of
polynomials) − 1` elements. -/
theorem colErr_exceptional_eta (ps : List (List F)) (evals : List (List F)) (z : F) (j : Nat)
    (hcl : ps.length = evals.length) (i : Nat) (hi : i < ps.length)
    (hfalse : evalPoly (ps.getD i []) z ≠ (evals.getD i []).getD j 0) :
    ∃ S : Finset F, S.card ≤ ps.length - 1 ∧ ∀ η, η ∉ S → colErr ps evals η z j ≠ 0 := by
  have hi' : i < evals.length := by omega
  have hL : ((ps.zip evals).map (fun pe => evalPoly pe.1 z - pe.2.getD j 0)).getD i 0 ≠ 0 := by
    have hz : (ps.zip evals)[i]? = some (ps[i], evals[i]) :=
      List.getElem?_zip_eq_some.2 ⟨List.getElem?_eq_getElem hi, List.getElem?_eq_getElem hi'⟩
    rw [List.getD_eq_getElem?_getD, List.getElem?_map, hz]
    simp only [Option.map_some, Option.getD_some]
    rw [List.getD_eq_getElem?_getD, List.getElem?_eq_getElem hi] at hfalse
    rw [List.getD_eq_getElem?_getD (l := evals), List.getElem?_eq_getElem hi'] at hfalse
    simp only [Option.getD_some] at hfalse
    exact sub_ne_zero.2 hfalse
  obtain ⟨S, hcard, hS⟩ := Roots.zeros_bounded_of_coeff _ ⟨i, hL⟩
  refine ⟨S, ?_, ?_⟩
  · refine le_trans hcard ?_
    simp only [List.length_map, List.length_zip]
    omega
  · intro η hη h0
    rw [colErr_eq_evalPoly ps evals η z j hcl] at h0
    exact hη (hS η h0)


/-! ### single point -/

/-- **`verify`, algebraic proof element.** `C = g·p(τ)`, `π = g·a(τ)`, any claimed value `v`: acceptance is
`p(τ) − v − a(τ)(τ − α) = 0`, the KZG10 extraction polynomial at the trapdoor. -/
theorem single_forgery_root (g g2 τ : F) (a' b : Nat) (ha : 1 ≤ a') (hb : 2 ≤ b) (p a : List F)
    (α v : F) (hg : g ≠ 0) (hg2 : g2 ≠ 0) :
    verify ⟨PCV.powers g τ a', PCV.powers g2 τ b⟩ (g * evalPoly p τ) α v (g * evalPoly a τ) = .ok true
      ↔ evalPoly (KZG.extractPoly p a α v) τ = 0 := by
  rw [verify_wf' g g2 τ a' b ha hb, KZG.eval_extractPoly]
  simp only [Except.ok.injEq, decide_eq_true_eq]
  constructor
  · intro h
    have : g * g2 * (evalPoly p τ - v - evalPoly a τ * (τ - α)) = 0 := by linear_combination h
    rcases mul_eq_zero.1 this with h2 | h2
    · rcases mul_eq_zero.1 h2 with h3 | h3
      · exact absurd h3 hg
      · exact absurd h3 hg2
    · exact h2
  · intro h
    linear_combination g * g2 * h

/-- for a false value all but at most `max(|p|, |a|+1) − 1` trapdoors refuse -/
theorem single_forgery_exceptional_set (p a : List F) (α v : F) (hv : v ≠ evalPoly p α) :
    ∃ S : Finset F, S.card ≤ max (max p.length 1) (a.length + 1) - 1 ∧
      ∀ (g g2 τ : F) (a' b : Nat), g ≠ 0 → g2 ≠ 0 → 1 ≤ a' → 2 ≤ b → τ ∉ S →
        verify ⟨PCV.powers g τ a', PCV.powers g2 τ b⟩ (g * evalPoly p τ) α v (g * evalPoly a τ)
          ≠ .ok true := by
  have hne : ∃ x, evalPoly (KZG.extractPoly p a α v) x ≠ 0 := by
    refine ⟨α, ?_⟩
    rw [KZG.eval_extractPoly]
    simp only [sub_self, mul_zero, sub_zero]
    exact fun h0 => hv (sub_eq_zero.1 h0).symm
  obtain ⟨S, hcard, hS⟩ := Roots.zeros_bounded (KZG.extractPoly p a α v) hne
  refine ⟨S, le_trans hcard (Nat.sub_le_sub_right (KZG.extractPoly_length p a α v) 1), ?_⟩
  intro g g2 τ a' b hg hg2 ha hb hτ hacc
  exact hτ (hS τ ((single_forgery_root g g2 τ a' b ha hb p a α v hg hg2).1 hacc))

end SKZG
end PCV
