/-
  PCV.Proofs.Merkle — the authentication path produced for leaf `i` of a (padded) tree recomputes
  the root of that tree; `verifyPath = true` is by definition "the recomputed root is the root".
-/
import PCV.Model.Merkle
import Mathlib.Tactic.Ring
import Mathlib.Tactic.Linarith
import Mathlib.Data.Nat.Log

namespace PCV
namespace Merkle
variable {D : Type}

theorem ceilLog2_spec (n : Nat) : n ≤ 2 ^ ceilLog2 n := by
  unfold ceilLog2
  split
  · omega
  · have := @Nat.lt_log2_self (n - 1)
    omega

theorem ceilLog2_pos {n : Nat} (h : 2 ≤ n) : 1 ≤ ceilLog2 n := by
  unfold ceilLog2
  split <;> omega

theorem ceilLog2_eq_zero {n : Nat} (h : ceilLog2 n = 0) : n ≤ 1 := by
  unfold ceilLog2 at h
  split at h <;> omega

/-- `ceilLog2 n` is the *least* exponent -/
theorem ceilLog2_le {n k : Nat} (h : n ≤ 2 ^ k) : ceilLog2 n ≤ k := by
  unfold ceilLog2
  split
  · omega
  · rename_i hn
    have h1 : n - 1 < 2 ^ k := by omega
    have h2 : n - 1 ≠ 0 := by omega
    have := (Nat.log2_lt h2).2 h1
    omega

theorem ceilLog2_two_pow (k : Nat) : ceilLog2 (2 ^ k) = k := by
  apply Nat.le_antisymm (ceilLog2_le (Nat.le_refl _))
  by_contra hlt
  have hlt : ceilLog2 (2 ^ k) < k := by omega
  have h1 := ceilLog2_spec (2 ^ k)
  have h2 : 2 ^ ceilLog2 (2 ^ k) < 2 ^ k := Nat.pow_lt_pow_right (by omega) hlt
  omega

theorem padLeaves_length (d : D) (ls : List D) :
    (padLeaves d ls).length = 2 ^ ceilLog2 ls.length := by
  have := ceilLog2_spec ls.length
  simp [padLeaves]; omega

theorem padLeaves_get (d : D) (ls : List D) (i : Nat) (h : i < ls.length) :
    (padLeaves d ls)[i]? = ls[i]? := by
  simp [padLeaves, List.getElem?_append_left h]

theorem leafDigests_length (hs : Hashes D) (ls : List D) :
    (leafDigests hs ls).length = 2 ^ depth ls := by
  simp [leafDigests, padLeaves_length, depth]

theorem two_step {P : List D → Prop} (h0 : P []) (h1 : ∀ a, P [a])
    (h2 : ∀ a b rest, P rest → P (a :: b :: rest)) : ∀ l, P l
  | [] => h0
  | [a] => h1 a
  | a :: b :: rest => h2 a b rest (two_step h0 h1 h2 rest)

theorem pairUp_length (f : D → D → D) (l : List D) : (pairUp f l).length = l.length / 2 := by
  induction l using two_step with
  | h0 => simp [pairUp]
  | h1 a => simp [pairUp]
  | h2 a b rest ih => simp [pairUp, ih]; omega

theorem pairUp_get (f : D → D → D) (dflt : D) (l : List D) (k : Nat) (h : 2 * k + 1 < l.length) :
    getD' (pairUp f l) k dflt = f (getD' l (2 * k) dflt) (getD' l (2 * k + 1) dflt) := by
  induction l using two_step generalizing k with
  | h0 => simp at h
  | h1 a => simp at h
  | h2 a b rest ih =>
    cases k with
    | zero => simp [pairUp, getD']
    | succ k =>
      have h' : 2 * k + 1 < rest.length := by simp at h; omega
      have := ih k h'
      simp only [getD', pairUp] at this ⊢
      rw [show 2 * (k + 1) = (2 * k) + 1 + 1 by ring, show 2 * k + 1 + 1 + 1 = (2 * k + 1) + 1 + 1 by ring]
      simpa using this

theorem sibIdx_lt {i n : Nat} (hi : i < 2 * n) : sibIdx i < 2 * n := by
  unfold sibIdx; split <;> omega

/-- **Path correctness, one hash function.**  Climbing from node `i` of a full layer along the
siblings collected by `authUp` ends in the root above that layer. -/
theorem climb_authUp (f : D → D → D) (dflt : D) (d : Nat) (nodes : List D) (i : Nat)
    (hl : nodes.length = 2 ^ d) (hi : i < 2 ^ d) :
    climb f i (getD' nodes i dflt) (authUp f dflt d nodes i) = rootUp f dflt d nodes := by
  induction d generalizing nodes i with
  | zero =>
    have : i = 0 := by simpa using hi
    subst this
    match nodes, hl with
    | [x], _ => simp [climb, authUp, rootUp, getD']
  | succ d ih =>
    simp only [authUp, climb, rootUp]
    have hlen : (pairUp f nodes).length = 2 ^ d := by rw [pairUp_length, hl, Nat.pow_succ]; omega
    have hi2 : i / 2 < 2 ^ d := by rw [Nat.pow_succ] at hi; omega
    rw [← ih (pairUp f nodes) (i / 2) hlen hi2]
    congr 1
    have hk : 2 * (i / 2) + 1 < nodes.length := by rw [hl, Nat.pow_succ]; omega
    rw [pairUp_get f dflt nodes (i / 2) hk]
    unfold sibIdx
    split
    · rename_i h0
      have e : 2 * (i / 2) = i := by omega
      rw [e]
    · rename_i h0
      have e1 : 2 * (i / 2) + 1 = i := by omega
      have e2 : 2 * (i / 2) = i - 1 := by omega
      rw [e1, e2]

/-- **`merkle_verify_path`.**  For a tree over at least two leaves, the path `generate_proof(i)`
verifies for the `i`-th leaf against the tree's root (`i` within the real leaves). -/
theorem merkle_verify_path [DecidableEq D] (hs : Hashes D) (ls : List D) (i : Nat) (leaf : D)
    (h2 : 1 ≤ depth ls) (hleaf : ls[i]? = some leaf) :
    verifyPath hs (merkleRoot hs ls) leaf (merklePath hs ls i) = true := by
  unfold verifyPath
  rw [decide_eq_true_iff]
  have hi : i < ls.length := by
    rcases Nat.lt_or_ge i ls.length with h | h
    · exact h
    · rw [List.getElem?_eq_none_iff.2 h] at hleaf; cases hleaf
  unfold recomputeRoot merklePath merkleRoot
  simp only [List.reverse_reverse]
  have hdl := leafDigests_length hs ls
  obtain ⟨d, hd⟩ : ∃ d, depth ls = d + 1 := ⟨depth ls - 1, by omega⟩
  have hlt : i < 2 ^ (d + 1) := by
    have := ceilLog2_spec ls.length
    unfold depth at hd; rw [hd] at this; omega
  rw [hd] at hdl
  simp only [hd, Nat.add_sub_cancel]
  have hlen : (pairUp hs.bottom (leafDigests hs ls)).length = 2 ^ d := by
    rw [pairUp_length, hdl, Nat.pow_succ]; omega
  have hi2 : i / 2 < 2 ^ d := by rw [Nat.pow_succ] at hlt; omega
  rw [← climb_authUp hs.inner hs.dflt d _ (i / 2) hlen hi2]
  congr 1
  have hk : 2 * (i / 2) + 1 < (leafDigests hs ls).length := by rw [hdl, Nat.pow_succ]; omega
  rw [pairUp_get hs.bottom hs.dflt _ (i / 2) hk]
  have hself : getD' (leafDigests hs ls) i hs.dflt = hs.leaf leaf := by
    simp [getD', leafDigests, padLeaves_get hs.dflt ls i hi, hleaf]
  unfold sibIdx
  split
  · rename_i h0
    have e : 2 * (i / 2) = i := by omega
    rw [e, hself]
  · rename_i h0
    have e1 : 2 * (i / 2) + 1 = i := by omega
    have e2 : 2 * (i / 2) = i - 1 := by omega
    rw [e1, e2, hself]

/-- **Soundness direction (definitional).**  A path that verifies recomputes the root. -/
theorem verifyPath_sound [DecidableEq D] (hs : Hashes D) (root leaf : D) (p : Path D)
    (h : verifyPath hs root leaf p = true) : recomputeRoot hs leaf p = root := by
  unfold verifyPath at h
  exact of_decide_eq_true h

theorem verifyPath_iff [DecidableEq D] (hs : Hashes D) (root leaf : D) (p : Path D) :
    verifyPath hs root leaf p = true ↔ recomputeRoot hs leaf p = root := by
  unfold verifyPath
  exact decide_eq_true_iff

/-! ### shape -/

theorem authUp_length (f : D → D → D) (dflt : D) (d : Nat) (nodes : List D) (i : Nat) :
    (authUp f dflt d nodes i).length = d := by
  induction d generalizing nodes i with
  | zero => rfl
  | succ d ih => simp [authUp, ih]

/-- a generated path carries `depth − 1` inner siblings (plus the leaf sibling): `log₂` of the
padded leaf count hashes in total -/
theorem merklePath_depth (hs : Hashes D) (ls : List D) (i : Nat) :
    (merklePath hs ls i).authPath.length + 1 = max (depth ls) 1 := by
  simp [merklePath, authUp_length]; omega

theorem merklePath_leafIndex (hs : Hashes D) (ls : List D) (i : Nat) :
    (merklePath hs ls i).leafIndex = i := rfl

end Merkle
end PCV
