/-
  PCV.Proofs.SonicTrim — what `SonicKZG10::trim` returns (arbitrary parameters, then parameters made
  by `setup` from a trapdoor), and the commitment of one polynomial under the trimmed key.
-/
import PCV.Proofs.Sonic

set_option linter.unusedSectionVars false
set_option linter.unusedVariables false

namespace PCV
namespace Sonic
open Marlin (Label LPoly Query sortDedup insertSorted checkDegreesAndBounds)

variable {F : Type} [Field F] [DecidableEq F]

/-- universal parameters as `KZG10::setup(D, true)` makes them from the trapdoor `β` (`bi = β⁻¹`)
and the generator scalars `g, γ, h` -/
def wfPP (g γ β bi h : F) (D : Nat) : UParams F :=
  ⟨powers g β (D + 1), powers γ β (D + 2), h, β * h, powers h bi (D + 1)⟩

/-! ### inversion of `trim` -/

theorem trimShifted_inv (pp : UParams F) (D s shb : Nat) (bs : Option (List Nat))
    (sp : Option (List F)) (sg : Option (List (Nat × List F))) (nh : Option (List (Nat × F)))
    (h : trimShifted pp D s shb bs = .ok (sp, sg, nh)) :
    (∀ l, bs = some l → l ≠ [] →
      l.getLastD 0 ≤ s ∧ sp = some (pp.powers.drop (D - l.getLastD 0)) ∧
      sg = some (l.map fun d => (d, gammaWindow pp.gammaPowers D shb d)) ∧
      nh = some (l.map fun d => (d, getD' pp.negPowersH (D - d) 0)) ∧
      (∀ d ∈ l, D - d + min (shb + 2) (d + 2) ≤ pp.gammaPowers.length ∧ D - d < pp.negPowersH.length)) ∧
    ((bs = none ∨ bs = some []) → sp = none ∧ sg = none ∧ nh = none) := by
  unfold trimShifted at h
  cases bs with
  | none =>
    simp only at h
    injection h with h; injection h with h1 h2; injection h2 with h2 h3
    exact ⟨fun l hl => (by cases hl), fun _ => ⟨h1.symm, h2.symm, h3.symm⟩⟩
  | some l =>
    simp only at h
    by_cases hl : l.isEmpty = true
    · simp only [hl, if_true] at h
      injection h with h; injection h with h1 h2; injection h2 with h2 h3
      have : l = [] := by simpa using hl
      exact ⟨fun l' hl' hne => (by injection hl' with e; exact absurd (e ▸ this) hne),
             fun _ => ⟨h1.symm, h2.symm, h3.symm⟩⟩
    · rw [if_neg hl] at h
      have hne : l ≠ [] := by intro e; exact hl (by simp [e])
      split at h
      · cases h
      · rename_i hlast
        split at h
        · cases h
        · rename_i hgam
          split at h
          · cases h
          · rename_i hneg
            injection h with h; injection h with h1 h2; injection h2 with h2 h3
            refine ⟨?_, ?_⟩
            · intro l' hl' _
              injection hl' with e; subst e
              refine ⟨by omega, h1.symm, h2.symm, h3.symm, ?_⟩
              intro d hd
              simp only [List.any_eq_true, decide_eq_true_eq, not_exists, not_and] at hgam hneg
              exact ⟨by have := hgam d hd; omega, by have := hneg d hd; omega⟩
            · intro hh
              rcases hh with hh | hh
              · cases hh
              · injection hh with e; exact absurd e hne

theorem trim_inv (pp : UParams F) (s shb : Nat) (bounds : Option (List Nat)) (ck : CK F) (vk : VK F)
    (h : trim pp s shb bounds = .ok (ck, vk)) :
    s ≤ pp.powers.length - 1 ∧ shb + 2 ≤ pp.gammaPowers.length ∧ pp.powers.head? = some vk.g ∧
    ck.powers = pp.powers.take (s + 1) ∧ ck.gammaPowers = pp.gammaPowers.take (shb + 2) ∧
    ck.bounds = bounds.map sortDedup ∧ ck.maxDegree = pp.powers.length - 1 ∧
    vk.gammaG = getD' pp.gammaPowers 0 0 ∧ vk.h = pp.h ∧ vk.betaH = pp.betaH ∧
    vk.supported = s ∧ vk.maxDegree = pp.powers.length - 1 ∧
    trimShifted pp (pp.powers.length - 1) s shb (bounds.map sortDedup)
      = .ok (ck.shiftedPowers, ck.shiftedGamma, vk.negH) := by
  unfold trim at h
  split at h
  · cases h
  · rename_i g tl hp
    simp only at h
    split at h
    · cases h
    · rename_i hs
      split at h
      · cases h
      · rename_i sp sg nh hsh
        split at h
        · cases h
        · rename_i hg
          injection h with h; injection h with h1 h2
          subst h1; subst h2
          refine ⟨by omega, by omega, by rw [hp]; rfl, rfl, rfl, rfl, rfl, rfl, rfl, rfl, rfl, rfl, hsh⟩

/-! ### what the key of a trapdoor-made parameter set looks like -/

/-- exponent of the shift of a degree bound: `D - d`, `0` for unbounded polynomials -/
def kOf (D : Nat) : Option Nat → Nat
  | none => 0
  | some d => D - d
/-- number of `g`-powers a polynomial with this bound is committed under -/
def nOf (s : Nat) : Option Nat → Nat
  | none => s + 1
  | some d => d + 1
/-- number of `γ`-powers a polynomial with this bound is committed under (the truncated window) -/
def mOf (shb : Nat) : Option Nat → Nat
  | none => shb + 2
  | some d => min (shb + 2) (d + 2)

theorem checkDB_inv (maxDegree : Nat) (bounds : Option (List Nat)) (p : List F) (b : Nat)
    (h : checkDegreesAndBounds maxDegree bounds p (some b) = .ok ()) :
    ∃ bs, bounds = some bs ∧ b ∈ bs ∧ pdeg p ≤ b ∧ b ≤ maxDegree := by
  unfold checkDegreesAndBounds at h
  simp only at h
  split at h
  · cases h
  · rename_i bs
    split at h
    · cases h
    · rename_i hc
      split at h
      · cases h
      · rename_i hb
        refine ⟨bs, rfl, ?_, by omega, by omega⟩
        simpa using hc

theorem trim_wf_basic (g γ β bi h : F) (D s shb : Nat) (bounds : Option (List Nat))
    (ck : CK F) (vk : VK F) (ht : trim (wfPP g γ β bi h D) s shb bounds = .ok (ck, vk)) :
    s ≤ D ∧ shb ≤ D ∧ ck.powers = powers g β (s + 1) ∧ ck.gammaPowers = powers γ β (shb + 2) ∧
    ck.bounds = bounds.map sortDedup ∧ ck.maxDegree = D ∧
    vk.g = g ∧ vk.gammaG = γ ∧ vk.h = h ∧ vk.betaH = β * h ∧ vk.supported = s ∧ vk.maxDegree = D := by
  obtain ⟨h1, h2, h3, h4, h5, h6, h7, h8, h9, h10, h11, h12, _⟩ := trim_inv _ s shb bounds ck vk ht
  simp only [wfPP, powers_length, Nat.add_sub_cancel] at *
  refine ⟨h1, by omega, ?_, ?_, h6, h7, ?_, ?_, h9, h10, h11, h12⟩
  · rw [h4, powers_take]; congr 1; omega
  · rw [h5, powers_take]; congr 1; omega
  · simp only [powers, List.head?_cons, Option.some.injEq] at h3; exact h3.symm
  · rw [h8]; simp [powers, getD']

/-- **The key lemma tying `trim` to `commit` and `check`.**  For parameters made from a trapdoor and
an admissible (polynomial, bound): the powers the polynomial is committed under are the power lists
of `β^k·g`, `β^k·γ` (`k = D - d`, windows of `d+1` and `min(shb+2, d+2)` entries), and the verifier
key pairs this bound with `β^{-k}·h`. -/
theorem powersFor_wf (g γ β bi h : F) (D s shb : Nat) (bounds : Option (List Nat))
    (ck : CK F) (vk : VK F) (ht : trim (wfPP g γ β bi h D) s shb bounds = .ok (ck, vk))
    (poly : List F) (bound : Option Nat)
    (hc : checkDegreesAndBounds ck.maxDegree ck.bounds poly bound = .ok ()) :
    powersFor ck bound = .ok (KZG.wfPowers (fpow β (kOf D bound) * g) (fpow β (kOf D bound) * γ) β
      (nOf s bound) (mOf shb bound)) ∧
    nOf s bound ≤ s + 1 ∧ mOf shb bound ≤ shb + 2 ∧
    vk.shiftOf bound = some (fpow bi (kOf D bound) * h) ∧
    (∀ d, bound = some d → pdeg poly ≤ d ∧ d ≤ s ∧ ∃ l, bounds = some l ∧ d ∈ l) := by
  obtain ⟨hs, hshb, hp, hgp, hb, hD, hg, hgg, hh, hbh, hsup, hmax⟩ :=
    trim_wf_basic g γ β bi h D s shb bounds ck vk ht
  cases bound with
  | none =>
    refine ⟨?_, by simp [nOf], by simp [mOf], ?_, fun d hd => by cases hd⟩
    · simp only [powersFor, kOf, nOf, mOf, fpow, one_mul, KZG.wfPowers, hp, hgp]
    · simp only [VK.shiftOf, kOf, fpow, one_mul, hh]
  | some d =>
    obtain ⟨bs, hbs, hdbs, hdeg, _⟩ := checkDB_inv _ _ _ _ hc
    rw [hb] at hbs
    cases bounds with
    | none => cases hbs
    | some l =>
      simp only [Option.map_some, Option.some.injEq] at hbs
      have hne : bs ≠ [] := by intro e; rw [e] at hdbs; cases hdbs
      obtain ⟨_, _, _, _, _, _, _, _, _, _, _, _, hsh⟩ := trim_inv _ s shb (some l) ck vk ht
      simp only [wfPP, powers_length, Nat.add_sub_cancel, Option.map_some, hbs] at hsh
      obtain ⟨hcase, _⟩ := trimShifted_inv _ _ _ _ _ _ _ _ hsh
      obtain ⟨hlast, hsp, hsg, hnh, _⟩ := hcase bs rfl hne
      have hsorted : bs.Pairwise (· < ·) := by rw [← hbs]; exact sortDedup_sorted l
      have hdB : d ≤ bs.getLastD 0 := le_getLastD_of_sorted bs hsorted d hdbs
      have hds : d ≤ s := by omega
      have hbk : ck.bounds = some bs := by rw [hb]; simp [hbs]
      refine ⟨?_, by simp only [nOf]; omega, by simp only [mOf]; omega, ?_,
        fun d' hd' => by
          injection hd' with e; subst e
          exact ⟨hdeg, hds, l, rfl, by rw [← mem_sortDedup, hbs]; exact hdbs⟩⟩
      · simp only [powersFor, shiftedPowersFor, hsp, hsg, hbk]
        have he : bs.isEmpty = false := by
          cases bs with
          | nil => exact absurd rfl hne
          | cons _ _ => rfl
        have hcon : bs.contains d = true := by simpa using hdbs
        simp only [he, hcon, Bool.false_eq_true, if_false, not_true_eq_false]
        have hlen : ¬ (d > bs.getLastD 0 ∨ bs.getLastD 0 - d > ((powers g β (D + 1)).drop (D - bs.getLastD 0)).length) := by
          simp only [List.length_drop, powers_length]; omega
        rw [if_neg hlen, find_map_key _ bs d hdbs]
        simp only [kOf, nOf, mOf, KZG.wfPowers, gammaWindow]
        congr 2
        · rw [List.drop_drop, powers_drop]
          have e1 : D - bs.getLastD 0 + (bs.getLastD 0 - d) = D - d := by omega
          rw [e1]; congr 1; omega
        · rw [powers_drop, powers_take]; congr 1; omega
      · simp only [VK.shiftOf, VK.shiftPower, hnh, kOf]
        rw [find_map_key _ bs d hdbs]
        simp only [Option.map_some]
        rw [powers_getD h bi (D + 1) (D - d) (by omega)]

/-! ### one honest commitment -/

/-- What `commitOne` returns under a trapdoor-made key: the commitment is
`β^k·(g·p(β) + γ·r(β))` with `k = D - d` (`0` without a bound), and the lengths needed by `open`. -/
theorem commitOne_spec (g γ β bi h : F) (D s shb : Nat) (bounds : Option (List Nat))
    (ck : CK F) (vk : VK F) (ht : trim (wfPP g γ β bi h D) s shb bounds = .ok (ck, vk))
    (p : LPoly F) (rng : Bool) (draws : List F) (c : F) (r rest : List F)
    (hc : commitOne ck p rng draws = .ok (c, r, rest)) :
    c = fpow β (kOf D p.bound) * (g * evalPoly p.poly β + γ * evalPoly r β) ∧
    (pnorm p.poly).length ≤ nOf s p.bound ∧ (pnorm r).length ≤ mOf shb p.bound ∧
    (p.hb = none → r = []) ∧
    checkDegreesAndBounds ck.maxDegree ck.bounds p.poly p.bound = .ok () := by
  unfold commitOne at hc
  split at hc
  · cases hc
  · rename_i hdb
    obtain ⟨hpw, _, _, _, _⟩ := powersFor_wf g γ β bi h D s shb bounds ck vk ht p.poly p.bound hdb
    rw [hpw] at hc
    simp only at hc
    split at hc
    · cases hc
    · split at hc
      · cases hc
      · obtain ⟨h1, h2, h3, h4⟩ := KZG.commit_spec _ _ β _ _ p.poly p.hb true draws c r rest hc
        exact ⟨by rw [h1]; ring, h2, h3, h4, hdb⟩

end Sonic
end PCV
