/-
  PCV.Proofs.LinCodeTranscriptEx — a concrete linear-code history over `ZMod 101` for the non-vacuity
  examples of `Props/C11_LinCode.lean`: the toy instance of `Proofs/LinCodeToy.lean` (`2 × 2` matrices,
  repetition code), `t = 3` opened columns, an oracle that depends on the length of the history, two
  committed univariate polynomials, three operations on one sponge.
-/
import PCV.Proofs.LinCodeHistory
import PCV.Proofs.LinCodeToy

set_option linter.unusedSectionVars false
set_option linter.unusedVariables false

namespace PCV
namespace LinCode
namespace TEx
open TraitDefault Merkle

/-- an oracle whose answers depend on the history (its length) and on the index -/
def ro : TRO K Nat :=
  ⟨fun h i => ((h.length * 7 + i + 3 : Nat) : K), fun h i => (h.length * 5 + i) % 256⟩
/-- toy parameters with `calculate_t = min 3 n` -/
def tp (wf : Bool) : TParams K Nat := ⟨toyPP wf, fun n => .ok (min 3 n)⟩
def polys : List (LPoly K) := [⟨[97], [1, 2, 3]⟩, ⟨[98], [4, 0, 0, 5]⟩]
def sts (wf : Bool) : List (State K Nat) := polys.map fun p => commitSt (toyPP wf) p.coeffs toyE 4
def comms (wf : Bool) : List (LComm Nat) :=
  polys.map fun p => ⟨p.label, commitC (toyPP wf) p.coeffs toyE 4⟩
def trips (wf : Bool) := polyStComm polys (sts wf) (comms wf)

/-- an order of the point type: univariate points before multilinear ones, then canonical
representatives lexicographically -/
def encPt : Point K → List Nat
  | .uni z => [0, z.val]
  | .ml pt => 1 :: pt.map ZMod.val
def ltPt (a b : Point K) : Bool := decide (encPt a < encPt b)

theorem encPt_inj : Function.Injective encPt := by
  intro a b h
  cases a with
  | uni x =>
    cases b with
    | uni y =>
      simp only [encPt, List.cons.injEq, true_and, and_true] at h
      rw [ZMod.val_injective 101 h]
    | ml q => simp [encPt] at h
  | ml p =>
    cases b with
    | uni y => simp [encPt] at h
    | ml q =>
      simp only [encPt, List.cons.injEq, true_and] at h
      rw [List.map_injective_iff.2 (ZMod.val_injective 101) h]

theorem ltPt_strict : QS.StrictTotal ltPt := by
  constructor
  · intro a b c h1 h2
    simp only [ltPt, decide_eq_true_eq] at h1 h2 ⊢
    exact lt_trans h1 h2
  · intro a b hne h
    simp only [ltPt, decide_eq_true_eq, decide_eq_false_iff_not] at h ⊢
    rcases lt_trichotomy (encPt a) (encPt b) with h' | h' | h'
    · exact absurd h' h
    · exact absurd (encPt_inj h') hne
    · exact h'

theorem ltPt_irrefl : ∀ a, ltPt a a = false := by
  intro a; simp [ltPt]

def ops : List (TrHistory.Op (Point K) K (LPoly K) (State K Nat) (LComm Nat)) :=
  [.single ((trips true).take 1) (.uni 5),
   .batch [([97], ([120], .uni 5)), ([98], ([120], .uni 5)), ([98], ([121], .uni 6))],
   .combo [⟨[101], [(2, .poly [97]), (5, .poly [98]), (1, .one)]⟩] [([101], ([122], .uni 4))]]

def vops : List (TrHistory.VOp (Point K) K (LComm Nat)) :=
  [.single ((comms true).take 1) (.uni 5) [evalPoly [1, 2, 3] 5],
   .batch [([97], ([120], .uni 5)), ([98], ([120], .uni 5)), ([98], ([121], .uni 6))]
     [(([97], .uni 5), evalPoly [1, 2, 3] 5), (([98], .uni 5), evalPoly [4, 0, 0, 5] 5),
      (([98], .uni 6), evalPoly [4, 0, 0, 5] 6)],
   .combo [⟨[101], [(2, .poly [97]), (5, .poly [98]), (1, .one)]⟩] [([101], ([122], .uni 4))]
     [(([101], .uni 4), 2 * evalPoly [1, 2, 3] 4 + 5 * evalPoly [4, 0, 0, 5] 4 + 1)]]

def proverOut := TrHistory.proverRun ltPt (fun (p : LPoly K) => p.label) (evalLP (toyPP true))
  (openF ro (tp true)) polys (sts true) (comms true) ops []
def histProofs : List (TrHistory.OpProof K (List (Proof K Nat))) :=
  match proverOut with | .ok (πs, _) => πs | .error _ => []
def histLog : TLog K Nat := match proverOut with | .ok (_, s) => s | .error _ => []

/-- the triples are honest, and every point (univariate or multilinear: `ι = id`) fits their
`2 × 2` matrices (the width `2` is a power of two) -/
theorem good (wf : Bool) : GoodTrips (toyPP wf) (id : Point K → Point K) (trips wf) := by
  apply goodTrips_of_pow2
  · intro t ht
    simp only [trips, polyStComm, polys, sts, comms, List.map_cons, List.map_nil, List.zip_cons_cons,
      List.zip_nil_right, List.mem_cons, List.not_mem_nil, or_false] at ht
    rcases ht with rfl | rfl
    · exact ⟨toyE, 4, toy_encodes wf _ (by simp), rfl, rfl⟩
    · exact ⟨toyE, 4, toy_encodes wf _ (by simp), rfl, rfl⟩
  · intro t ht
    simp only [trips, polyStComm, polys, sts, comms, List.map_cons, List.map_nil, List.zip_cons_cons,
      List.zip_nil_right, List.mem_cons, List.not_mem_nil, or_false] at ht
    rcases ht with rfl | rfl <;> cases wf <;> decide

set_option maxRecDepth 8000 in
theorem prover_eq : proverOut = .ok (histProofs, histLog) := by decide

set_option maxRecDepth 8000 in
theorem verifier_eq : TrHistory.verifierRun ltPt (fun (c : LComm Nat) => c.label) (checkF ro (tp true))
    (comms true) vops histProofs [] = .ok (true, histLog) := by decide

set_option maxRecDepth 8000 in
theorem histLog_length : histLog.length = 66 := by decide

end TEx
end LinCode
end PCV
