/-
  PCV.Proofs.Roots — exceptional sets are small: a coefficient list that is not identically zero as a
  function vanishes at no more than `length − 1` points.
-/
import PCV.Proofs.Poly
import Mathlib.Algebra.Polynomial.Roots
set_option linter.unusedSectionVars false

namespace PCV
namespace Roots
open Polynomial
variable {F : Type} [Field F] [DecidableEq F]

/-- the Mathlib polynomial with the given little-endian coefficient list -/
noncomputable def toPoly : List F → F[X]
  | [] => 0
  | c :: cs => C c + X * toPoly cs

theorem eval_toPoly (l : List F) (x : F) : (toPoly l).eval x = evalPoly l x := by
  induction l with
  | nil => simp [toPoly]
  | cons c cs ih => simp [toPoly, ih]

theorem natDegree_toPoly_le (l : List F) : (toPoly l).natDegree ≤ l.length - 1 := by
  induction l with
  | nil => simp [toPoly]
  | cons c cs ih =>
    simp only [toPoly, List.length_cons, Nat.add_sub_cancel]
    refine (natDegree_add_le _ _).trans ?_
    rw [natDegree_C]
    simp only [zero_le, sup_of_le_right]
    by_cases h : toPoly cs = 0
    · simp [h]
    · rw [natDegree_X_mul h]
      cases cs with
      | nil => simp [toPoly] at h
      | cons d ds => simp only [List.length_cons] at ih ⊢; omega

/-- **Root bound in list form.** If the list does not vanish identically, the points where it
vanishes lie in a finite set of at most `length − 1` elements. -/
theorem zeros_bounded (l : List F) (hx : ∃ x, evalPoly l x ≠ 0) :
    ∃ S : Finset F, S.card ≤ l.length - 1 ∧ ∀ β, evalPoly l β = 0 → β ∈ S := by
  classical
  have hne : toPoly l ≠ 0 := by
    obtain ⟨x, hx⟩ := hx
    intro h0
    apply hx
    rw [← eval_toPoly, h0]; simp
  refine ⟨(toPoly l).roots.toFinset, ?_, ?_⟩
  · calc (toPoly l).roots.toFinset.card ≤ Multiset.card (toPoly l).roots := Multiset.toFinset_card_le _
      _ ≤ (toPoly l).natDegree := card_roots' _
      _ ≤ l.length - 1 := natDegree_toPoly_le l
  · intro β hβ
    rw [Multiset.mem_toFinset, mem_roots hne]
    unfold IsRoot
    rw [eval_toPoly]; exact hβ

end Roots
end PCV
