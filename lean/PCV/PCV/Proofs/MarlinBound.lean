/-
  PCV.Proofs.MarlinBound — soundness of MarlinKZG10's degree-bound enforcement against an algebraic
  committer/prover: commitment `g·p(β)`, shifted commitment `g·q(β)` (any `q` with at most `D+1`
  coefficients — whatever can be built from the published powers), witness `g·a(β)`.
-/
import PCV.Proofs.MarlinMore
import PCV.Proofs.KZG10Extract
import PCV.Proofs.DegreeBound

set_option linter.unusedSectionVars false

namespace PCV
namespace Marlin
variable {F : Type} [Field F] [DecidableEq F]

/-- `ξ·(p − v) + ξ′·(q − v·X^k) − a·(X − z)` -/
def boundExtract (p q a : List F) (z v ξ ξ' : F) (k : Nat) : List F :=
  padd (padd (pscale ξ (padd p [-v])) (pscale ξ' (padd q (pscale (-v) (pshift k [1])))))
    (pscale (-1) (KZG.mulLin a z))

theorem eval_boundExtract (p q a : List F) (z v ξ ξ' : F) (k : Nat) (x : F) :
    evalPoly (boundExtract p q a z v ξ ξ' k) x
      = ξ * (evalPoly p x - v) + ξ' * (evalPoly q x - v * fpow x k) - evalPoly a x * (x - z) := by
  unfold boundExtract
  simp only [eval_padd, eval_pscale, eval_pshift, KZG.eval_mulLin, evalPoly_cons, evalPoly_nil,
    mul_zero, add_zero]
  ring

/-- the verifier's decision on one degree-bounded commitment of an algebraic prover, as a polynomial
identity at the trapdoor -/
theorem bounded_check_root (vk : VK F) (g γ β h : F) (D d : Nat)
    (hvk : vk.vk = KZG.wfVK g γ β h) (hsp : vk.shiftPower d = some (g * fpow β (D - d)))
    (hg : g ≠ 0) (hh : h ≠ 0)
    (l : Label) (p q a : List F) (z v ξ ξ' : F) (ξs : List F)
    (hacc : check vk [⟨l, ⟨g * evalPoly p β, some (g * evalPoly q β)⟩, some d⟩] z [v]
      ⟨g * evalPoly a β, none⟩ (ξ :: ξ' :: ξs) = .ok (true, ξs)) :
    evalPoly (boundExtract p q a z v ξ ξ' (D - d)) β = 0 := by
  unfold check accumulate at hacc
  simp only [Option.isSome_some, ne_eq, not_true_eq_false, if_false, hsp, accumulate] at hacc
  injection hacc with hacc; injection hacc with h1 _
  rw [KZG.check_iff_defect, hvk] at h1
  unfold KZG.defect KZG.wfVK KZG.rvVal at h1
  simp only at h1
  rw [eval_boundExtract]
  have : g * h * (ξ * (evalPoly p β - v) + ξ' * (evalPoly q β - v * fpow β (D - d))
      - evalPoly a β * (β - z)) = 0 := by
    linear_combination h1
  rcases mul_eq_zero.1 this with h2 | h2
  · rcases mul_eq_zero.1 h2 with h3 | h3
    · exact absurd h3 hg
    · exact absurd h3 hh
  · exact h2

end Marlin
end PCV
