/-
  PCV.Proofs.KZG10 — algebra of the KZG10 model: commitments are the key-defined linear map,
  honest openings satisfy the pairing equation, and the defect of any changed statement is explicit.
-/
import PCV.Model.KZG10
import PCV.Proofs.Poly

set_option linter.unusedSectionVars false

namespace PCV
namespace KZG
variable {F : Type} [Field F] [DecidableEq F]

/-- A key made by `setup` from the trapdoor `β` with generators `g, γ` (scalars). -/
def wfPowers (g γ β : F) (n m : Nat) : Powers F := ⟨powers g β n, powers γ β m⟩
/-- the matching verifier key, `h` arbitrary -/
def wfVK (g γ β h : F) : VK F := ⟨g, γ, h, β * h⟩

theorem msmSkip_eq (b p : List F) : msmSkip b p = dot b p := by
  unfold msmSkip
  exact dot_skipLowZeros p b

theorem msmSkip_powers (p : List F) (g β : F) (n : Nat) (h : (pnorm p).length ≤ n) :
    msmSkip (powers g β n) p = g * evalPoly p β := by
  rw [msmSkip_eq, dot_comm, dot_powers' p g β n h]

/-- `pdeg p + 1 ≤ n` (the code's `check_degree_is_too_large`) bounds the normalised length. -/
theorem pnorm_len_of_deg (p : List F) (n : Nat) (h : ¬ (pdeg p + 1 > n)) : (pnorm p).length ≤ n := by
  unfold pdeg at h; omega

theorem checkDegree_ok (d n : Nat) :
    checkDegreeIsTooLarge d n = .ok () ↔ ¬ (d + 1 > n) := by
  unfold checkDegreeIsTooLarge; split <;> simp_all

/-- **C08 (KZG10).** Whatever `commit` returns is the key-defined linear map of the polynomial
plus the blinding term: `c = g·p(β) + γ·r(β)`; without a hiding bound `r = []`. -/
theorem commit_spec (g γ β : F) (n m : Nat) (p : List F) (hb : Option Nat) (rng : Bool)
    (draws : List F) (c : F) (r rest : List F)
    (h : commit (wfPowers g γ β n m) p hb rng draws = .ok (c, r, rest)) :
    c = g * evalPoly p β + γ * evalPoly r β ∧ (pnorm p).length ≤ n ∧ (pnorm r).length ≤ m
      ∧ (hb = none → r = []) := by
  unfold commit at h
  simp only [wfPowers, powers_length] at h
  split at h
  · cases h
  · rename_i hdeg
    have hlen := pnorm_len_of_deg p n ((checkDegree_ok _ _).1 hdeg)
    split at h
    · injection h with h; injection h with h1 h2; injection h2 with h2 h3
      subst h1; subst h2
      refine ⟨?_, hlen, by simp [pnorm], fun _ => rfl⟩
      rw [msmSkip_powers p g β n hlen]; simp
    · split at h
      · cases h
      · split at h
        · cases h
        · rename_i r' rest' hr
          split at h
          · cases h
          · rename_i hhb
            injection h with h; injection h with h1 h2; injection h2 with h2 h3
            subst h1; subst h2
            have hrlen : (pnorm r').length ≤ m := by
              unfold checkHidingBound at hhb
              split at hhb
              · cases hhb
              · split at hhb
                · cases hhb
                · unfold pdeg at *; omega
            refine ⟨?_, hlen, hrlen, fun hn => by cases hn⟩
            rw [msmSkip_powers p g β n hlen, dot_comm, dot_powers' r' γ β m hrlen]

/-- `open` returns `W = g·w(β) + γ·w_r(β)` and `rv = r(z)` exactly when `r ≠ 0`. -/
theorem open_spec (g γ β : F) (n m : Nat) (p r : List F) (z : F) (π : Proof F)
    (hr : (pnorm r).length ≤ m)
    (h : KZG.open (wfPowers g γ β n m) p z r = .ok π) :
    π.w = g * evalPoly (divLin p z).1 β + γ * evalPoly (divLin r z).1 β ∧
    rvVal π.rv = evalPoly r z := by
  unfold KZG.open at h
  simp only [wfPowers, powers_length] at h
  split at h
  · cases h
  · simp only [witness] at h
    unfold openWith at h
    simp only [powers_length] at h
    split at h
    · cases h
    · rename_i hwdeg
      have hwlen := pnorm_len_of_deg _ n ((checkDegree_ok _ _).1 hwdeg)
      by_cases hz : isZeroPoly r = true
      · simp only [hz, if_true] at h
        injection h with h; subst h
        have hz' : pnorm r = [] := by unfold isZeroPoly at hz; simpa using hz
        refine ⟨?_, ?_⟩
        · simp only
          rw [msmSkip_powers _ g β n hwlen, eval_divLin_of_pnorm_nil r z β hz']; ring
        · simp only [rvVal]
          rw [eval_of_pnorm_nil r z hz']
      · simp only [hz] at h
        injection h with h; subst h
        have hq := Nat.le_trans (pnorm_divLin_le r z) hr
        refine ⟨?_, ?_⟩
        · simp only
          rw [msmSkip_powers _ g β n hwlen, dot_comm, dot_powers' _ γ β m hq]
        · simp only [rvVal]

/-- `open` succeeds on every polynomial the key supports (no refusal, no abort). -/
theorem open_ok (pw : Powers F) (p r : List F) (z : F) (hp : ¬ (pdeg p + 1 > pw.g.length)) :
    ∃ π, KZG.open pw p z r = .ok π := by
  unfold KZG.open
  have h1 := (checkDegree_ok _ _).2 hp
  simp only [h1, witness]
  unfold openWith
  have : ¬ (pdeg (divLin p z).1 + 1 > pw.g.length) := by
    have := pnorm_divLin_le p z
    unfold pdeg at *; omega
  have h2 := (checkDegree_ok _ _).2 this
  simp only [h2]
  split <;> exact ⟨_, rfl⟩

/-- **The defect of an arbitrary statement against an honest opening** (C02/C10 core):
with `c = g·p(β)+γ·r(β)` and the honest proof for `(p, r, z)`, the verifier's defect on the
statement `(c + dc, z + dz, p(z) + dv)` is `h·(dc − dv·g + W·dz)`. -/
theorem honest_defect (g γ β h : F) (n m : Nat) (p r : List F) (z : F) (π : Proof F)
    (hr : (pnorm r).length ≤ m)
    (ho : KZG.open (wfPowers g γ β n m) p z r = .ok π) (dc dz dv : F) :
    defect (wfVK g γ β h) (g * evalPoly p β + γ * evalPoly r β + dc) (z + dz)
        (evalPoly p z + dv) π
      = h * (dc - dv * g + π.w * dz) := by
  obtain ⟨hw, hrv⟩ := open_spec g γ β n m p r z π hr ho
  unfold defect wfVK
  simp only
  rw [hrv]
  have h1 := divLin_quot p z β
  have h2 := divLin_quot r z β
  rw [hw]
  linear_combination (h * g) * h1 + (h * γ) * h2

theorem check_iff_defect (vk : VK F) (c z v : F) (π : Proof F) :
    check vk c z v π = true ↔ defect vk c z v π = 0 := by
  unfold check; exact decide_eq_true_iff

/-- **C01 (KZG10).** commit → open → check accepts, for every polynomial within the key, every
hiding bound, every RNG stream, every point. -/
theorem commit_open_check_complete (g γ β h : F) (n m : Nat) (p : List F) (hb : Option Nat)
    (rng : Bool) (draws : List F) (c : F) (r rest : List F) (z : F) (π : Proof F)
    (hc : commit (wfPowers g γ β n m) p hb rng draws = .ok (c, r, rest))
    (ho : KZG.open (wfPowers g γ β n m) p z r = .ok π) :
    check (wfVK g γ β h) c z (evalPoly p z) π = true := by
  obtain ⟨hcs, _, hrlen, _⟩ := commit_spec g γ β n m p hb rng draws c r rest hc
  rw [check_iff_defect]
  have := honest_defect g γ β h n m p r z π hrlen ho 0 0 0
  simp only [add_zero] at this
  rw [hcs, this]; ring

/-- whenever `commit` succeeds, `open` succeeds too -/
theorem open_ok_of_commit (pw : Powers F) (p : List F) (hb : Option Nat) (rng : Bool)
    (draws : List F) (x : F × List F × List F) (z : F)
    (hc : commit pw p hb rng draws = .ok x) : ∃ π, KZG.open pw p z x.2.1 = .ok π := by
  apply open_ok
  unfold commit at hc
  split at hc
  · cases hc
  · rename_i hd; exact (checkDegree_ok _ _).1 hd

/-! ### batch verification -/

/-- the per-claim defects, with the zip-truncation of the code -/
def defects (vk : VK F) : List F → List F → List F → List (Proof F) → List F
  | c :: cs, z :: zs, v :: vs, π :: πs => defect vk c z v π :: defects vk cs zs vs πs
  | _, _, _, _ => []

/-- `Σ ρᵢ·dᵢ` with `ρ₀ = r`, later randomizers taken from `rs` (missing ones read as 0) -/
def wsum : F → List F → List F → F
  | r, rs, d :: ds => r * d + wsum (rs.headD 0) rs.tail ds
  | _, _, [] => 0

theorem batchAcc_defect (vk : VK F) (cs zs vs : List F) (πs : List (Proof F)) (rs : List F) (r : F) :
    let a := batchAcc cs zs vs πs rs r
    (-a.2.1) * vk.betaH + (a.1 - a.2.2.1 * vk.g - a.2.2.2 * vk.gammaG) * vk.h
      = wsum r rs (defects vk cs zs vs πs) := by
  induction cs generalizing zs vs πs rs r with
  | nil => simp [batchAcc, defects, wsum]
  | cons c cs ih =>
    cases zs with
    | nil => simp [batchAcc, defects, wsum]
    | cons z zs =>
      cases vs with
      | nil => simp [batchAcc, defects, wsum]
      | cons v vs =>
        cases πs with
        | nil => simp [batchAcc, defects, wsum]
        | cons π πs =>
          have := ih zs vs πs rs.tail (rs.headD 0)
          simp only [batchAcc, defects, wsum] at this ⊢
          rw [← this]
          unfold defect
          ring

/-- **C05 (KZG10).** The batch verifier's defect is the randomizer-weighted sum of the
individual defects, for an arbitrary verifier key and arbitrary inputs. -/
theorem batchDefect_eq (vk : VK F) (cs zs vs : List F) (πs : List (Proof F)) (rs : List F) :
    batchDefect vk cs zs vs πs rs = wsum 1 rs (defects vk cs zs vs πs) := by
  unfold batchDefect
  exact batchAcc_defect vk cs zs vs πs rs 1

theorem wsum_zero (r : F) (rs ds : List F) (h : ∀ d ∈ ds, d = 0) : wsum r rs ds = 0 := by
  induction ds generalizing r rs with
  | nil => rfl
  | cons d ds ih =>
    simp only [wsum]
    rw [h d (by simp), ih _ _ (fun x hx => h x (by simp [hx]))]; ring

/-- all individual checks accept ⇒ the batch accepts, whatever the verifier's randomness -/
theorem batchCheck_ok (vk : VK F) (cs zs vs : List F) (πs : List (Proof F)) (rs : List F)
    (hl : cs.length = zs.length ∧ cs.length = vs.length ∧ cs.length = πs.length) :
    batchCheck vk cs zs vs πs rs = .ok (decide (batchDefect vk cs zs vs πs rs = 0)) := by
  unfold batchCheck
  rw [if_neg]
  omega

/-- shape: slices of different lengths are refused -/
theorem batchCheck_shape (vk : VK F) (cs zs vs : List F) (πs : List (Proof F)) (rs : List F)
    (hl : ¬ (cs.length = zs.length ∧ cs.length = vs.length ∧ cs.length = πs.length)) :
    batchCheck vk cs zs vs πs rs = .error .incorrectInputLength := by
  unfold batchCheck
  rw [if_pos]
  omega

theorem batch_accepts_of_all (vk : VK F) (cs zs vs : List F) (πs : List (Proof F)) (rs : List F)
    (hl : cs.length = zs.length ∧ cs.length = vs.length ∧ cs.length = πs.length)
    (h : ∀ d ∈ defects vk cs zs vs πs, d = 0) : batchCheck vk cs zs vs πs rs = .ok true := by
  rw [batchCheck_ok vk cs zs vs πs rs hl]
  congr 1
  rw [decide_eq_true_iff, batchDefect_eq, wsum_zero _ _ _ h]

end KZG
end PCV

namespace PCV
namespace KZG
variable {F : Type} [Field F] [DecidableEq F]

/-- exactly one non-zero defect, met by a non-zero randomizer ⇒ the weighted sum is non-zero -/
theorem wsum_single (r : F) (rs ds : List F) (j : Nat) (hj : j < ds.length)
    (hz : ∀ i (hi : i < ds.length), i ≠ j → ds[i] = 0)
    (hne : ds[j] ≠ 0)
    (hr : (r :: rs).getD j 0 ≠ 0) : wsum r rs ds ≠ 0 := by
  induction ds generalizing r rs j with
  | nil => simp at hj
  | cons d ds ih =>
    simp only [wsum]
    cases j with
    | zero =>
      have hrest : wsum (rs.headD 0) rs.tail ds = 0 := by
        apply wsum_zero
        intro x hx
        obtain ⟨i, hi, rfl⟩ := List.getElem_of_mem hx
        have := hz (i + 1) (by simp; omega) (by omega)
        simpa using this
      rw [hrest, add_zero]
      simp only [List.getElem_cons_zero] at hne
      simp only [List.getD_cons_zero] at hr
      exact mul_ne_zero hr hne
    | succ j =>
      have hd : d = 0 := by
        have := hz 0 (by simp) (by omega)
        simpa using this
      rw [hd, mul_zero, zero_add]
      apply ih (rs.headD 0) rs.tail j (by simpa using hj)
      · intro i hi hne'
        have := hz (i + 1) (by simp; omega) (by omega)
        simpa using this
      · simpa using hne
      · cases rs with
        | nil => simp at hr
        | cons a as => simpa using hr

/-- additivity of the commitment map: C08 homomorphism for KZG10 (non-hiding part) -/
theorem msmSkip_add (b p q : List F) : msmSkip b (padd p q) = msmSkip b p + msmSkip b q := by
  rw [msmSkip_eq, msmSkip_eq, msmSkip_eq]
  induction p generalizing b q with
  | nil => simp [padd]
  | cons a p ih =>
    cases q with
    | nil => simp [padd]
    | cons c q =>
      cases b with
      | nil => simp
      | cons y ys => simp only [padd, dot_cons, ih ys q]; ring

theorem msmSkip_scale (b p : List F) (c : F) : msmSkip b (pscale c p) = c * msmSkip b p := by
  rw [msmSkip_eq, msmSkip_eq]
  induction p generalizing b with
  | nil => simp [pscale]
  | cons a p ih =>
    cases b with
    | nil => simp
    | cons y ys =>
      have := ih ys
      simp only [pscale, List.map_cons, dot_cons] at this ⊢
      rw [this]; ring

theorem randPoly_length (d : Nat) (draws r rest : List F) (h : randPoly d draws = some (r, rest)) :
    r.length = d + 1 ∧ r.getLast? ≠ some 0 ∧ r.take d = draws.take d := by
  unfold randPoly at h
  split at h
  · cases h
  · rename_i hlen
    split at h
    · cases h
    · rename_i lead rest' hf
      injection h with h; injection h with h1 h2; subst h1
      have hlead : lead ≠ 0 := by
        clear h2 hlen
        generalize draws.drop d = l at hf
        induction l with
        | nil => simp [firstNonzero] at hf
        | cons x xs ih =>
          simp only [firstNonzero] at hf
          split at hf
          · exact ih hf
          · injection hf with hf; injection hf with h1 _; subst h1; assumption
      refine ⟨by simp; omega, by simpa using hlead, ?_⟩
      rw [List.take_append_of_le_length (by simp; omega)]
      rw [List.take_take]; simp

/-- `open` returns `random_v = Some(..)` whenever the blinding polynomial is non-zero -/
theorem open_rv_some (pw : Powers F) (p : List F) (z : F) (r : List F) (π : Proof F)
    (h : KZG.open pw p z r = .ok π) (hr : isZeroPoly r = false) : ∃ v, π.rv = some v := by
  unfold KZG.open at h
  split at h
  · cases h
  · simp only [witness, hr] at h
    unfold openWith at h
    split at h
    · cases h
    · simp only [Bool.false_eq_true, if_false] at h
      injection h with h
      exact ⟨_, by rw [← h]⟩

end KZG
end PCV
