import PCV.Model.Driver
open PCV

/-- `pcvdrv`: reads request lines on stdin, writes one reply per line on stdout.
`field <modulus>` selects the prime field for the following requests. -/
partial def loop (h : IO.FS.Stream) (out : IO.FS.Stream) (p : Nat) : IO Unit := do
  let line ← h.getLine
  if line.isEmpty then return ()
  let t := line.trimAscii.toString
  if t.isEmpty || t.startsWith "#" then
    out.putStrLn "skip"
    loop h out p
  else if t.startsWith "field " then
    match (t.drop 6).toString.toNat? with
    | some q => out.putStrLn "ok"; loop h out q
    | none => out.putStrLn "bad field"; loop h out p
  else
    match parseReq t with
    | some r => out.putStrLn (Driver.handle p r)
    | none => out.putStrLn "bad parse"
    loop h out p

def main : IO Unit := do
  let stdin ← IO.getStdin
  let stdout ← IO.getStdout
  loop stdin stdout 52435875175126190479447740508185965837690552500527637822603658699938581184513
