-- Root of the `PCV` library: model, proofs, property theorems, audits.
import PCV.Model.Driver
