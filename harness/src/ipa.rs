//! InnerProductArgPC (`ark_poly_commit::ipa_pc`) in trapdoor mode, model-backed
//! (Lean model: PCV/Model/IPA.lean, driver ops `ipa.*`).
//!
//! * keys: `UniversalParams { comm_key, h, s }` built from known scalars times the G1 generator;
//! * random oracle: the digest type parameter is `LogDigest`, a `Blake2s256` wrapper that records
//!   every finalized (input, output); the field elements `compute_random_oracle_challenge` derives
//!   from the outputs are handed to the model in order;
//! * sponge: `LogSponge`; RNG draws: replayed from a clone of the caller's RNG.
use crate::common::*;
use crate::wire::{self, Req, Val};
use crate::Ctx;
use ark_bls12_381::{Fr, G1Affine};
use ark_ff::{Field, One, UniformRand, Zero};
use ark_poly::{univariate::DensePolynomial, DenseUVPolynomial, Polynomial};
use ark_poly_commit::ipa_pc::{
    Commitment, CommitterKey, InnerProductArgPC, Proof, Randomness, UniversalParams, VerifierKey,
};
use ark_poly_commit::{
    Evaluations, LabeledCommitment, LabeledPolynomial, PCCommitterKey, PolynomialCommitment, QuerySet,
};
use blake2::Blake2s256;
use digest::{FixedOutput, HashMarker, Output, OutputSizeUser, Update};
use std::cell::RefCell;

// ------------------------------------------------------------------------------------------------
// logging digest
// ------------------------------------------------------------------------------------------------

thread_local! {
    static RO_LOG: RefCell<Vec<(Vec<u8>, Vec<u8>)>> = RefCell::new(Vec::new());
}

/// `Blake2s256` that records every finalized (input bytes, output bytes) pair.
#[derive(Clone, Default)]
pub struct LogDigest {
    inner: Blake2s256,
    input: Vec<u8>,
}
impl HashMarker for LogDigest {}
impl OutputSizeUser for LogDigest {
    type OutputSize = <Blake2s256 as OutputSizeUser>::OutputSize;
}
impl Update for LogDigest {
    fn update(&mut self, data: &[u8]) {
        self.input.extend_from_slice(data);
        Update::update(&mut self.inner, data);
    }
}
impl FixedOutput for LogDigest {
    fn finalize_into(self, out: &mut Output<Self>) {
        FixedOutput::finalize_into(self.inner, out);
        let o = out.to_vec();
        RO_LOG.with(|l| l.borrow_mut().push((self.input, o)));
    }
}

/// the raw (input, output) pairs of the random oracle since the last `ro_clear`
pub fn ro_take_raw() -> Vec<(Vec<u8>, Vec<u8>)> {
    RO_LOG.with(|l| std::mem::take(&mut *l.borrow_mut()))
}

pub fn ro_clear() {
    RO_LOG.with(|l| l.borrow_mut().clear());
}

/// The random-oracle outputs since the last `ro_clear`, as the field elements
/// `compute_random_oracle_challenge` derives from them: a hash whose bytes are rejected by
/// `from_random_bytes` is retried by the code with the next counter, so it yields no challenge.
pub fn ro_take() -> (Vec<Fr>, usize) {
    let log = RO_LOG.with(|l| std::mem::take(&mut *l.borrow_mut()));
    let n = log.len();
    (log.iter().filter_map(|(_, out)| Fr::from_random_bytes(out)).collect(), n)
}

pub type UniPoly = DensePolynomial<Fr>;
pub type PC = InnerProductArgPC<G1Affine, LogDigest, UniPoly>;
pub type LC = LabeledCommitment<Commitment<G1Affine>>;
pub type LP = LabeledPolynomial<Fr, UniPoly>;
pub type Rand = Randomness<G1Affine>;

// ------------------------------------------------------------------------------------------------
// trapdoor keys
// ------------------------------------------------------------------------------------------------

#[derive(Clone)]
pub struct Trap {
    pub key: Vec<Fr>,
    pub h: Fr,
    pub s: Fr,
}

impl Trap {
    pub fn random(rng: &mut Rng, n: usize) -> Self {
        Trap { key: (0..n).map(|_| rand_nonzero(rng)).collect(), h: rand_nonzero(rng), s: rand_nonzero(rng) }
    }
    pub fn params(&self) -> UniversalParams<G1Affine> {
        UniversalParams { comm_key: g1s(&self.key), h: g1(self.h), s: g1(self.s) }
    }
}

pub fn dot(a: &[Fr], b: &[Fr]) -> Fr {
    a.iter().zip(b).map(|(x, y)| *x * y).sum()
}

/// scalars of a commitment
#[derive(Clone, Debug)]
pub struct CommS {
    pub label: String,
    pub c: Fr,
    pub s: Option<Fr>,
    pub bound: Option<usize>,
}

/// a proof in scalar form
#[derive(Clone, Debug)]
pub struct ProofS {
    pub ls: Vec<Fr>,
    pub rs: Vec<Fr>,
    pub fck: Fr,
    pub c: Fr,
    pub hc: Option<Fr>,
    pub rand: Option<Fr>,
}

impl ProofS {
    pub fn to_proof(&self) -> Proof<G1Affine> {
        Proof {
            l_vec: g1s(&self.ls),
            r_vec: g1s(&self.rs),
            final_comm_key: g1(self.fck),
            c: self.c,
            hiding_comm: self.hc.map(g1),
            rand: self.rand,
        }
    }
    pub fn matches(&self, p: &Proof<G1Affine>) -> bool {
        g1s(&self.ls) == p.l_vec
            && g1s(&self.rs) == p.r_vec
            && g1(self.fck) == p.final_comm_key
            && self.c == p.c
            && self.hc.map(g1) == p.hiding_comm
            && self.rand == p.rand
    }
}

pub struct Case {
    pub trap: Trap,
    /// the degree handed to `trim`
    pub req: usize,
    /// `ck.supported_degree()`
    pub s: usize,
    pub ck: CommitterKey<G1Affine>,
    pub vk: VerifierKey<G1Affine>,
    pub polys: Vec<LP>,
    pub kinds: Vec<&'static str>,
    pub comms: Vec<LC>,
    pub rands: Vec<Rand>,
    /// field draws of `commit` (replayed)
    pub commit_draws: Vec<Fr>,
}

impl Case {
    pub fn desc(&self) -> String {
        format!(
            "ipa N={} req={} s={} polys=[{}]",
            self.trap.key.len(),
            self.req,
            self.s,
            self.polys
                .iter()
                .zip(&self.kinds)
                .map(|(p, k)| format!("{}:{}:deg{}:b{:?}:h{:?}", p.label(), k, p.degree(), p.degree_bound(), p.hiding_bound()))
                .collect::<Vec<_>>()
                .join(" ")
        )
    }
    pub fn replay(&self, id: &str, seed: u64, extra: &str) -> String {
        format!(
            "# scheme: ipa\n# case: {}\n# seed: {}\n# {}\n# key scalars={} h={} s={}\n# {}\n# rerun: .build/cargo/debug/pcv-harness {} --seed {} --only {}\n",
            id, seed, self.desc(), wire::fes(&self.trap.key), wire::fe(&self.trap.h), wire::fe(&self.trap.s), extra,
            id.split('/').next().unwrap_or(""), seed, id
        )
    }
    /// request prefix: universal parameters + the degree handed to `trim`
    pub fn base(&self, op: &str) -> Req {
        self.base_req(op, self.req)
    }
    pub fn base_req(&self, op: &str, req: usize) -> Req {
        base_of(&self.trap, op, req)
    }
    pub fn comm_scalars(&self) -> Option<Vec<CommS>> {
        comm_scalars(&self.trap, self.s, &self.polys, &self.comms, &self.rands)
    }
}

pub fn base_of(t: &Trap, op: &str, req: usize) -> Req {
    Req::new(op).arg("key", wire::fes(&t.key)).arg("h", wire::fe(&t.h)).arg("s", wire::fe(&t.s)).arg("supported", wire::nat(req))
}

pub fn polys_args(r: Req, polys: &[LP]) -> Req {
    r.arg("labels", Val::L(polys.iter().map(|p| wire::label(p.label())).collect()))
        .arg("polys", Val::L(polys.iter().map(|p| wire::fes(&p.polynomial().coeffs)).collect()))
        .arg("bounds", Val::L(polys.iter().map(|p| wire::opt_nat(p.degree_bound())).collect()))
        .arg("hbs", Val::L(polys.iter().map(|p| wire::opt_nat(p.hiding_bound())).collect()))
}
pub fn rands_args(r: Req, rands: &[Rand]) -> Req {
    r.arg("rands", wire::fes(&rands.iter().map(|x| x.rand).collect::<Vec<_>>()))
        .arg("srands", Val::L(rands.iter().map(|x| wire::opt_fe(&x.shifted_rand)).collect()))
}
pub fn comms_args(r: Req, cs: &[CommS]) -> Req {
    r.arg("clabels", Val::L(cs.iter().map(|c| wire::label(&c.label)).collect()))
        .arg("cs", wire::fes(&cs.iter().map(|c| c.c).collect::<Vec<_>>()))
        .arg("ss", Val::L(cs.iter().map(|c| wire::opt_fe(&c.s)).collect()))
        .arg("cbounds", Val::L(cs.iter().map(|c| wire::opt_nat(c.bound)).collect()))
}
pub fn proof_args(r: Req, p: &ProofS) -> Req {
    r.arg("ls", wire::fes(&p.ls))
        .arg("rs", wire::fes(&p.rs))
        .arg("fck", wire::fe(&p.fck))
        .arg("pc", wire::fe(&p.c))
        .arg("hc", wire::opt_fe(&p.hc))
        .arg("prand", wire::opt_fe(&p.rand))
}
pub fn proofs_args(r: Req, ps: &[ProofS]) -> Req {
    r.arg("lss", Val::L(ps.iter().map(|p| wire::fes(&p.ls)).collect()))
        .arg("rss", Val::L(ps.iter().map(|p| wire::fes(&p.rs)).collect()))
        .arg("fcks", wire::fes(&ps.iter().map(|p| p.fck).collect::<Vec<_>>()))
        .arg("pcs", wire::fes(&ps.iter().map(|p| p.c).collect::<Vec<_>>()))
        .arg("hcs", Val::L(ps.iter().map(|p| wire::opt_fe(&p.hc)).collect()))
        .arg("prands", Val::L(ps.iter().map(|p| wire::opt_fe(&p.rand)).collect()))
}
pub fn queries_args(r: Req, qs: &QuerySet<Fr>) -> Req {
    r.arg("qlabels", Val::L(qs.iter().map(|q| wire::label(&q.0)).collect()))
        .arg("qplabels", Val::L(qs.iter().map(|q| wire::label(&(q.1).0)).collect()))
        .arg("qpoints", wire::fes(&qs.iter().map(|q| (q.1).1).collect::<Vec<_>>()))
}
pub fn evals_args(r: Req, ev: &Evaluations<Fr, Fr>) -> Req {
    r.arg("elabels", Val::L(ev.keys().map(|k| wire::label(&k.0)).collect()))
        .arg("epoints", wire::fes(&ev.keys().map(|k| k.1).collect::<Vec<_>>()))
        .arg("evals", wire::fes(&ev.values().cloned().collect::<Vec<_>>()))
}

pub fn comms_from(cs: &[CommS]) -> Vec<LC> {
    cs.iter()
        .map(|c| LabeledCommitment::new(c.label.clone(), Commitment { comm: g1(c.c), shifted_comm: c.s.map(g1) }, c.bound))
        .collect()
}

/// the commitment scalars `⟨p, G⟩ + ρ·S`, `⟨p, G[s−d..]⟩ + ρ_s·S`, *checked* against the library's
/// group elements
pub fn comm_scalars(t: &Trap, s: usize, polys: &[LP], comms: &[LC], rands: &[Rand]) -> Option<Vec<CommS>> {
    let mut out = vec![];
    for ((p, c), r) in polys.iter().zip(comms).zip(rands) {
        let cs = dot(&t.key, &p.polynomial().coeffs) + t.s * r.rand;
        if g1(cs) != c.commitment().comm {
            return None;
        }
        let sh = match (p.degree_bound(), &c.commitment().shifted_comm) {
            (Some(d), Some(sc)) => {
                if d > s {
                    return None;
                }
                let ss = dot(&t.key[(s - d)..=s], &p.polynomial().coeffs) + t.s * r.shifted_rand.unwrap_or(Fr::zero());
                if g1(ss) != *sc {
                    return None;
                }
                Some(ss)
            }
            (None, None) => None,
            _ => return None,
        };
        out.push(CommS { label: p.label().clone(), c: cs, s: sh, bound: c.degree_bound() });
    }
    Some(out)
}

/// `n` field draws the next calls will make on (a clone of) `rng`
pub fn replay_fr(rng: &Rng, n: usize) -> Vec<Fr> {
    let mut r = rng.clone();
    (0..n).map(|_| Fr::rand(&mut r)).collect()
}

pub const DEGREES_QUICK: &[usize] = &[1, 2, 3, 4, 7, 8, 15, 16];
pub const DEGREES_THOROUGH: &[usize] = &[1, 2, 3, 4, 7, 8, 15, 16, 31];

/// Build a case: parameters of `N` known scalars, `trim(req)`, structured polynomials of all
/// degrees `0..=s` (zero polynomial included) with optional bounds / hiding, `commit`.
pub fn gen_case(rng: &mut Rng, req: usize, npoly: usize, want_bounds: bool, want_hiding: bool) -> Result<Case, String> {
    let sd = (req + 1).next_power_of_two();
    // parameters at least as long as the trimmed key, sometimes longer
    let n = if coin(rng) { sd } else { 2 * sd };
    let trap = Trap::random(rng, n);
    let pp = trap.params();
    let (ck, vk) = PC::trim(&pp, req, 0, None).map_err(|e| format!("trim: {:?}", e))?;
    let s = ck.supported_degree();
    let mut polys = vec![];
    let mut kinds = vec![];
    for i in 0..npoly {
        let (p, kind) = crate::kzg::gen_poly(rng, s);
        let deg = p.degree();
        let bound = if want_bounds && range(rng, 0, 2) != 0 { Some(range(rng, deg, s)) } else { None };
        let hiding = if want_hiding && coin(rng) { Some(range(rng, 0, 3)) } else { None };
        polys.push(LabeledPolynomial::new(format!("p{}", i), p, bound, hiding));
        kinds.push(kind);
    }
    let commit_draws = replay_fr(rng, 2 * npoly);
    let (comms, rands) = PC::commit(&ck, &polys, Some(rng)).map_err(|e| format!("commit: {:?}", e))?;
    Ok(Case { trap, req, s, ck, vk, polys, kinds, comms, rands, commit_draws })
}

/// Like `gen_case`, with the hiding setting of every polynomial prescribed (`pattern[i]` = polynomial
/// `i` is hiding): mixed hiding inside one opening.
pub fn gen_case_pattern(rng: &mut Rng, req: usize, pattern: &[bool], want_bounds: bool) -> Result<Case, String> {
    let sd = (req + 1).next_power_of_two();
    let n = if coin(rng) { sd } else { 2 * sd };
    let trap = Trap::random(rng, n);
    let pp = trap.params();
    let (ck, vk) = PC::trim(&pp, req, 0, None).map_err(|e| format!("trim: {:?}", e))?;
    let s = ck.supported_degree();
    let mut polys = vec![];
    let mut kinds = vec![];
    for (i, hid) in pattern.iter().enumerate() {
        let (p, kind) = crate::kzg::gen_poly(rng, s);
        let deg = p.degree();
        let bound = if want_bounds && coin(rng) { Some(range(rng, deg, s)) } else { None };
        polys.push(LabeledPolynomial::new(format!("p{}", i), p, bound, if *hid { Some(range(rng, 0, 2)) } else { None }));
        kinds.push(kind);
    }
    let commit_draws = replay_fr(rng, 2 * pattern.len());
    let (comms, rands) = PC::commit(&ck, &polys, Some(rng)).map_err(|e| format!("commit: {:?}", e))?;
    Ok(Case { trap, req, s, ck, vk, polys, kinds, comms, rands, commit_draws })
}

/// queue `ipa.trim` and `ipa.commit` for the case
pub fn ask_trim_commit(ctx: &mut Ctx, id: &str, c: &Case) {
    ctx.ses.ask(
        id,
        c.base("ipa.trim"),
        ImplOutcome::Ok(vec![
            ("key".into(), Expect::G1s(c.ck.comm_key.clone())),
            ("h".into(), Expect::G1(c.ck.h)),
            ("s".into(), Expect::G1(c.ck.s)),
            ("max_degree".into(), Expect::Nat(c.ck.max_degree)),
            ("supported".into(), Expect::Nat(c.ck.supported_degree())),
            ("vkey".into(), Expect::G1s(c.vk.comm_key.clone())),
            ("vh".into(), Expect::G1(c.vk.h)),
            ("vs".into(), Expect::G1(c.vk.s)),
        ]),
    );
    let used: usize = c.polys.iter().map(|p| if p.hiding_bound().is_some() { 1 + p.degree_bound().is_some() as usize } else { 0 }).sum();
    let req = polys_args(c.base("ipa.commit"), &c.polys).arg("rng", wire::boolean(true)).arg("draws", wire::fes(&c.commit_draws));
    ctx.ses.ask(
        id,
        req,
        ImplOutcome::Ok(vec![
            ("cs".into(), Expect::G1s(c.comms.iter().map(|x| x.commitment().comm).collect())),
            ("ss".into(), Expect::OptG1List(c.comms.iter().map(|x| x.commitment().shifted_comm).collect())),
            ("rands".into(), Expect::Fes(c.rands.iter().map(|x| x.rand).collect())),
            ("srands".into(), Expect::Raw(Val::L(c.rands.iter().map(|x| wire::opt_fe(&x.shifted_rand)).collect()))),
            ("used".into(), Expect::Nat(used)),
        ]),
    );
}

// ------------------------------------------------------------------------------------------------
// the prover in scalar form (third implementation; its output is checked against the library's
// group elements before it is used for mutations)
// ------------------------------------------------------------------------------------------------

/// `open` on scalars.  `ros`: hiding challenge (if hiding), ξ₀, one per round.
/// `draws`: the hiding polynomial's draws and ω.  Returns the proof and the numbers of (ξ, ro, draws) used.
pub fn scalar_open(
    t: &Trap,
    s: usize,
    polys: &[&LP],
    comms: &[&CommS],
    sts: &[&Rand],
    z: Fr,
    xis: &[Fr],
    ros: &[Fr],
    draws: &[Fr],
) -> Option<(ProofS, usize, usize, usize)> {
    let key: Vec<Fr> = t.key[..=s].to_vec();
    let mut xi = 0usize;
    let mut ro = 0usize;
    let mut dr = 0usize;
    let mut cur = *xis.get(xi)?;
    xi += 1;
    let mut cp: Vec<Fr> = vec![];
    let mut cc = Fr::zero();
    let mut cr = Fr::zero();
    let mut hiding = false;
    let add = |acc: &mut Vec<Fr>, k: Fr, p: &[Fr], shift: usize| {
        if acc.len() < p.len() + shift {
            acc.resize(p.len() + shift, Fr::zero());
        }
        for (i, x) in p.iter().enumerate() {
            acc[i + shift] += k * x;
        }
    };
    for ((p, c), st) in polys.iter().zip(comms).zip(sts) {
        add(&mut cp, cur, &p.polynomial().coeffs, 0);
        cc += c.c * cur;
        if p.hiding_bound().is_some() {
            hiding = true;
            cr += cur * st.rand;
        }
        cur = *xis.get(xi)?;
        xi += 1;
        if let Some(d) = p.degree_bound() {
            if !p.polynomial().coeffs.is_empty() {
                add(&mut cp, cur, &p.polynomial().coeffs, s - d);
            }
            cc += c.s? * cur;
            if p.hiding_bound().is_some() {
                cr += cur * st.shifted_rand?;
            }
        }
        cur = *xis.get(xi)?;
        xi += 1;
    }
    let mut hc = None;
    if hiding {
        // P::rand(s): s draws, then the first non-zero draw as leading coefficient
        let mut hp: Vec<Fr> = draws.get(..s)?.to_vec();
        dr = s;
        loop {
            let x = *draws.get(dr)?;
            dr += 1;
            if !x.is_zero() {
                hp.push(x);
                break;
            }
        }
        let hz: Fr = hp.iter().rev().fold(Fr::zero(), |acc, c| acc * z + c);
        hp[0] -= hz;
        let omega = *draws.get(dr)?;
        dr += 1;
        let hcs = dot(&key, &hp) + t.s * omega;
        hc = Some(hcs);
        let alpha = *ros.get(ro)?;
        ro += 1;
        add(&mut cp, alpha, &hp, 0);
        cr += alpha * omega;
        cc += hcs * alpha - t.s * cr;
    }
    let _ = cc;
    let xi0 = *ros.get(ro)?;
    ro += 1;
    let hp_ = t.h * xi0;
    let mut coeffs = cp.clone();
    if coeffs.len() < s + 1 {
        coeffs.resize(s + 1, Fr::zero());
    }
    let mut zs: Vec<Fr> = vec![];
    let mut curz = Fr::one();
    for _ in 0..=s {
        zs.push(curz);
        curz *= z;
    }
    let mut k = key.clone();
    let mut ls = vec![];
    let mut rs = vec![];
    let mut n = s + 1;
    while n > 1 {
        let m = n / 2;
        let l = dot(&k[..m], &coeffs[m..]) + hp_ * dot(&coeffs[m..], &zs[..m]);
        let r = dot(&k[m..], &coeffs[..m]) + hp_ * dot(&coeffs[..m], &zs[m..]);
        ls.push(l);
        rs.push(r);
        let u = *ros.get(ro)?;
        ro += 1;
        let ui = u.inverse()?;
        for i in 0..m {
            let (cl, crr) = (coeffs[i], coeffs[m + i]);
            coeffs[i] = cl + ui * crr;
            let (zl, zr) = (zs[i], zs[m + i]);
            zs[i] = zl + u * zr;
            let (kl, kr) = (k[i], k[m + i]);
            k[i] = kl + u * kr;
        }
        coeffs.truncate(m);
        zs.truncate(m);
        k.truncate(m);
        n = m;
    }
    Some((ProofS { ls, rs, fck: k[0], c: coeffs[0], hc, rand: if hiding { Some(cr) } else { None } }, xi, ro, dr))
}

pub struct Opened {
    pub z: Fr,
    pub values: Vec<Fr>,
    pub proof: Proof<G1Affine>,
    pub ps: ProofS,
    pub xis: Vec<Fr>,
    pub ros: Vec<Fr>,
}

/// honest `open` of the given polynomials of the case at `z`; queues `ipa.open`; returns the proof in
/// both forms (the scalar form checked against the library's)
pub fn open_at(
    ctx: &mut Ctx,
    rng: &mut Rng,
    id: &str,
    c: &Case,
    cs: &[CommS],
    idx: &[usize],
    z: Fr,
    ck: &CommitterKey<G1Affine>,
    req: usize,
) -> Result<Opened, String> {
    let polys: Vec<&LP> = idx.iter().map(|&i| &c.polys[i]).collect();
    let comms: Vec<&LC> = idx.iter().map(|&i| &c.comms[i]).collect();
    let rands: Vec<&Rand> = idx.iter().map(|&i| &c.rands[i]).collect();
    let csub: Vec<CommS> = idx.iter().map(|&i| cs[i].clone()).collect();
    let values: Vec<Fr> = polys.iter().map(|p| p.evaluate(&z)).collect();
    let s = ck.supported_degree();
    let draws = replay_fr(rng, s + 6);
    let mut sp = LogSponge::fresh();
    ro_clear();
    let r = guarded(|| PC::open(ck, polys.iter().cloned(), comms.iter().cloned(), &z, &mut sp, rands.iter().cloned(), Some(rng)));
    let (ros, _) = ro_take();
    let proof = match r {
        Ok(Ok(p)) => p,
        Ok(Err(e)) => return Err(err_kind(&e)),
        Err(a) => return Err(a),
    };
    let xis = sp.challenges();
    // the prover in scalar form; a library proof that is not the key-defined one (e.g. hiding dropped,
    // another number of rounds) is reported, after the model has been asked about it as well
    let sc = scalar_open(&c.trap, s, &polys, &csub.iter().collect::<Vec<_>>(), &rands, z, &xis, &ros, &draws);
    let lp: Vec<LP> = polys.iter().map(|p| (*p).clone()).collect();
    let lr: Vec<Rand> = rands.iter().map(|r| (*r).clone()).collect();
    let reqm = comms_args(rands_args(polys_args(c.base_req("ipa.open", req), &lp), &lr), &csub)
        .arg("z", wire::fe(&z))
        .arg("xis", wire::fes(&xis))
        .arg("ros", wire::fes(&ros))
        .arg("rng", wire::boolean(true))
        .arg("draws", wire::fes(&draws));
    let mut exp = vec![
        ("ls".into(), Expect::G1s(proof.l_vec.clone())),
        ("rs".into(), Expect::G1s(proof.r_vec.clone())),
        ("fck".into(), Expect::G1(proof.final_comm_key)),
        ("pc".into(), Expect::Fe(proof.c)),
        ("hcl".into(), Expect::OptG1List(vec![proof.hiding_comm])),
        ("prand".into(), Expect::OptFe(proof.rand)),
        ("nl".into(), Expect::Nat(proof.l_vec.len())),
        ("nr".into(), Expect::Nat(proof.r_vec.len())),
        ("used_xi".into(), Expect::Nat(xis.len())),
    ];
    if let Some((_, _, used_ro, used_dr)) = &sc {
        exp.push(("used_ro".into(), Expect::Nat(*used_ro)));
        exp.push(("used_draws".into(), Expect::Nat(*used_dr)));
    }
    ctx.ses.ask(id, reqm, ImplOutcome::Ok(exp));
    let ps = match sc {
        Some((ps, _, _, _)) if ps.matches(&proof) => ps,
        _ => return Err("proof-not-key-defined".into()),
    };
    Ok(Opened { z, values, proof, ps, xis, ros })
}

#[derive(Clone, Copy, Debug, PartialEq, Eq)]
pub enum Outcome3 {
    Accept,
    Reject,
    Refuse,
}

/// key in scalar form, as seen by a verifier (mutable for key-replacement cases)
#[derive(Clone)]
pub struct VkS {
    pub trap: Trap,
    pub req: usize,
}

pub fn vk_of(t: &Trap, req: usize) -> Option<VerifierKey<G1Affine>> {
    PC::trim(&t.params(), req, 0, None).ok().map(|x| x.1)
}

/// run the library verifier on a statement given in scalar form and queue `ipa.check`
pub fn check_scalar(ctx: &mut Ctx, id: &str, vks: &VkS, vk: &VerifierKey<G1Affine>, cs: &[CommS], z: Fr, vs: &[Fr], p: &ProofS) -> Outcome3 {
    let comms = comms_from(cs);
    let proof = p.to_proof();
    let mut sp = LogSponge::fresh();
    ro_clear();
    let r = guarded(|| PC::check(vk, &comms, &z, vs.iter().cloned(), &proof, &mut sp, None));
    let (ros, _) = ro_take();
    let xis = sp.challenges();
    let (out, o3) = match r {
        Ok(Ok(b)) => (ImplOutcome::Ok(vec![("b".into(), Expect::Bool(b))]), if b { Outcome3::Accept } else { Outcome3::Reject }),
        Ok(Err(e)) => (ImplOutcome::Refuse(err_kind(&e)), Outcome3::Refuse),
        Err(a) => (ImplOutcome::Refuse(a), Outcome3::Refuse),
    };
    // the model must never run out of oracle outputs where the implementation stopped early
    let mut extra = rng_for(0, id, 77);
    let mut xis_full = xis.clone();
    while xis_full.len() < 2 * cs.len() + 1 {
        xis_full.push(Fr::rand(&mut extra));
    }
    let mut ros_full = ros.clone();
    while ros_full.len() < p.ls.len().max(p.rs.len()) + 2 {
        ros_full.push(rand_nonzero(&mut extra));
    }
    let req = proof_args(comms_args(base_of(&vks.trap, "ipa.check", vks.req), cs), p)
        .arg("z", wire::fe(&z))
        .arg("vs", wire::fes(vs))
        .arg("xis", wire::fes(&xis_full))
        .arg("ros", wire::fes(&ros_full));
    ctx.ses.ask(id, req, out);
    o3
}

/// a query set over the case's polynomials with `nlabels` point labels (some sharing a point
/// value), 1–3 polynomials per label
pub fn gen_queries(rng: &mut Rng, c: &Case, nlabels: usize) -> (QuerySet<Fr>, Evaluations<Fr, Fr>) {
    let mut qs = QuerySet::new();
    let mut ev = Evaluations::new();
    let mut pts: Vec<Fr> = vec![];
    for l in 0..nlabels {
        let pt = if l > 0 && range(rng, 0, 3) == 0 { pts[range(rng, 0, pts.len() - 1)] } else { Fr::rand(rng) };
        pts.push(pt);
        let mut any = false;
        for (i, p) in c.polys.iter().enumerate() {
            if coin(rng) || (!any && i + 1 == c.polys.len()) {
                any = true;
                qs.insert((p.label().clone(), (format!("pt{}", l), pt)));
                ev.insert((p.label().clone(), pt), p.evaluate(&pt));
            }
        }
    }
    (qs, ev)
}

pub struct BatchOpened {
    pub proofs: Vec<Proof<G1Affine>>,
    pub ps: Vec<ProofS>,
    /// the sponge challenges of the whole batch (prover = verifier, lock-step)
    pub xis: Vec<Fr>,
}

/// honest `batch_open` (trait default); queues `ipa.batch_open`; the scalar proofs are re-derived
/// group by group and checked against the library's
pub fn batch_open(ctx: &mut Ctx, rng: &mut Rng, id: &str, c: &Case, cs: &[CommS], qs: &QuerySet<Fr>) -> Result<BatchOpened, String> {
    let groups = crate::generic::group(qs);
    let draws = replay_fr(rng, groups.len() * (c.s + 4) + 4);
    let mut sp = LogSponge::fresh();
    ro_clear();
    let r = guarded(|| PC::batch_open(&c.ck, &c.polys, &c.comms, qs, &mut sp, &c.rands, Some(rng)));
    let (ros, _) = ro_take();
    let proofs: Vec<Proof<G1Affine>> = match r {
        Ok(Ok(p)) => p,
        Ok(Err(e)) => return Err(err_kind(&e)),
        Err(a) => return Err(a),
    };
    let xis = sp.challenges();
    let (mut kx, mut kr, mut kd) = (0usize, 0usize, 0usize);
    let mut ps = vec![];
    let mut complete = true;
    for (_, pt, labels) in &groups {
        let idx: Vec<usize> = labels.iter().filter_map(|l| c.polys.iter().position(|p| p.label() == l)).collect();
        let polys: Vec<&LP> = idx.iter().map(|&i| &c.polys[i]).collect();
        let rands: Vec<&Rand> = idx.iter().map(|&i| &c.rands[i]).collect();
        let csub: Vec<&CommS> = idx.iter().map(|&i| &cs[i]).collect();
        match scalar_open(&c.trap, c.s, &polys, &csub, &rands, *pt, xis.get(kx..).unwrap_or(&[]), ros.get(kr..).unwrap_or(&[]), draws.get(kd..).unwrap_or(&[])) {
            Some((p, ux, ur, ud)) => {
                kx += ux;
                kr += ur;
                kd += ud;
                ps.push(p);
            }
            None => {
                complete = false;
                break;
            }
        }
    }
    let key_defined = complete && ps.len() == proofs.len() && ps.iter().zip(&proofs).all(|(a, b)| a.matches(b));
    let req = queries_args(comms_args(rands_args(polys_args(c.base("ipa.batch_open"), &c.polys), &c.rands), cs), qs)
        .arg("xis", wire::fes(&xis))
        .arg("ros", wire::fes(&ros))
        .arg("rng", wire::boolean(true))
        .arg("draws", wire::fes(&draws));
    let mut exp = vec![
        ("fcks".into(), Expect::G1s(proofs.iter().map(|p| p.final_comm_key).collect())),
        ("pcs".into(), Expect::Fes(proofs.iter().map(|p| p.c).collect())),
        ("hcs".into(), Expect::OptG1List(proofs.iter().map(|p| p.hiding_comm).collect())),
        ("prands".into(), Expect::Raw(Val::L(proofs.iter().map(|p| wire::opt_fe(&p.rand)).collect()))),
        ("nls".into(), Expect::Nats(proofs.iter().map(|p| p.l_vec.len()).collect())),
        ("used_xi".into(), Expect::Nat(xis.len())),
    ];
    if key_defined {
        exp.push(("lss".into(), Expect::Raw(Val::L(ps.iter().map(|p| wire::fes(&p.ls)).collect()))));
        exp.push(("rss".into(), Expect::Raw(Val::L(ps.iter().map(|p| wire::fes(&p.rs)).collect()))));
        exp.push(("used_ro".into(), Expect::Nat(kr)));
        exp.push(("used_draws".into(), Expect::Nat(kd)));
    }
    ctx.ses.ask(id, req, ImplOutcome::Ok(exp));
    if !key_defined {
        return Err("proof-not-key-defined".into());
    }
    Ok(BatchOpened { proofs, ps, xis })
}

/// run `batch_check` on a statement in scalar form and queue `ipa.batch_check`
pub fn batch_check_scalar(
    ctx: &mut Ctx,
    rng: &mut Rng,
    id: &str,
    vks: &VkS,
    vk: &VerifierKey<G1Affine>,
    cs: &[CommS],
    qs: &QuerySet<Fr>,
    ev: &Evaluations<Fr, Fr>,
    ps: &[ProofS],
) -> Outcome3 {
    let comms = comms_from(cs);
    let proofs: Vec<Proof<G1Affine>> = ps.iter().map(|p| p.to_proof()).collect();
    batch_check_conv(ctx, rng, id, vks, vk, cs, &comms, qs, ev, ps, &proofs)
}

/// `batch_check_scalar` with the group-element forms supplied by the caller
pub fn batch_check_conv(
    ctx: &mut Ctx,
    rng: &mut Rng,
    id: &str,
    vks: &VkS,
    vk: &VerifierKey<G1Affine>,
    cs: &[CommS],
    comms: &[LC],
    qs: &QuerySet<Fr>,
    ev: &Evaluations<Fr, Fr>,
    ps: &[ProofS],
    proofs: &[Proof<G1Affine>],
) -> Outcome3 {
    let proofs: Vec<Proof<G1Affine>> = proofs.to_vec();
    let ngroups = crate::generic::group(qs).len();
    let rs = crate::kzg::replay_u128(rng, ps.len().max(ngroups) + 1);
    let mut sp = LogSponge::fresh();
    ro_clear();
    let r = guarded(|| PC::batch_check(vk, comms, qs, ev, &proofs, &mut sp, rng));
    let (ros, _) = ro_take();
    let xis = sp.challenges();
    let (out, o3) = match r {
        Ok(Ok(b)) => (ImplOutcome::Ok(vec![("b".into(), Expect::Bool(b))]), if b { Outcome3::Accept } else { Outcome3::Reject }),
        Ok(Err(e)) => (ImplOutcome::Refuse(err_kind(&e)), Outcome3::Refuse),
        Err(a) => (ImplOutcome::Refuse(a), Outcome3::Refuse),
    };
    let mut extra = rng_for(1, id, 78);
    let mut xis_full = xis.clone();
    while xis_full.len() < 2 * qs.len() + ngroups + 2 {
        xis_full.push(Fr::rand(&mut extra));
    }
    let mut ros_full = ros.clone();
    let need: usize = ps.iter().map(|p| p.ls.len().max(p.rs.len()) + 2).sum::<usize>() + 2;
    while ros_full.len() < need {
        ros_full.push(rand_nonzero(&mut extra));
    }
    let req = proofs_args(evals_args(queries_args(comms_args(base_of(&vks.trap, "ipa.batch_check", vks.req), cs), qs), ev), ps)
        .arg("xis", wire::fes(&xis_full))
        .arg("ros", wire::fes(&ros_full))
        .arg("rs", wire::fes(&rs));
    ctx.ses.ask(id, req, out);
    o3
}

/// the individual `check` calls of a batch, in the library's grouping order on one sponge (the
/// reference for C05): `Accept` iff all accept, `Refuse` if some call errs/aborts before a reject
pub fn individual_checks(vk: &VerifierKey<G1Affine>, cs: &[CommS], qs: &QuerySet<Fr>, ev: &Evaluations<Fr, Fr>, ps: &[ProofS]) -> Outcome3 {
    let comms = comms_from(cs);
    let proofs: Vec<Proof<G1Affine>> = ps.iter().map(|p| p.to_proof()).collect();
    individual_checks_conv(vk, &comms, qs, ev, &proofs)
}

pub fn individual_checks_conv(vk: &VerifierKey<G1Affine>, comms: &[LC], qs: &QuerySet<Fr>, ev: &Evaluations<Fr, Fr>, ps: &[Proof<G1Affine>]) -> Outcome3 {
    let groups = crate::generic::group(qs);
    if groups.len() != ps.len() {
        return Outcome3::Refuse;
    }
    let mut sp = LogSponge::fresh();
    let mut all = Outcome3::Accept;
    for ((_, pt, labels), p) in groups.iter().zip(ps) {
        let mut sub = vec![];
        let mut vals = vec![];
        for l in labels {
            match (comms.iter().rev().find(|c| c.label() == l), ev.get(&(l.clone(), *pt))) {
                (Some(c), Some(v)) => {
                    sub.push(c.clone());
                    vals.push(*v);
                }
                _ => return Outcome3::Refuse,
            }
        }
        let proof = p.clone();
        match guarded(|| PC::check(vk, &sub, pt, vals.iter().cloned(), &proof, &mut sp, None)) {
            Ok(Ok(true)) => {}
            Ok(Ok(false)) => {
                if all == Outcome3::Accept {
                    all = Outcome3::Reject;
                }
                return all;
            }
            _ => return Outcome3::Refuse,
        }
    }
    all
}

/// `batch_open` done by hand on one sponge, where the point label number `short_pos` (in sorted
/// order) is opened with the *smaller* key `ck_small` (a smaller trim of the same parameters) and
/// the others with the case's key.  Returns the proofs in scalar form (checked against the
/// library's group elements).
pub fn batch_open_cross_trim(
    rng: &mut Rng,
    c: &Case,
    cs: &[CommS],
    qs: &QuerySet<Fr>,
    ck_small: &CommitterKey<G1Affine>,
    short_pos: usize,
) -> Result<Vec<ProofS>, String> {
    let groups = crate::generic::group(qs);
    let draws = replay_fr(rng, groups.len() * (c.s + 6) + 4);
    let mut sp = LogSponge::fresh();
    ro_clear();
    let mut proofs = vec![];
    for (gi, (_, pt, labels)) in groups.iter().enumerate() {
        let idx: Vec<usize> = labels.iter().filter_map(|l| c.polys.iter().position(|p| p.label() == l)).collect();
        let polys: Vec<&LP> = idx.iter().map(|&i| &c.polys[i]).collect();
        let comms: Vec<&LC> = idx.iter().map(|&i| &c.comms[i]).collect();
        let rands: Vec<&Rand> = idx.iter().map(|&i| &c.rands[i]).collect();
        let ck = if gi == short_pos { ck_small } else { &c.ck };
        match guarded(|| PC::open(ck, polys.iter().cloned(), comms.iter().cloned(), pt, &mut sp, rands.iter().cloned(), Some(rng))) {
            Ok(Ok(p)) => proofs.push(p),
            Ok(Err(e)) => return Err(err_kind(&e)),
            Err(a) => return Err(a),
        }
    }
    let (ros, _) = ro_take();
    let xis = sp.challenges();
    let (mut kx, mut kr, mut kd) = (0usize, 0usize, 0usize);
    let mut ps = vec![];
    for (gi, (_, pt, labels)) in groups.iter().enumerate() {
        let idx: Vec<usize> = labels.iter().filter_map(|l| c.polys.iter().position(|p| p.label() == l)).collect();
        let polys: Vec<&LP> = idx.iter().map(|&i| &c.polys[i]).collect();
        let rands: Vec<&Rand> = idx.iter().map(|&i| &c.rands[i]).collect();
        let csub: Vec<&CommS> = idx.iter().map(|&i| &cs[i]).collect();
        let s = if gi == short_pos { ck_small.supported_degree() } else { c.s };
        let (p, ux, ur, ud) = scalar_open(&c.trap, s, &polys, &csub, &rands, *pt, &xis[kx..], &ros[kr..], &draws[kd..]).ok_or("scalar prover ran out of oracle outputs".to_string())?;
        kx += ux;
        kr += ur;
        kd += ud;
        ps.push(p);
    }
    if ps.len() != proofs.len() || !ps.iter().zip(&proofs).all(|(a, b)| a.matches(b)) {
        return Err("proof-not-key-defined".into());
    }
    Ok(ps)
}

// ------------------------------------------------------------------------------------------------
// linear combinations (`open_combinations` / `check_combinations`, driver ops `ipa.*_combinations`)
// ------------------------------------------------------------------------------------------------

pub fn lcs_args(r: Req, lcs: &[ark_poly_commit::LinearCombination<Fr>]) -> Req {
    use ark_poly_commit::LCTerm;
    r.arg("lclabels", Val::L(lcs.iter().map(|l| wire::label(l.label())).collect()))
        .arg("lccoeffs", Val::L(lcs.iter().map(|l| wire::fes(&l.iter().map(|t| t.0).collect::<Vec<_>>())).collect()))
        .arg("lcone", Val::L(lcs.iter().map(|l| Val::L(l.iter().map(|t| wire::nat(t.1.is_one() as usize)).collect())).collect()))
        .arg(
            "lcterms",
            Val::L(lcs.iter().map(|l| Val::L(l.iter().map(|t| match &t.1 { LCTerm::One => wire::label(""), LCTerm::PolyLabel(s) => wire::label(s) }).collect())).collect()),
        )
}

/// the combinations as labelled polynomials / commitments / states in scalar form, derived
/// independently of the library (labels resolve to their LAST occurrence, constants are skipped, a
/// single bounded term keeps its bound and shifted parts).  `None` when a label is unknown.
pub struct LcScalars {
    pub polys: Vec<LP>,
    pub cs: Vec<CommS>,
    pub rands: Vec<Rand>,
}

pub fn lc_scalars(polys: &[LP], cs: &[CommS], rands: &[Rand], lcs: &[ark_poly_commit::LinearCombination<Fr>]) -> Option<LcScalars> {
    use ark_poly_commit::LCTerm;
    let mut out = LcScalars { polys: vec![], cs: vec![], rands: vec![] };
    for lc in lcs {
        let mut poly = UniPoly::from_coefficients_vec(vec![]);
        let (mut c, mut s, mut rand, mut srand) = (Fr::zero(), None, Fr::zero(), None);
        let (mut bound, mut hb): (Option<usize>, Option<usize>) = (None, None);
        let single = lc.len() == 1;
        for (coeff, t) in lc.iter() {
            let l = match t {
                LCTerm::One => continue,
                LCTerm::PolyLabel(l) => l,
            };
            let i = polys.iter().rposition(|p| p.label() == l)?;
            if polys[i].degree_bound().is_some() {
                if !single || !coeff.is_one() {
                    return None;
                }
                bound = polys[i].degree_bound();
            }
            hb = hb.max(polys[i].hiding_bound());
            poly = &poly + &(polys[i].polynomial() * *coeff);
            c += cs[i].c * coeff;
            if let Some(x) = cs[i].s {
                s = Some(s.unwrap_or(Fr::zero()) + x * coeff);
            }
            rand += rands[i].rand * coeff;
            if let Some(x) = rands[i].shifted_rand {
                srand = Some(srand.unwrap_or(Fr::zero()) + x * coeff);
            }
        }
        out.polys.push(LabeledPolynomial::new(lc.label().clone(), poly, bound, hb));
        out.cs.push(CommS { label: lc.label().clone(), c, s, bound });
        out.rands.push(Randomness { rand, shifted_rand: srand });
    }
    Some(out)
}

/// the trait-default `batch_open` in scalar form: one `scalar_open` per point label in sorted order on
/// one stream of challenges / oracle outputs / draws.  Returns the proofs and the numbers used.
pub fn scalar_batch(
    t: &Trap,
    s: usize,
    polys: &[LP],
    cs: &[CommS],
    rands: &[Rand],
    qs: &QuerySet<Fr>,
    xis: &[Fr],
    ros: &[Fr],
    draws: &[Fr],
) -> Option<(Vec<ProofS>, usize, usize, usize)> {
    let groups = crate::generic::group(qs);
    let (mut kx, mut kr, mut kd) = (0usize, 0usize, 0usize);
    let mut ps = vec![];
    for (_, pt, labels) in &groups {
        let idx: Vec<usize> = labels.iter().map(|l| polys.iter().rposition(|p| p.label() == l)).collect::<Option<Vec<_>>>()?;
        let pp: Vec<&LP> = idx.iter().map(|&i| &polys[i]).collect();
        let rr: Vec<&Rand> = idx.iter().map(|&i| &rands[i]).collect();
        let cc: Vec<&CommS> = idx.iter().map(|&i| &cs[i]).collect();
        let (p, ux, ur, ud) = scalar_open(t, s, &pp, &cc, &rr, *pt, xis.get(kx..)?, ros.get(kr..)?, draws.get(kd..)?)?;
        kx += ux;
        kr += ur;
        kd += ud;
        ps.push(p);
    }
    Some((ps, kx, kr, kd))
}
