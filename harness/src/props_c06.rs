//! Property C06 — linear-combination openings prove exactly the stated combinations.
use crate::Ctx;

pub fn run(ctx: &mut Ctx) {
    crate::generic::c06_all(ctx);
    crate::props_marlin::c06(ctx);
}
