//! Property C06 — correspondence / expectation run (see DESIGN.md §5, C06).
use crate::Ctx;

pub fn run(ctx: &mut Ctx) {
    let _ = ctx;
}
