//! Property C19 — correspondence / expectation run (see DESIGN.md §5, C19).
use crate::Ctx;

pub fn run(ctx: &mut Ctx) {
    let _ = ctx;
}
