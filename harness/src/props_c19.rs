//! Property C19 — succinctness: commitment and proof sizes follow each scheme's law.
use crate::common::*;
use crate::generic::*;
use crate::Ctx;
use ark_bls12_381::Fr;
use ark_poly::Polynomial;
use ark_poly_commit::{LabeledPolynomial, PolynomialCommitment};
use ark_serialize::{CanonicalSerialize, Compress};

fn size<T: CanonicalSerialize>(x: &T) -> usize {
    x.serialized_size(Compress::Yes)
}

const G1: usize = 48;
const FR: usize = 32;

/// commit one polynomial of the given size, open it at one point; return (commitment bytes, proof bytes, sizes)
fn one<S: Scheme>(rng: &mut Rng, sizes: &Sizes, degree: usize, bound: bool, hiding: bool) -> Option<(usize, usize, usize)>
where
    <S::P as Polynomial<Fr>>::Point: Clone + Ord + std::fmt::Debug,
{
    let pp = S::PC::setup(sizes.max_degree, sizes.num_vars, rng).ok()?;
    let p = S::rand_poly(rng, sizes, degree);
    let b = if bound && S::BOUNDS { Some(sizes.supported) } else { None };
    let h = if hiding && S::HIDING { Some(1) } else { None };
    let bv = b.map(|x| vec![x]);
    let (ck, vk) = S::PC::trim(&pp, sizes.supported, 1, bv.as_deref()).ok()?;
    let lp = LabeledPolynomial::new("p".to_string(), p.clone(), b, h);
    let (c, st) = S::PC::commit(&ck, [&lp], Some(rng)).ok()?;
    let z = S::rand_point(rng, sizes);
    let mut sp = fresh_sponge();
    let proof = S::PC::open(&ck, [&lp], &c, &z, &mut sp, &st, Some(rng)).ok()?;
    let bp: <S::PC as PolynomialCommitment<Fr, S::P>>::BatchProof = vec![proof.clone()].into();
    let mut vs = fresh_sponge();
    let ok = S::PC::check(&vk, &c, &z, [p.evaluate(&z)], &proof, &mut vs, Some(rng)).ok()?;
    if !ok {
        return None;
    }
    // batch proof = 8-byte length prefix + the single proof
    Some((size(c[0].commitment()), size(&bp) - 8, size(&bp)))
}

fn fail(ctx: &mut Ctx, id: &str, scheme: &str, what: String) {
    ctx.rep.expect_fail(id, &format!("{}/size-law", scheme), &what, format!("# scheme: {}\n# case: {}\n# seed: {}\n# {}\n", scheme, id, ctx.seed, what));
}

pub fn run(ctx: &mut Ctx) {
    let degs: Vec<usize> = if ctx.thorough { vec![2, 3, 4, 7, 8, 16, 31, 32, 64, 128, 256] } else { vec![2, 4, 8, 16, 32, 64] };
    // --- univariate pairing / IPA schemes: equalities
    for &d in &degs {
        for (bound, hiding) in [(false, false), (true, false), (false, true), (true, true)] {
            let id = format!("C19/uni/{}/{}{}", d, bound as u8, hiding as u8);
            if !ctx.selected(&id) { continue; }
            let mut rng = rng_for(ctx.seed, "C19/uni", (d * 4 + bound as usize * 2 + hiding as usize) as u64);
            let sizes = Sizes { max_degree: d, supported: d, num_vars: None };
            // Marlin: commitment = G1 + Option<G1>; proof = G1 + Option<Fr>
            if let Some((c, p, _)) = one::<Marlin>(&mut rng, &sizes, d, bound, hiding) {
                let ec = G1 + 1 + if bound { G1 } else { 0 };
                let ep = G1 + 1 + if hiding { FR } else { 0 };
                if c != ec || p != ep { fail(ctx, &id, "marlin", format!("degree {}: commitment {} (law {}), proof {} (law {})", d, c, ec, p, ep)); }
                ctx.rep.case(&format!("marlin deg={} bound={} hiding={} comm={}B proof={}B", d, bound, hiding, c, p), Some(format!("marlin/{}/{}{}", d, bound, hiding)));
            } else { fail(ctx, &id, "marlin", "honest transcript failed".into()); }
            if let Some((c, p, _)) = one::<Sonic>(&mut rng, &sizes, d, bound, hiding) {
                let ec = G1;
                let ep = G1 + 1 + if hiding { FR } else { 0 };
                if c != ec || p != ep { fail(ctx, &id, "sonic", format!("degree {}: commitment {} (law {}), proof {} (law {})", d, c, ec, p, ep)); }
                ctx.rep.case(&format!("sonic deg={} bound={} hiding={} comm={}B proof={}B", d, bound, hiding, c, p), Some(format!("sonic/{}/{}{}", d, bound, hiding)));
            } else { fail(ctx, &id, "sonic", "honest transcript failed".into()); }
            if let Some((c, p, _)) = one::<Ipa>(&mut rng, &sizes, d, bound, hiding) {
                let rounds = ((d + 1).next_power_of_two()).trailing_zeros() as usize;
                let ec = G1 + 1 + if bound { G1 } else { 0 };
                // l_vec, r_vec (8-byte length each) + final_comm_key + c + Option<hiding_comm> + Option<rand>
                let ep = 2 * (8 + rounds * G1) + G1 + FR + 1 + if hiding { G1 } else { 0 } + 1 + if hiding { FR } else { 0 };
                if c != ec || p != ep { fail(ctx, &id, "ipa", format!("degree {}: commitment {} (law {}), proof {} (law {}: two group elements per halving round, {} rounds)", d, c, ec, p, ep, rounds)); }
                ctx.rep.case(&format!("ipa deg={} rounds={} comm={}B proof={}B", d, rounds, c, p), Some(format!("ipa/{}/{}{}", d, bound, hiding)));
            } else { fail(ctx, &id, "ipa", "honest transcript failed".into()); }
        }
    }
    // --- sizes must not grow with the hiding bound the keys are trimmed for (proof elements are counted in the
    // degree, not in the number of protected queries): trim with hiding bounds above the degree
    for (d, hb) in [(7usize, 8usize), (7, 20), (3, 12), (15, 40), (1, 5)] {
        let id = format!("C19/hiding-bound-independence/{}/{}", d, hb);
        if !ctx.selected(&id) { continue; }
        let mut rng = rng_for(ctx.seed, "C19/hiding-bound-independence", (d * 100 + hb) as u64);
        fn sized<S: Scheme>(rng: &mut Rng, d: usize, hb: usize, shb: usize) -> Option<(usize, usize)>
        where <S::P as Polynomial<Fr>>::Point: Clone + Ord + std::fmt::Debug {
            let sizes = Sizes { max_degree: hb + d + 3, supported: d, num_vars: None };
            let pp = S::PC::setup(sizes.max_degree, None, rng).ok()?;
            let (ck, vk) = S::PC::trim(&pp, d, shb, None).ok()?;
            let p = S::rand_poly(rng, &sizes, d);
            let lp = LabeledPolynomial::new("p".to_string(), p.clone(), None, Some(1));
            let (c, st) = S::PC::commit(&ck, [&lp], Some(rng)).ok()?;
            let z = S::rand_point(rng, &sizes);
            let mut sp = fresh_sponge();
            let proof = S::PC::open(&ck, [&lp], &c, &z, &mut sp, &st, Some(rng)).ok()?;
            let mut vs = fresh_sponge();
            if !S::PC::check(&vk, &c, &z, [p.evaluate(&z)], &proof, &mut vs, Some(rng)).ok()? { return None; }
            let bp: <S::PC as PolynomialCommitment<Fr, S::P>>::BatchProof = vec![proof.clone()].into();
            Some((size(c[0].commitment()), size(&bp)))
        }
        macro_rules! cmp {
            ($S:ty, $name:expr) => {
                match (sized::<$S>(&mut rng, d, hb, 1), sized::<$S>(&mut rng, d, hb, hb)) {
                    (Some(a), Some(b)) => {
                        if a != b {
                            fail(ctx, &id, $name, format!("degree {}: keys trimmed for hiding bound 1 give commitment/proof of {:?} bytes, keys trimmed for hiding bound {} give {:?}", d, a, hb, b));
                        }
                        ctx.rep.case(&format!("{} deg={} sizes independent of the trimmed hiding bound {}: {:?} / {:?}", $name, d, hb, a, b), Some(format!("{}/hiding-independence/{}/{}", $name, d, hb)));
                    }
                    _ => fail(ctx, &id, $name, format!("honest transcript failed (degree {}, hiding bound {})", d, hb)),
                }
            };
        }
        cmp!(Marlin, "marlin");
        cmp!(Sonic, "sonic");
        cmp!(Ipa, "ipa");
    }
    // --- PST13: one group element per variable
    for nv in 1..=(if ctx.thorough { 6 } else { 4 }) {
        for d in [1usize, 2, 4] {
            for hiding in [false, true] {
                let id = format!("C19/pst13/{}/{}/{}", nv, d, hiding);
                if !ctx.selected(&id) { continue; }
                let mut rng = rng_for(ctx.seed, "C19/pst13", (nv * 100 + d * 2 + hiding as usize) as u64);
                let sizes = Sizes { max_degree: d, supported: d, num_vars: Some(nv) };
                if let Some((c, p, _)) = one::<Pst13>(&mut rng, &sizes, d, false, hiding) {
                    let ec = G1 + 1;
                    let ep = 8 + nv * G1 + 1 + if hiding { FR } else { 0 };
                    if c != ec || p != ep { fail(ctx, &id, "pst13", format!("nv {} degree {}: commitment {} (law {}), proof {} (law {})", nv, d, c, ec, p, ep)); }
                    ctx.rep.case(&format!("pst13 nv={} deg={} hiding={} comm={}B proof={}B", nv, d, hiding, c, p), Some(format!("pst13/{}/{}/{}", nv, d, hiding)));
                } else { fail(ctx, &id, "pst13", "honest transcript failed".into()); }
            }
        }
    }
    // --- Hyrax: 2^(n/2) row commitments, proof vector z of 2^(n/2) scalars
    for nv in (2..=(if ctx.thorough { 12 } else { 8 })).step_by(2) {
        let id = format!("C19/hyrax/{}", nv);
        if !ctx.selected(&id) { continue; }
        let mut rng = rng_for(ctx.seed, "C19/hyrax", nv as u64);
        let sizes = Sizes { max_degree: 1, supported: 1, num_vars: Some(nv) };
        if let Some((c, p, _)) = one::<Hyrax>(&mut rng, &sizes, 1, false, false) {
            let dim = 1usize << (nv / 2);
            let ec = 8 + dim * G1;
            // Vec<HyraxProof> with one element: 8 + (3 G1 + (8 + dim Fr) + 3 Fr)
            let ep = 8 + 3 * G1 + 8 + dim * FR + 3 * FR;
            if c != ec || p != ep { fail(ctx, &id, "hyrax", format!("nv {}: commitment {} (law {}), proof {} (law {})", nv, c, ec, p, ep)); }
            ctx.rep.case(&format!("hyrax nv={} dim={} comm={}B proof={}B", nv, dim, c, p), Some(format!("hyrax/{}", nv)));
        } else { fail(ctx, &id, "hyrax", "honest transcript failed".into()); }
    }
    // --- Ligero / Brakedown: constant commitment; proof within 4x of the best power-of-two shape
    let ldegs: Vec<usize> = if ctx.thorough { vec![2, 16, 64, 255, 256, 600, 1023, 2048, 4095, 8192] } else { vec![2, 64, 256, 1023, 4096] };
    lincode::<UniLigero>(ctx, "uni-ligero", &ldegs.iter().map(|d| Sizes { max_degree: *d, supported: *d, num_vars: None }).collect::<Vec<_>>(), 4.0, true);
    let nvs: Vec<usize> = if ctx.thorough { (2..=12).collect() } else { vec![2, 4, 6, 8, 10] };
    lincode::<MlLigero>(ctx, "ml-ligero", &nvs.iter().map(|n| Sizes { max_degree: 1, supported: 1, num_vars: Some(*n) }).collect::<Vec<_>>(), 4.0, true);
    lincode::<Brakedown>(ctx, "brakedown", &nvs.iter().filter(|n| **n >= 3).map(|n| Sizes { max_degree: 1, supported: 1, num_vars: Some(*n) }).collect::<Vec<_>>(), 1.521, false);
    crate::generic::c19_extra(ctx);
    // the shape / column-count law of the linear codes at sizes far beyond what a quick run commits to
    crate::props_c13::part_d_p(ctx, "C19");
}

/// modelled proof size for a matrix with `n_rows` rows (one polynomial, one point)
/// returns (bytes, t < n_ext)
fn model_size<F: ark_ff::PrimeField>(n_coeffs: usize, n_rows: usize, rate: f64, pow2_ext: bool, sec: usize, dist: (usize, usize), wf: bool) -> (usize, bool) {
    let n_cols = (n_coeffs + n_rows - 1) / n_rows;
    let mut n_ext = (n_cols as f64 * rate).ceil() as usize;
    if pow2_ext { n_ext = n_ext.next_power_of_two(); }
    let t = ark_poly_commit::verif_hooks::calculate_t::<F>(sec, dist, n_ext).unwrap_or(n_ext);
    let depth = (n_ext.next_power_of_two()).trailing_zeros() as usize;
    // path: leaf_sibling (8 + 32 bytes), auth_path (8 + (depth-1)*32), leaf_index 8
    let path = 8 + 32 + 8 + depth.saturating_sub(1) * 32 + 8;
    let v = 8 + n_cols * FR;
    (8 + t * path + v + 8 + t * (8 + n_rows * FR) + 1 + if wf { v } else { 0 }, t < n_ext)
}

fn lincode<S: Scheme>(ctx: &mut Ctx, name: &str, ladder: &[Sizes], rate: f64, pow2_ext: bool)
where
    <S::P as Polynomial<Fr>>::Point: Clone + Ord + std::fmt::Debug,
{
    for sizes in ladder {
        let id = format!("C19/{}/{:?}/{}", name, sizes.num_vars, sizes.supported);
        if !ctx.selected(&id) { continue; }
        let mut rng = rng_for(ctx.seed, &format!("C19/{}", name), (sizes.supported * 64 + sizes.num_vars.unwrap_or(0)) as u64);
        let n_coeffs = match sizes.num_vars { Some(nv) => 1usize << nv, None => sizes.supported + 1 };
        match one::<S>(&mut rng, sizes, sizes.supported, false, false) {
            Some((c, _p, bp)) => {
                // commitment: metadata (3 usize) + length-prefixed 32-byte root: the same for every size
                if c != 24 + 8 + 32 { fail(ctx, &id, name, format!("commitment size {} is not the constant 64", c)); }
                // Vec<Proof> (8) of one LPCPArray (8) of one proof
                let actual = bp - 8;
                let (sec, dist, wf) = (128usize, if name == "brakedown" { (61 * 1000, 1000 * 1521) } else { (3usize, 4usize) }, true);
                // the law applies once the number of column openings is below the codeword length;
                // shapes that open the whole codeword are not "succinct" shapes and do not compete
                let mut best = usize::MAX;
                let mut best_rows = 0;
                let mut j = 0;
                while (1usize << j) <= n_coeffs.next_power_of_two() {
                    let (s, succinct) = model_size::<Fr>(n_coeffs, 1 << j, rate, pow2_ext, sec, dist, wf);
                    if succinct && s < best { best = s; best_rows = 1 << j; }
                    j += 1;
                }
                // in EVERY regime: never more column openings than the codeword has positions — the proof is at most
                // the whole encoded matrix with one authentication path per column (largest such shape)
                let mut whole = 0usize;
                let mut j2 = 0;
                while (1usize << j2) <= n_coeffs.next_power_of_two() {
                    let n_rows = 1usize << j2;
                    let n_cols = (n_coeffs + n_rows - 1) / n_rows;
                    let mut n_ext = (n_cols as f64 * rate).ceil() as usize;
                    if pow2_ext { n_ext = n_ext.next_power_of_two(); }
                    let depth = (n_ext.next_power_of_two()).trailing_zeros() as usize;
                    let path = 8 + 32 + 8 + depth.saturating_sub(1) * 32 + 8;
                    let v = 8 + n_cols * FR;
                    whole = whole.max(8 + n_ext * path + v + 8 + n_ext * (8 + n_rows * FR) + 1 + v);
                    j2 += 1;
                }
                if actual > whole {
                    fail(ctx, &id, name, format!("N={} proof {}B is larger than the whole encoded matrix with a path per column in its largest shape ({}B): more column openings than codeword positions", n_coeffs, actual, whole));
                }
                if best == usize::MAX {
                    ctx.rep.count(&format!("{}/below-succinct-regime", name));
                    ctx.rep.case(&format!("{} N={} comm={}B proof={}B (every shape opens the whole codeword)", name, n_coeffs, c, actual), Some(format!("{}/{}", name, n_coeffs)));
                    continue;
                }
                if actual > 4 * best {
                    fail(ctx, &id, name, format!("N={} proof {}B exceeds 4 x {}B (best power-of-two shape: {} rows)", n_coeffs, actual, best, best_rows));
                }
                ctx.rep.count(&format!("{}/ratio-x10-{}", name, (actual * 10) / best.max(1)));
                ctx.rep.case(&format!("{} N={} comm={}B proof={}B best-model={}B ({} rows) ratio={:.2}", name, n_coeffs, c, actual, best, best_rows, actual as f64 / best as f64),
                    Some(format!("{}/{}", name, n_coeffs)));
            }
            None => fail(ctx, &id, name, "honest transcript failed".into()),
        }
    }
}
