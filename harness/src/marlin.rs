//! MarlinKZG10 in trapdoor mode, model-backed (Lean model: PCV/Model/Marlin.lean).
use crate::common::*;
use crate::kzg::Trap;
use crate::wire::{self, Req, Val};
use crate::Ctx;
use ark_bls12_381::{Bls12_381, Fr};
use ark_ff::{Field, UniformRand, Zero};
use ark_poly::{univariate::DensePolynomial, DenseUVPolynomial, Polynomial};
use ark_poly_commit::kzg10;
use ark_poly_commit::marlin_pc::{Commitment, CommitterKey, MarlinKZG10, Randomness, VerifierKey};
use ark_poly_commit::{
    Evaluations, LabeledCommitment, LabeledPolynomial, PolynomialCommitment, QuerySet,
};

pub type UniPoly = DensePolynomial<Fr>;
pub type PC = MarlinKZG10<Bls12_381, UniPoly>;
pub type LC = LabeledCommitment<Commitment<Bls12_381>>;
pub type LP = LabeledPolynomial<Fr, UniPoly>;
pub type Rand = Randomness<Fr, UniPoly>;

pub struct Case {
    pub trap: Trap,
    pub supported: usize,
    pub shb: usize,
    pub tbounds: Option<Vec<usize>>,
    pub ck: CommitterKey<Bls12_381>,
    pub vk: VerifierKey<Bls12_381>,
    pub polys: Vec<LP>,
    pub kinds: Vec<&'static str>,
    pub comms: Vec<LC>,
    pub rands: Vec<Rand>,
}

/// scalars (comm, shifted) of commitments
#[derive(Clone, Debug)]
pub struct CommS {
    pub label: String,
    pub c: Fr,
    pub s: Option<Fr>,
    pub bound: Option<usize>,
}

impl Case {
    pub fn desc(&self) -> String {
        format!(
            "marlin D={} s={} shb={} B={:?} polys=[{}]",
            self.trap.max_degree,
            self.supported,
            self.shb,
            self.tbounds,
            self.polys
                .iter()
                .zip(&self.kinds)
                .map(|(p, k)| format!("{}:{}:deg{}:b{:?}:h{:?}", p.label(), k, p.degree(), p.degree_bound(), p.hiding_bound()))
                .collect::<Vec<_>>()
                .join(" ")
        )
    }
    /// request prefix: universal parameters + trim arguments
    pub fn base(&self, op: &str) -> Req {
        Req::new(op)
            .arg("pg", wire::fes(&self.trap.pg()))
            .arg("pgg", wire::fes(&self.trap.pgg()))
            .arg("h", wire::fe(&self.trap.h))
            .arg("beta_h", wire::fe(&(self.trap.h * self.trap.beta)))
            .arg("supported", wire::nat(self.supported))
            .arg("shb", wire::nat(self.shb))
            .arg("tbounds", wire::opt(self.tbounds.as_ref().map(|b| wire::nats(b))))
    }
    pub fn polys_args(&self, r: Req, polys: &[LP]) -> Req {
        r.arg("labels", Val::L(polys.iter().map(|p| wire::label(p.label())).collect()))
            .arg("polys", Val::L(polys.iter().map(|p| wire::fes(&p.polynomial().coeffs)).collect()))
            .arg("bounds", Val::L(polys.iter().map(|p| wire::opt_nat(p.degree_bound())).collect()))
            .arg("hbs", Val::L(polys.iter().map(|p| wire::opt_nat(p.hiding_bound())).collect()))
    }
    pub fn rands_args(&self, r: Req, rands: &[Rand]) -> Req {
        r.arg("rands", Val::L(rands.iter().map(|x| wire::fes(&x.rand.blinding_polynomial.coeffs)).collect()))
            .arg(
                "srands",
                Val::L(rands.iter().map(|x| wire::opt(x.shifted_rand.as_ref().map(|s| wire::fes(&s.blinding_polynomial.coeffs)))).collect()),
            )
    }
    pub fn comm_scalars(&self) -> Option<Vec<CommS>> {
        let beta = self.trap.beta;
        let mut out = vec![];
        for ((p, c), r) in self.polys.iter().zip(&self.comms).zip(&self.rands) {
            let cs = self.trap.g * p.evaluate(&beta) + self.trap.gamma * r.rand.blinding_polynomial.evaluate(&beta);
            if g1(cs) != c.commitment().comm.0 {
                return None;
            }
            let s = match (p.degree_bound(), &c.commitment().shifted_comm, &r.shifted_rand) {
                (Some(d), Some(sc), Some(sr)) => {
                    let shift = beta.pow([(self.trap.max_degree - d) as u64]);
                    let ss = self.trap.g * shift * p.evaluate(&beta) + self.trap.gamma * sr.blinding_polynomial.evaluate(&beta);
                    if g1(ss) != sc.0 {
                        return None;
                    }
                    Some(ss)
                }
                (None, None, None) => None,
                _ => return None,
            };
            out.push(CommS { label: p.label().clone(), c: cs, s, bound: c.degree_bound() });
        }
        Some(out)
    }
}

pub fn comms_args(r: Req, cs: &[CommS]) -> Req {
    r.arg("clabels", Val::L(cs.iter().map(|c| wire::label(&c.label)).collect()))
        .arg("cs", wire::fes(&cs.iter().map(|c| c.c).collect::<Vec<_>>()))
        .arg("ss", Val::L(cs.iter().map(|c| wire::opt_fe(&c.s)).collect()))
        .arg("cbounds", Val::L(cs.iter().map(|c| wire::opt_nat(c.bound)).collect()))
}

pub fn comms_from(cs: &[CommS]) -> Vec<LC> {
    cs.iter()
        .map(|c| {
            LabeledCommitment::new(
                c.label.clone(),
                Commitment { comm: kzg10::Commitment(g1(c.c)), shifted_comm: c.s.map(|s| kzg10::Commitment(g1(s))) },
                c.bound,
            )
        })
        .collect()
}

/// Build a case: keys from a trapdoor, structured polynomials with bounds and hiding.
pub fn gen_case(rng: &mut Rng, max_d: usize, npoly: usize, want_bounds: bool, want_hiding: bool) -> Result<Case, String> {
    let max_degree = range(rng, 2, max_d);
    let trap = Trap::random(rng, max_degree);
    let pp = trap.params(false);
    let supported = range(rng, 1, max_degree);
    let mut polys = vec![];
    let mut kinds = vec![];
    let mut bounds: Vec<usize> = vec![];
    let mut max_h = 0;
    for i in 0..npoly {
        let (p, kind) = crate::kzg::gen_poly(rng, supported);
        let deg = p.degree();
        let bound = if want_bounds && range(rng, 0, 2) != 0 {
            // Marlin admits any enforced bound d with deg <= d <= max_degree
            let hi = if coin(rng) { supported } else { max_degree };
            let b = range(rng, deg.max(1), hi.max(deg.max(1)));
            bounds.push(b);
            Some(b)
        } else {
            None
        };
        let hiding = if want_hiding && coin(rng) {
            let h = range(rng, 0, supported);
            max_h = max_h.max(h);
            Some(h)
        } else {
            None
        };
        polys.push(LabeledPolynomial::new(format!("p{}", i), p, bound, hiding));
        kinds.push(kind);
    }
    // the bound list handed to trim: unsorted, with duplicates and extras
    let tbounds = if want_bounds && (!bounds.is_empty() || coin(rng)) {
        let mut b = bounds.clone();
        if coin(rng) && !b.is_empty() {
            b.push(b[0]);
        }
        if coin(rng) {
            b.push(range(rng, 1, max_degree));
        }
        for i in (1..b.len()).rev() {
            let j = range(rng, 0, i);
            b.swap(i, j);
        }
        Some(b)
    } else {
        None
    };
    let shb = max_h;
    let (ck, vk) = PC::trim(&pp, supported, shb, tbounds.as_deref()).map_err(|e| format!("trim: {:?}", e))?;
    let (comms, rands) = PC::commit(&ck, &polys, Some(rng)).map_err(|e| format!("commit: {:?}", e))?;
    Ok(Case { trap, supported, shb, tbounds, ck, vk, polys, kinds, comms, rands })
}

/// queue `marlin.trim` and `marlin.commit` for the case (C08/C09/C01)
pub fn ask_trim_commit(ctx: &mut Ctx, id: &str, c: &Case) {
    let shifts = c.vk.degree_bounds_and_shift_powers.clone();
    let out = ImplOutcome::Ok(vec![
        ("powers".into(), Expect::G1s(c.ck.powers.clone())),
        ("gamma".into(), Expect::G1s(c.ck.powers_of_gamma_g.clone())),
        ("max_degree".into(), Expect::Nat(c.ck.max_degree)),
        ("supported".into(), Expect::Nat(c.vk.supported_degree)),
        ("g".into(), Expect::G1(c.vk.vk.g)),
        ("gamma_g".into(), Expect::G1(c.vk.vk.gamma_g)),
        ("vh".into(), Expect::G2(c.vk.vk.h)),
        ("vbeta_h".into(), Expect::G2(c.vk.vk.beta_h)),
        ("bounds".into(), Expect::Raw(wire::opt(c.ck.enforced_degree_bounds.as_ref().map(|b| wire::nats(b))))),
        (
            "shift_bounds".into(),
            Expect::Raw(wire::opt(shifts.as_ref().map(|s| wire::nats(&s.iter().map(|x| x.0).collect::<Vec<_>>())))),
        ),
    ]);
    ctx.ses.ask(id, c.base("marlin.trim"), out);
    // shifted powers and shift powers as group elements: compared through a second request field set
    if let (Some(sp), Some(sh)) = (&c.ck.shifted_powers, &shifts) {
        ctx.ses.ask(
            id,
            c.base("marlin.trim"),
            ImplOutcome::Ok(vec![
                ("shifted".into(), ExpectOptG1s(sp.clone())),
                ("shift_powers".into(), ExpectOptG1s(sh.iter().map(|x| x.1).collect())),
            ]),
        );
    }
    // commit with the blinding coefficients as the RNG draws (plain then shifted, per polynomial)
    let mut draws: Vec<Fr> = vec![];
    for r in &c.rands {
        draws.extend(r.rand.blinding_polynomial.coeffs.iter());
        if let Some(s) = &r.shifted_rand {
            draws.extend(s.blinding_polynomial.coeffs.iter());
        }
    }
    let req = c.polys_args(c.base("marlin.commit"), &c.polys).arg("rng", wire::boolean(true)).arg("draws", wire::fes(&draws));
    let out = ImplOutcome::Ok(vec![
        ("cs".into(), Expect::G1s(c.comms.iter().map(|x| x.commitment().comm.0).collect())),
        ("ss".into(), ExpectOptG1List(c.comms.iter().map(|x| x.commitment().shifted_comm.map(|s| s.0)).collect())),
        ("rands".into(), Expect::Raw(Val::L(c.rands.iter().map(|x| wire::fes(&x.rand.blinding_polynomial.coeffs)).collect()))),
    ]);
    ctx.ses.ask(id, req, out);
}

#[allow(non_snake_case)]
fn ExpectOptG1s(v: Vec<ark_bls12_381::G1Affine>) -> Expect {
    Expect::SomeG1s(v)
}
#[allow(non_snake_case)]
fn ExpectOptG1List(v: Vec<Option<ark_bls12_381::G1Affine>>) -> Expect {
    Expect::OptG1List(v)
}

pub struct Opened {
    pub z: Fr,
    pub values: Vec<Fr>,
    pub proof: kzg10::Proof<Bls12_381>,
    pub xis: Vec<Fr>,
    pub w_s: Fr,
}

/// honest `open` of all polynomials of the case at a random point; queues `marlin.open`
pub fn open_all(ctx: &mut Ctx, rng: &mut Rng, id: &str, c: &Case) -> Result<Opened, String> {
    let z = Fr::rand(rng);
    let values: Vec<Fr> = c.polys.iter().map(|p| p.evaluate(&z)).collect();
    let mut sp = LogSponge::fresh();
    let r = guarded(|| PC::open(&c.ck, &c.polys, &c.comms, &z, &mut sp, &c.rands, Some(rng)));
    let proof = match r {
        Ok(Ok(p)) => p,
        Ok(Err(e)) => return Err(err_kind(&e)),
        Err(a) => return Err(a),
    };
    let xis = sp.challenges();
    let req = c.rands_args(c.polys_args(c.base("marlin.open"), &c.polys), &c.rands).arg("z", wire::fe(&z)).arg("xis", wire::fes(&xis));
    ctx.ses.ask(
        id,
        req,
        ImplOutcome::Ok(vec![
            ("w".into(), Expect::G1(proof.w)),
            ("rv".into(), Expect::OptFe(proof.random_v)),
            ("used".into(), Expect::Nat(xis.len())),
        ]),
    );
    // scalar of the witness, from the trapdoor (checked)
    let w_s = witness_scalar(c, &z, &xis);
    Ok(Opened { z, values, proof, xis, w_s })
}

/// W = Σ ξ_j (g w_j(β) + Γ w_{r_j}(β)) + ξ'_j (g β^{D-d_j} w_j(β) + Γ w_{rs_j}(β))
pub fn witness_scalar(c: &Case, z: &Fr, xis: &[Fr]) -> Fr {
    let beta = c.trap.beta;
    let div = UniPoly::from_coefficients_vec(vec![-*z, Fr::from(1u64)]);
    let mut k = 0;
    let mut w = Fr::zero();
    for (p, r) in c.polys.iter().zip(&c.rands) {
        if k >= xis.len() {
            break;
        }
        let xi = xis[k];
        k += 1;
        let wp = p.polynomial() / &div;
        let wr = &r.rand.blinding_polynomial / &div;
        w += xi * (c.trap.g * wp.evaluate(&beta) + c.trap.gamma * wr.evaluate(&beta));
        if let (Some(d), Some(sr)) = (p.degree_bound(), &r.shifted_rand) {
            if k >= xis.len() {
                break;
            }
            let xi2 = xis[k];
            k += 1;
            let wrs = &sr.blinding_polynomial / &div;
            let shift = beta.pow([(c.trap.max_degree - d) as u64]);
            w += xi2 * (c.trap.g * shift * wp.evaluate(&beta) + c.trap.gamma * wrs.evaluate(&beta));
        }
    }
    w
}

/// run the library verifier on a statement given in scalar form and queue `marlin.check`
pub fn check_scalar(
    ctx: &mut Ctx,
    id: &str,
    c: &Case,
    vk: &VerifierKey<Bls12_381>,
    cs: &[CommS],
    z: Fr,
    vs: &[Fr],
    w: Fr,
    rv: Option<Fr>,
) -> Outcome3 {
    let comms = comms_from(cs);
    let proof = kzg10::Proof::<Bls12_381> { w: g1(w), random_v: rv };
    let mut sp = LogSponge::fresh();
    let r = guarded(|| PC::check(vk, &comms, &z, vs.iter().cloned(), &proof, &mut sp, None));
    let xis = sp.challenges();
    let (out, o3) = match r {
        Ok(Ok(b)) => (
            ImplOutcome::Ok(vec![("b".into(), Expect::Bool(b)), ("used".into(), Expect::Nat(xis.len()))]),
            if b { Outcome3::Accept } else { Outcome3::Reject },
        ),
        Ok(Err(e)) => (ImplOutcome::Refuse(err_kind(&e)), Outcome3::Refuse),
        Err(a) => (ImplOutcome::Refuse(a), Outcome3::Refuse),
    };
    // the model needs as many challenges as the verifier would squeeze when it runs to the end
    let mut xis_full = xis.clone();
    let need: usize = cs.iter().map(|c| 1 + c.bound.is_some() as usize).sum();
    let mut extra = rng_for(0, id, 77);
    while xis_full.len() < need {
        xis_full.push(Fr::rand(&mut extra));
    }
    let req = comms_args(c.base("marlin.check"), cs)
        .arg("z", wire::fe(&z))
        .arg("vs", wire::fes(vs))
        .arg("w", wire::fe(&w))
        .arg("rv", wire::opt_fe(&rv))
        .arg("xis", wire::fes(&xis_full));
    ctx.ses.ask(id, req, out);
    o3
}

#[derive(Clone, Copy, Debug, PartialEq, Eq)]
pub enum Outcome3 {
    Accept,
    Reject,
    Refuse,
}

/// a query set over the case's polynomials; returns (query set, evaluations)
pub fn gen_queries(rng: &mut Rng, c: &Case, nlabels: usize) -> (QuerySet<Fr>, Evaluations<Fr, Fr>) {
    let mut qs = QuerySet::new();
    let mut ev = Evaluations::new();
    let mut pts: Vec<Fr> = vec![];
    for l in 0..nlabels {
        let pt = if l > 0 && coin(rng) { pts[range(rng, 0, pts.len() - 1)] } else { Fr::rand(rng) };
        pts.push(pt);
        let mut any = false;
        for (i, p) in c.polys.iter().enumerate() {
            if coin(rng) || (!any && i + 1 == c.polys.len()) {
                any = true;
                qs.insert((p.label().clone(), (format!("pt{}", l), pt)));
                ev.insert((p.label().clone(), pt), p.evaluate(&pt));
            }
        }
    }
    (qs, ev)
}

pub fn queries_args(r: Req, qs: &QuerySet<Fr>) -> Req {
    r.arg("qlabels", Val::L(qs.iter().map(|q| wire::label(&q.0)).collect()))
        .arg("qplabels", Val::L(qs.iter().map(|q| wire::label(&(q.1).0)).collect()))
        .arg("qpoints", wire::fes(&qs.iter().map(|q| (q.1).1).collect::<Vec<_>>()))
}
pub fn evals_args(r: Req, ev: &Evaluations<Fr, Fr>) -> Req {
    r.arg("elabels", Val::L(ev.keys().map(|k| wire::label(&k.0)).collect()))
        .arg("epoints", wire::fes(&ev.keys().map(|k| k.1).collect::<Vec<_>>()))
        .arg("evals", wire::fes(&ev.values().cloned().collect::<Vec<_>>()))
}

/// honest batch_open; queues `marlin.batch_open`; returns proofs and the scalars of the witnesses
pub fn batch_open(ctx: &mut Ctx, rng: &mut Rng, id: &str, c: &Case, qs: &QuerySet<Fr>) -> Result<(Vec<kzg10::Proof<Bls12_381>>, Vec<Fr>), String> {
    let mut sp = LogSponge::fresh();
    let r = guarded(|| PC::batch_open(&c.ck, &c.polys, &c.comms, qs, &mut sp, &c.rands, Some(rng)));
    let proofs = match r {
        Ok(Ok(p)) => p,
        Ok(Err(e)) => return Err(err_kind(&e)),
        Err(a) => return Err(a),
    };
    let xis = sp.challenges();
    let req = queries_args(c.rands_args(c.polys_args(c.base("marlin.batch_open"), &c.polys), &c.rands), qs).arg("xis", wire::fes(&xis));
    ctx.ses.ask(
        id,
        req,
        ImplOutcome::Ok(vec![
            ("ws".into(), Expect::G1s(proofs.iter().map(|p| p.w).collect())),
            ("rvs".into(), Expect::Raw(Val::L(proofs.iter().map(|p| wire::opt_fe(&p.random_v)).collect()))),
            ("used".into(), Expect::Nat(xis.len())),
        ]),
    );
    let ws = group_witness_scalars(c, qs, &xis);
    Ok((proofs, ws))
}

/// run `batch_check` on a statement in scalar form and queue `marlin.batch_check`
pub fn batch_check_scalar(
    ctx: &mut Ctx,
    rng: &mut Rng,
    id: &str,
    c: &Case,
    cs: &[CommS],
    qs: &QuerySet<Fr>,
    ev: &Evaluations<Fr, Fr>,
    ws: &[Fr],
    rvs: &[Option<Fr>],
) -> Outcome3 {
    let comms = comms_from(cs);
    let proofs: Vec<kzg10::Proof<Bls12_381>> = ws.iter().zip(rvs).map(|(w, rv)| kzg10::Proof { w: g1(*w), random_v: *rv }).collect();
    let rs = crate::kzg::replay_u128(rng, proofs.len().max(crate::generic::group(qs).len()) + 1);
    let mut sp = LogSponge::fresh();
    let r = guarded(|| PC::batch_check(&c.vk, &comms, qs, ev, &proofs, &mut sp, rng));
    let xis = sp.challenges();
    let (out, o3) = match r {
        Ok(Ok(b)) => (ImplOutcome::Ok(vec![("b".into(), Expect::Bool(b))]), if b { Outcome3::Accept } else { Outcome3::Reject }),
        Ok(Err(e)) => (ImplOutcome::Refuse(err_kind(&e)), Outcome3::Refuse),
        Err(a) => (ImplOutcome::Refuse(a), Outcome3::Refuse),
    };
    let mut xis_full = xis.clone();
    let mut extra = rng_for(1, id, 78);
    while xis_full.len() < 2 * qs.len() + 2 {
        xis_full.push(Fr::rand(&mut extra));
    }
    let req = evals_args(queries_args(comms_args(c.base("marlin.batch_check"), cs), qs), ev)
        .arg("ws", wire::fes(ws))
        .arg("rvs", Val::L(rvs.iter().map(|x| wire::opt_fe(x)).collect()))
        .arg("xis", wire::fes(&xis_full))
        .arg("rs", wire::fes(&rs));
    ctx.ses.ask(id, req, out);
    o3
}

/// witness scalars of a batch opening, one per point label, computed from the trapdoor
pub fn group_witness_scalars(c: &Case, qs: &QuerySet<Fr>, xis: &[Fr]) -> Vec<Fr> {
    let mut ws = vec![];
    let mut k = 0;
    for (_, pt, labels) in crate::generic::group(qs) {
        let sub: Vec<usize> = labels.iter().filter_map(|l| c.polys.iter().position(|p| p.label() == l)).collect();
        let subcase_polys: Vec<LP> = sub.iter().map(|&i| c.polys[i].clone()).collect();
        let subcase_rands: Vec<Rand> = sub.iter().map(|&i| c.rands[i].clone()).collect();
        let need: usize = subcase_polys.iter().map(|p| 1 + p.degree_bound().is_some() as usize).sum();
        let tmp = Case {
            trap: c.trap.clone(),
            supported: c.supported,
            shb: c.shb,
            tbounds: c.tbounds.clone(),
            ck: c.ck.clone(),
            vk: c.vk.clone(),
            polys: subcase_polys,
            kinds: vec![],
            comms: vec![],
            rands: subcase_rands,
        };
        if k + need > xis.len() {
            break;
        }
        ws.push(witness_scalar(&tmp, &pt, &xis[k..k + need]));
        k += need;
    }
    ws
}

/// the case whose "polynomials" are the given linear combinations of the case's polynomials
/// (as `Marlin::open_combinations` forms them): used to compute witness scalars of combination proofs
pub fn lc_case(c: &Case, lcs: &[ark_poly_commit::LinearCombination<Fr>]) -> Option<Case> {
    use ark_poly_commit::{LCTerm, PCCommitmentState};
    let mut polys = vec![];
    let mut rands = vec![];
    for lc in lcs {
        let mut poly = UniPoly::from_coefficients_vec(vec![]);
        let mut rand = Rand::empty();
        let mut bound = None;
        for (coeff, t) in lc.iter() {
            if let LCTerm::PolyLabel(l) = t {
                let i = c.polys.iter().position(|p| p.label() == l)?;
                if lc.len() == 1 && c.polys[i].degree_bound().is_some() {
                    bound = c.polys[i].degree_bound();
                }
                poly += (*coeff, c.polys[i].polynomial());
                rand += (*coeff, &c.rands[i]);
            }
        }
        polys.push(LabeledPolynomial::new(lc.label().clone(), poly, bound, None));
        rands.push(rand);
    }
    Some(Case { trap: c.trap.clone(), supported: c.supported, shb: c.shb, tbounds: c.tbounds.clone(), ck: c.ck.clone(), vk: c.vk.clone(), polys, kinds: vec![], comms: vec![], rands })
}
