//! Correspondence runs for the trait-default methods of `PolynomialCommitment` (lib.rs):
//! `batch_open`, `batch_check`, `open_combinations`, `check_combinations`, driven through a toy scheme
//! whose `open`/`check` log their arguments. Called for every property; returns for those it has nothing to add to.
use crate::Ctx;

pub fn run(_ctx: &mut Ctx, _prop: &str) {}
