//! Correspondence runs for the trait-default methods of `PolynomialCommitment` (lib.rs):
//! `batch_open`, `batch_check`, `open_combinations`, `check_combinations`, driven through a toy scheme
//! whose `open`/`check` log their arguments. Called for every property; returns for those it has nothing to add to.
//!
//! `ToyPC` implements the trait with logging `open`/`check` only; the four default methods that run are
//! the LIBRARY's. Each run is compared with the Lean model `PCV.TraitDefault` instantiated with the same
//! toy (`Model/DrvDefault.lean`): result (exact error kind included), produced proofs / evaluations and
//! the full call log. Case ids: `Cxx/default/<family>/<n>`.
use crate::common::*;
use crate::wire::{self, Req, Val};
use crate::Ctx;
use ark_bls12_381::Fr;
use ark_crypto_primitives::sponge::CryptographicSponge;
use ark_ff::{One, UniformRand, Zero};
use ark_poly::{univariate::DensePolynomial, DenseUVPolynomial, Polynomial};
use ark_poly_commit::{
    BatchLCProof, Error, Evaluations, LCTerm, LabeledCommitment, LabeledPolynomial, LinearCombination,
    PCCommitment, PCCommitmentState, PCCommitterKey, PCUniversalParams, PCVerifierKey,
    PolynomialCommitment, QuerySet,
};
use ark_serialize::{CanonicalDeserialize, CanonicalSerialize};
use ark_std::rand::RngCore;
use std::cell::RefCell;
use std::collections::{BTreeMap, BTreeSet};

type UniPoly = DensePolynomial<Fr>;
type LP = LabeledPolynomial<Fr, UniPoly>;
type LCm = LabeledCommitment<ToyComm>;
type Q = (String, (String, Fr));
type LinComb = LinearCombination<Fr>;

// ------------------------------------------------------------------------------------------------
// the toy scheme
// ------------------------------------------------------------------------------------------------

#[derive(Clone, Debug, Default, CanonicalSerialize, CanonicalDeserialize)]
pub struct ToyKey {
    pub max: u64,
}
impl PCUniversalParams for ToyKey {
    fn max_degree(&self) -> usize {
        self.max as usize
    }
}
impl PCCommitterKey for ToyKey {
    fn max_degree(&self) -> usize {
        self.max as usize
    }
    fn supported_degree(&self) -> usize {
        self.max as usize
    }
}
impl PCVerifierKey for ToyKey {
    fn max_degree(&self) -> usize {
        self.max as usize
    }
    fn supported_degree(&self) -> usize {
        self.max as usize
    }
}

/// the "commitment" stores the coefficients and an id that tells two commitments with one label apart
#[derive(Clone, Debug, Default, CanonicalSerialize, CanonicalDeserialize)]
pub struct ToyComm {
    pub id: u64,
    pub coeffs: Vec<Fr>,
}
impl PCCommitment for ToyComm {
    fn empty() -> Self {
        ToyComm::default()
    }
    fn has_degree_bound(&self) -> bool {
        false
    }
}

#[derive(Clone, Debug, Default, CanonicalSerialize, CanonicalDeserialize)]
pub struct ToyState {
    pub id: u64,
}
impl PCCommitmentState for ToyState {
    type Randomness = u64;
    fn empty() -> Self {
        ToyState::default()
    }
    fn rand<R: RngCore>(_: usize, _: bool, _: Option<usize>, rng: &mut R) -> u64 {
        rng.next_u64()
    }
}

#[derive(Clone, Debug, Default, PartialEq, CanonicalSerialize, CanonicalDeserialize)]
pub struct ToyProof {
    pub tag: u64,
    pub chal: Fr,
}

struct ToyTL {
    n: usize,
    log: Vec<Val>,
    script: Vec<usize>,
}
thread_local! {
    static TL: RefCell<ToyTL> = RefCell::new(ToyTL { n: 0, log: vec![], script: vec![] });
}
fn tl_reset(script: &[usize]) {
    TL.with(|t| {
        let mut t = t.borrow_mut();
        t.n = 0;
        t.log.clear();
        t.script = script.to_vec();
    })
}
fn tl_log() -> Vec<Val> {
    TL.with(|t| t.borrow().log.clone())
}
/// (call index, scripted code) of the call that starts now
fn tl_next() -> (usize, usize) {
    TL.with(|t| {
        let t = t.borrow();
        (t.n, t.script.get(t.n).copied().unwrap_or(1))
    })
}
fn tl_push(entry: Val) {
    TL.with(|t| {
        let mut t = t.borrow_mut();
        t.n += 1;
        t.log.push(entry);
    })
}
fn scripted_refusal(code: usize) -> Error {
    match code {
        4 => Error::IncorrectInputLength("scripted".to_string()),
        5 => Error::InvalidCommitment,
        _ => panic!("scripted abort"),
    }
}
fn labels_val<'a>(ls: impl IntoIterator<Item = &'a String>) -> Val {
    Val::L(ls.into_iter().map(|l| wire::label(l)).collect())
}
/// what both sides absorb before squeezing their challenge: commitment labels and point
fn marker(comms: &[&LCm], point: &Fr) -> Vec<u8> {
    let mut m = b"toy".to_vec();
    for c in comms {
        m.extend_from_slice(c.label().as_bytes());
        m.push(0xff);
    }
    point.serialize_compressed(&mut m).unwrap();
    m
}

pub struct ToyPC;

impl PolynomialCommitment<Fr, UniPoly> for ToyPC {
    type UniversalParams = ToyKey;
    type CommitterKey = ToyKey;
    type VerifierKey = ToyKey;
    type Commitment = ToyComm;
    type CommitmentState = ToyState;
    type Proof = ToyProof;
    type BatchProof = Vec<ToyProof>;
    type Error = Error;

    fn setup<R: RngCore>(max_degree: usize, _: Option<usize>, _: &mut R) -> Result<ToyKey, Error> {
        Ok(ToyKey { max: max_degree as u64 })
    }
    fn trim(pp: &ToyKey, _: usize, _: usize, _: Option<&[usize]>) -> Result<(ToyKey, ToyKey), Error> {
        Ok((pp.clone(), pp.clone()))
    }
    fn commit<'a>(
        _ck: &ToyKey,
        polynomials: impl IntoIterator<Item = &'a LP>,
        _rng: Option<&mut dyn RngCore>,
    ) -> Result<(Vec<LCm>, Vec<ToyState>), Error>
    where
        UniPoly: 'a,
    {
        let mut cs = vec![];
        let mut ss = vec![];
        for (i, p) in polynomials.into_iter().enumerate() {
            cs.push(LabeledCommitment::new(
                p.label().clone(),
                ToyComm { id: i as u64, coeffs: p.polynomial().coeffs().to_vec() },
                None,
            ));
            ss.push(ToyState { id: i as u64 });
        }
        Ok((cs, ss))
    }
    fn open<'a>(
        _ck: &ToyKey,
        labeled_polynomials: impl IntoIterator<Item = &'a LP>,
        commitments: impl IntoIterator<Item = &'a LCm>,
        point: &'a Fr,
        sponge: &mut impl CryptographicSponge,
        states: impl IntoIterator<Item = &'a ToyState>,
        _rng: Option<&mut dyn RngCore>,
    ) -> Result<ToyProof, Error>
    where
        UniPoly: 'a,
        ToyState: 'a,
        ToyComm: 'a,
    {
        let (n, code) = tl_next();
        if code != 1 {
            return Err(scripted_refusal(code));
        }
        let polys: Vec<&LP> = labeled_polynomials.into_iter().collect();
        let comms: Vec<&LCm> = commitments.into_iter().collect();
        let sts: Vec<&ToyState> = states.into_iter().collect();
        sponge.absorb(&marker(&comms, point));
        let chal: Fr = sponge.squeeze_field_elements::<Fr>(1)[0];
        tl_push(Val::L(vec![
            labels_val(polys.iter().map(|p| p.label())),
            wire::nats(&sts.iter().map(|s| s.id as usize).collect::<Vec<_>>()),
            labels_val(comms.iter().map(|c| c.label())),
            wire::nats(&comms.iter().map(|c| c.commitment().id as usize).collect::<Vec<_>>()),
            wire::fe(point),
        ]));
        Ok(ToyProof { tag: n as u64, chal })
    }
    fn check<'a>(
        _vk: &ToyKey,
        commitments: impl IntoIterator<Item = &'a LCm>,
        point: &'a Fr,
        values: impl IntoIterator<Item = Fr>,
        proof: &ToyProof,
        sponge: &mut impl CryptographicSponge,
        _rng: Option<&mut dyn RngCore>,
    ) -> Result<bool, Error>
    where
        ToyComm: 'a,
    {
        let (_, code) = tl_next();
        if code != 0 && code != 1 && code != 6 {
            return Err(scripted_refusal(code));
        }
        let comms: Vec<&LCm> = commitments.into_iter().collect();
        let values: Vec<Fr> = values.into_iter().collect();
        sponge.absorb(&marker(&comms, point));
        let chal: Fr = sponge.squeeze_field_elements::<Fr>(1)[0];
        let agree = chal == proof.chal;
        tl_push(Val::L(vec![
            labels_val(comms.iter().map(|c| c.label())),
            wire::nats(&comms.iter().map(|c| c.commitment().id as usize).collect::<Vec<_>>()),
            wire::fe(point),
            wire::fes(&values),
            wire::nat(proof.tag as usize),
            wire::fe(&proof.chal),
            wire::boolean(agree),
        ]));
        Ok(match code {
            0 => false,
            6 => true,
            _ => agree,
        })
    }
}

// ------------------------------------------------------------------------------------------------
// outcomes, encoders
// ------------------------------------------------------------------------------------------------

#[derive(Clone, Debug, PartialEq)]
pub enum Out {
    B(bool),
    /// refusal with its kind: 2 MissingPolynomial, 3 MissingEvaluation, 4/5 scripted, 9 panic
    E(usize),
}
impl Out {
    fn val(&self) -> Val {
        match self {
            Out::B(b) => wire::boolean(*b),
            Out::E(c) => Val::L(vec![wire::nat(*c)]),
        }
    }
    fn accepted(&self) -> bool {
        *self == Out::B(true)
    }
}
fn ecode(e: &Error) -> usize {
    match e {
        Error::MissingPolynomial { .. } => 2,
        Error::MissingEvaluation { .. } => 3,
        Error::IncorrectInputLength(_) => 4,
        Error::InvalidCommitment => 5,
        _ => 99,
    }
}
fn classify<T>(r: Result<Result<T, Error>, String>) -> Result<T, usize> {
    match r {
        Ok(Ok(x)) => Ok(x),
        Ok(Err(e)) => Err(ecode(&e)),
        Err(_) => Err(9),
    }
}
fn out_of(r: Result<bool, usize>) -> Out {
    match r {
        Ok(b) => Out::B(b),
        Err(c) => Out::E(c),
    }
}

fn v_queries(qs: &[Q]) -> Val {
    Val::L(
        qs.iter()
            .map(|(l, (pl, z))| Val::L(vec![wire::label(l), wire::label(pl), wire::fe(z)]))
            .collect(),
    )
}
fn v_evals(ev: &Evaluations<Fr, Fr>) -> Val {
    Val::L(
        ev.iter()
            .map(|((l, z), v)| Val::L(vec![wire::label(l), wire::fe(z), wire::fe(v)]))
            .collect(),
    )
}
fn v_proofs(ps: &[ToyProof]) -> Val {
    Val::L(ps.iter().map(|p| Val::L(vec![wire::nat(p.tag as usize), wire::fe(&p.chal)])).collect())
}
fn v_lcs(lcs: &[LinComb]) -> Val {
    Val::L(
        lcs.iter()
            .map(|lc| {
                Val::L(vec![
                    wire::label(lc.label()),
                    Val::L(
                        lc.iter()
                            .map(|(c, t)| {
                                Val::L(vec![
                                    wire::fe(c),
                                    match t {
                                        LCTerm::One => Val::None,
                                        LCTerm::PolyLabel(l) => wire::opt(Some(wire::label(l))),
                                    },
                                ])
                            })
                            .collect(),
                    ),
                ])
            })
            .collect(),
    )
}
fn req_polys(r: Req, polys: &[LP], sts: &[ToyState]) -> Req {
    r.arg("plabels", labels_val(polys.iter().map(|p| p.label())))
        .arg("pcoeffs", wire::fess(&polys.iter().map(|p| p.polynomial().coeffs().to_vec()).collect::<Vec<_>>()))
        .arg("sts", wire::nats(&sts.iter().map(|s| s.id as usize).collect::<Vec<_>>()))
}
fn req_comms(r: Req, comms: &[LCm]) -> Req {
    r.arg("clabels", labels_val(comms.iter().map(|c| c.label())))
        .arg("cids", wire::nats(&comms.iter().map(|c| c.commitment().id as usize).collect::<Vec<_>>()))
}

// ------------------------------------------------------------------------------------------------
// running the LIBRARY's default methods on the toy, and asking the model the same question
// ------------------------------------------------------------------------------------------------

fn key() -> ToyKey {
    ToyKey { max: 64 }
}

/// what one prover-side run produced
pub struct OpenRun {
    pub res: Result<Vec<ToyProof>, usize>,
    pub evals: Option<Vec<Fr>>,
    pub log: Vec<Val>,
    pub chals: Vec<Fr>,
}
/// what one verifier-side run produced
pub struct CheckRun {
    pub out: Out,
    pub log: Vec<Val>,
    pub chals: Vec<Fr>,
}

fn lib_batch_open(polys: &[LP], sts: &[ToyState], comms: &[LCm], qs: &QuerySet<Fr>, script: &[usize], sp: &mut LogSponge) -> OpenRun {
    tl_reset(script);
    let before = sp.challenges().len();
    let mut rng = rng_for(7, "default/rng", 0);
    let r = guarded(|| {
        ToyPC::batch_open(&key(), polys.iter(), comms.iter(), qs, sp, sts.iter(), Some(&mut rng as &mut dyn RngCore))
    });
    OpenRun { res: classify(r), evals: None, log: tl_log(), chals: sp.challenges()[before..].to_vec() }
}

fn lib_batch_check(comms: &[LCm], qs: &QuerySet<Fr>, evals: &Evaluations<Fr, Fr>, proofs: &Vec<ToyProof>, script: &[usize], sp: &mut LogSponge) -> CheckRun {
    tl_reset(script);
    let before = sp.challenges().len();
    let mut rng = rng_for(7, "default/rng", 1);
    let r = guarded(|| ToyPC::batch_check(&key(), comms.iter(), qs, evals, proofs, sp, &mut rng));
    CheckRun { out: out_of(classify(r)), log: tl_log(), chals: sp.challenges()[before..].to_vec() }
}

fn lib_open_combinations(lcs: &[LinComb], polys: &[LP], sts: &[ToyState], comms: &[LCm], qs: &QuerySet<Fr>, script: &[usize], sp: &mut LogSponge) -> OpenRun {
    tl_reset(script);
    let before = sp.challenges().len();
    let mut rng = rng_for(7, "default/rng", 2);
    let r = guarded(|| {
        ToyPC::open_combinations(&key(), lcs.iter(), polys.iter(), comms.iter(), qs, sp, sts.iter(), Some(&mut rng as &mut dyn RngCore))
    });
    match classify(r) {
        Ok(p) => OpenRun { res: Ok(p.proof), evals: p.evals, log: tl_log(), chals: sp.challenges()[before..].to_vec() },
        Err(c) => OpenRun { res: Err(c), evals: None, log: tl_log(), chals: sp.challenges()[before..].to_vec() },
    }
}

fn lib_check_combinations(lcs: &[LinComb], comms: &[LCm], qs: &QuerySet<Fr>, eq_evals: &Evaluations<Fr, Fr>, proofs: &Vec<ToyProof>, pevals: &Option<Vec<Fr>>, script: &[usize], sp: &mut LogSponge) -> CheckRun {
    tl_reset(script);
    let before = sp.challenges().len();
    let mut rng = rng_for(7, "default/rng", 3);
    let proof = BatchLCProof { proof: proofs.clone(), evals: pevals.clone() };
    let r = guarded(|| ToyPC::check_combinations(&key(), lcs.iter(), comms.iter(), qs, eq_evals, &proof, sp, &mut rng));
    CheckRun { out: out_of(classify(r)), log: tl_log(), chals: sp.challenges()[before..].to_vec() }
}

fn expect_open(run: &OpenRun, with_evals: bool) -> ImplOutcome {
    match &run.res {
        Ok(ps) => {
            let mut f = vec![
                ("res".to_string(), Expect::Raw(wire::nat(1))),
                ("proofs".to_string(), Expect::Raw(v_proofs(ps))),
                ("log".to_string(), Expect::Raw(Val::L(run.log.clone()))),
            ];
            if with_evals {
                f.push(("evals".to_string(), Expect::Raw(wire::opt(run.evals.as_ref().map(|e| wire::fes(e))))));
            }
            ImplOutcome::Ok(f)
        }
        Err(c) => ImplOutcome::Ok(vec![("res".to_string(), Expect::Raw(Val::L(vec![wire::nat(*c)])))]),
    }
}
fn expect_check(run: &CheckRun) -> ImplOutcome {
    match &run.out {
        Out::B(_) => ImplOutcome::Ok(vec![
            ("res".to_string(), Expect::Raw(run.out.val())),
            ("log".to_string(), Expect::Raw(Val::L(run.log.clone()))),
        ]),
        Out::E(_) => ImplOutcome::Ok(vec![("res".to_string(), Expect::Raw(run.out.val()))]),
    }
}

/// `qlist`: the queries as the caller lists them (any order, duplicates allowed); the library gets the set
fn ask_batch_open(ctx: &mut Ctx, id: &str, polys: &[LP], sts: &[ToyState], comms: &[LCm], qlist: &[Q], script: &[usize], run: &OpenRun) {
    let r = req_comms(req_polys(Req::new("dflt.batch_open"), polys, sts), comms)
        .arg("qs", v_queries(qlist))
        .arg("script", wire::nats(script))
        .arg("chals", wire::fes(&run.chals));
    ctx.ses.ask(id, r, expect_open(run, false));
}
fn ask_batch_check(ctx: &mut Ctx, id: &str, comms: &[LCm], qlist: &[Q], evals: &Evaluations<Fr, Fr>, proofs: &[ToyProof], script: &[usize], run: &CheckRun) {
    let r = req_comms(Req::new("dflt.batch_check"), comms)
        .arg("qs", v_queries(qlist))
        .arg("evals", v_evals(evals))
        .arg("proofs", v_proofs(proofs))
        .arg("script", wire::nats(script))
        .arg("chals", wire::fes(&run.chals));
    ctx.ses.ask(id, r, expect_check(run));
}
fn ask_open_combinations(ctx: &mut Ctx, id: &str, lcs: &[LinComb], polys: &[LP], sts: &[ToyState], comms: &[LCm], qlist: &[Q], script: &[usize], run: &OpenRun) {
    let r = req_comms(req_polys(Req::new("dflt.open_combinations").arg("lcs", v_lcs(lcs)), polys, sts), comms)
        .arg("qs", v_queries(qlist))
        .arg("script", wire::nats(script))
        .arg("chals", wire::fes(&run.chals));
    ctx.ses.ask(id, r, expect_open(run, true));
}
fn ask_check_combinations(ctx: &mut Ctx, id: &str, lcs: &[LinComb], comms: &[LCm], qlist: &[Q], eq_evals: &Evaluations<Fr, Fr>, proofs: &[ToyProof], pevals: &Option<Vec<Fr>>, script: &[usize], run: &CheckRun) {
    let r = req_comms(Req::new("dflt.check_combinations").arg("lcs", v_lcs(lcs)), comms)
        .arg("qs", v_queries(qlist))
        .arg("evals", v_evals(eq_evals))
        .arg("proofs", v_proofs(proofs))
        .arg("pevals", wire::opt(pevals.as_ref().map(|e| wire::fes(e))))
        .arg("script", wire::nats(script))
        .arg("chals", wire::fes(&run.chals));
    ctx.ses.ask(id, r, expect_check(run));
}

// ------------------------------------------------------------------------------------------------
// generators
// ------------------------------------------------------------------------------------------------

const POLY_LABELS: [&str; 10] = ["a", "ab", "b", "B", "a0", "p10", "p9", "", "zeta", "\u{e9}"];
const POINT_LABELS: [&str; 8] = ["z", "z1", "z10", "z2", "", "beta", "a", "Z"];
const LC_LABELS: [&str; 6] = ["eq", "eq1", "eq10", "eq2", "E", "a"];

fn shuffle<T>(rng: &mut Rng, v: &mut Vec<T>) {
    for i in (1..v.len()).rev() {
        let j = range(rng, 0, i);
        v.swap(i, j);
    }
}
fn pick_distinct(rng: &mut Rng, pool: &[&str], n: usize) -> Vec<String> {
    let mut v: Vec<String> = pool.iter().map(|s| s.to_string()).collect();
    shuffle(rng, &mut v);
    v.truncate(n);
    v
}
fn small_or_random(rng: &mut Rng) -> Fr {
    match range(rng, 0, 3) {
        0 => Fr::from(range(rng, 0, 3) as u64),
        1 => -Fr::from(range(rng, 1, 3) as u64),
        _ => Fr::rand(rng),
    }
}

#[derive(Clone)]
pub struct World {
    pub polys: Vec<LP>,
    pub sts: Vec<ToyState>,
    pub comms: Vec<LCm>,
}
impl World {
    fn poly(&self, l: &str) -> Option<&LP> {
        self.polys.iter().rev().find(|p| p.label() == l)
    }
    /// a consistent permutation of the prover's three lists
    fn permuted(&self, rng: &mut Rng) -> World {
        let mut idx: Vec<usize> = (0..self.polys.len()).collect();
        shuffle(rng, &mut idx);
        World {
            polys: idx.iter().map(|&i| self.polys[i].clone()).collect(),
            sts: idx.iter().map(|&i| self.sts[i].clone()).collect(),
            comms: idx.iter().map(|&i| self.comms[i].clone()).collect(),
        }
    }
}
fn gen_world(rng: &mut Rng, n: usize) -> World {
    let labels = pick_distinct(rng, &POLY_LABELS, n);
    let mut w = World { polys: vec![], sts: vec![], comms: vec![] };
    for (i, l) in labels.iter().enumerate() {
        let deg = range(rng, 0, 4);
        let mut coeffs: Vec<Fr> = (0..=deg).map(|_| small_or_random(rng)).collect();
        if i % 5 == 4 {
            coeffs = vec![];
        }
        let p = UniPoly::from_coefficients_vec(coeffs);
        let id = (10 + 7 * i + range(rng, 0, 5)) as u64;
        w.comms.push(LabeledCommitment::new(l.clone(), ToyComm { id, coeffs: p.coeffs().to_vec() }, None));
        w.sts.push(ToyState { id: id + 100 });
        w.polys.push(LabeledPolynomial::new(l.clone(), p, None, None));
    }
    w
}

/// `k` point labels with their points (some sharing a value), and for each a non-empty set of `labels`
fn gen_queries(rng: &mut Rng, labels: &[String], k: usize) -> Vec<Q> {
    let pls = pick_distinct(rng, &POINT_LABELS, k);
    let mut pts: Vec<Fr> = vec![];
    for i in 0..k {
        let z = if i > 0 && range(rng, 0, 2) == 0 { pts[range(rng, 0, i - 1)] } else { small_or_random(rng) };
        pts.push(z);
    }
    let mut qs = vec![];
    for (pl, z) in pls.iter().zip(pts.iter()) {
        let mut ls: Vec<String> = labels.to_vec();
        shuffle(rng, &mut ls);
        let m = range(rng, 1, ls.len());
        for l in ls.into_iter().take(m) {
            qs.push((l, (pl.clone(), *z)));
        }
    }
    // the first label is queried at every point label (one polynomial at several points)
    if coin(rng) {
        for (pl, z) in pls.iter().zip(pts.iter()) {
            qs.push((labels[0].clone(), (pl.clone(), *z)));
        }
    }
    qs
}
/// the caller's list: shuffled, with some queries listed twice
fn listed(rng: &mut Rng, qs: &[Q]) -> Vec<Q> {
    let mut v = qs.to_vec();
    let n = v.len();
    for _ in 0..range(rng, 0, 2) {
        v.push(qs[range(rng, 0, n - 1)].clone());
    }
    shuffle(rng, &mut v);
    v
}
fn set_of(qs: &[Q]) -> QuerySet<Fr> {
    qs.iter().cloned().collect()
}
fn true_evals(w: &World, qs: &[Q]) -> Evaluations<Fr, Fr> {
    let mut ev = Evaluations::new();
    for (l, (_, z)) in qs {
        if let Some(p) = w.poly(l) {
            ev.insert((l.clone(), *z), p.polynomial().evaluate(z));
        }
    }
    ev
}
/// the harness's own grouping: point label -> (first point in set order, sorted label set)
fn ref_groups(qs: &QuerySet<Fr>) -> Vec<(String, Fr, Vec<String>)> {
    let mut m: BTreeMap<String, (Fr, BTreeSet<String>)> = BTreeMap::new();
    for (l, (pl, z)) in qs.iter() {
        m.entry(pl.clone()).or_insert((*z, BTreeSet::new())).1.insert(l.clone());
    }
    m.into_iter().map(|(pl, (z, ls))| (pl, z, ls.into_iter().collect())).collect()
}

/// the decision the property attaches to a batch: every per-group `check` on its own, in group order on
/// the same sponge; the first refusal is the refusal of the batch, otherwise the conjunction
fn ref_batch_decision(comms: &[LCm], qs: &QuerySet<Fr>, evals: &Evaluations<Fr, Fr>, proofs: &[ToyProof], script: &[usize], sp0: &LogSponge) -> Out {
    let groups = ref_groups(qs);
    if proofs.len() != groups.len() {
        return Out::E(9);
    }
    let mut by_label: BTreeMap<String, &LCm> = BTreeMap::new();
    for c in comms {
        by_label.insert(c.label().clone(), c);
    }
    tl_reset(script);
    let mut sp = sp0.clone();
    let mut all = true;
    for ((_, z, ls), proof) in groups.iter().zip(proofs.iter()) {
        let mut cs = vec![];
        let mut vs = vec![];
        for l in ls {
            match by_label.get(l) {
                None => return Out::E(2),
                Some(c) => cs.push(*c),
            }
            match evals.get(&(l.clone(), *z)) {
                None => return Out::E(3),
                Some(v) => vs.push(*v),
            }
        }
        let r = guarded(|| ToyPC::check(&key(), cs.iter().copied(), z, vs.clone(), proof, &mut sp, None));
        match classify(r) {
            Ok(b) => all &= b,
            Err(c) => return Out::E(c),
        }
    }
    Out::B(all)
}

// ------------------------------------------------------------------------------------------------
// entry
// ------------------------------------------------------------------------------------------------

pub fn run(ctx: &mut Ctx, prop: &str) {
    match prop {
        "C01" => c01(ctx),
        "C02" => c02(ctx),
        "C05" => c05(ctx),
        "C06" => c06(ctx),
        "C10" => c10(ctx),
        "C11" => c11(ctx),
        _ => return,
    }
    ctx.flush_model(&format!("{}-default", prop));
}

fn replay_text(id: &str, seed: u64, what: &str) -> String {
    format!(
        "# scheme: trait-default methods on ToyPC (harness/src/props_default.rs)\n# case: {}\n# seed: {}\n# {}\n# rerun: /verif/.build/cargo/debug/pcv-harness {} --seed {} --only {}\n",
        id,
        seed,
        what,
        id.split('/').next().unwrap_or(""),
        seed,
        id
    )
}
fn fail(ctx: &mut Ctx, id: &str, sig: &str, what: &str) {
    let txt = replay_text(id, ctx.seed, what);
    ctx.rep.expect_fail(id, &format!("default/{}", sig), what, txt);
}
fn shape_key(fam: &str, npoly: usize, qs: &QuerySet<Fr>) -> String {
    let g = ref_groups(qs);
    let shared = {
        let pts: BTreeSet<Fr> = g.iter().map(|x| x.1).collect();
        pts.len() < g.len()
    };
    format!("default/{}/p{}/g{}/q{}/shared{}", fam, npoly, g.len(), qs.len(), shared as usize)
}

// ------------------------------------------------------------------------------------------------
// C01 — honest batches are accepted whatever the order of the lists (and with repeated queries)
// ------------------------------------------------------------------------------------------------

fn c01(ctx: &mut Ctx) {
    let n = ctx.n(40, 400);
    for i in 0..n {
        let id = format!("C01/default/order/{}", i);
        if !ctx.selected(&id) {
            continue;
        }
        let mut rng = rng_for(ctx.seed, "C01/default/order", i as u64);
        let npoly = 1 + i % 5;
        let w = gen_world(&mut rng, npoly);
        let labels: Vec<String> = w.polys.iter().map(|p| p.label().clone()).collect();
        let k = 1 + (i / 5) % 4;
        let qs = gen_queries(&mut rng, &labels, k);
        let qset = set_of(&qs);
        let evals = true_evals(&w, &qs);
        let sp0 = {
            let mut s = LogSponge::fresh();
            s.absorb(&(i as u64).to_le_bytes().to_vec());
            s
        };
        // reference run: lists as generated
        let mut ps = sp0.clone();
        let base = lib_batch_open(&w.polys, &w.sts, &w.comms, &qset, &[], &mut ps);
        let ql = listed(&mut rng, &qs);
        ask_batch_open(ctx, &id, &w.polys, &w.sts, &w.comms, &ql, &[], &base);
        ctx.rep.case(&format!("{} honest batch_open/batch_check, {} polys, {} queries", id, npoly, qset.len()), Some(shape_key("order", npoly, &qset)));
        ctx.rep.count(&format!("default/groups={}", ref_groups(&qset).len()));
        let proofs = match &base.res {
            Ok(p) => p.clone(),
            Err(c) => {
                fail(ctx, &id, "honest-batch-open-refused", &format!("batch_open refused an in-domain request (code {})", c));
                continue;
            }
        };
        let mut vs = sp0.clone();
        let chk = lib_batch_check(&w.comms, &qset, &evals, &proofs, &[], &mut vs);
        ask_batch_check(ctx, &id, &w.comms, &ql, &evals, &proofs, &[], &chk);
        if !chk.out.accepted() {
            fail(ctx, &id, "honest-batch-rejected", &format!("honest default batch not accepted: {:?}", chk.out));
        }
        if ps.probe() != vs.probe() {
            fail(ctx, &id, "batch-sponge-diverged", "prover and verifier sponges differ after an honest default batch");
        }
        // permuted lists: prover's three lists consistently, verifier's list independently, queries relisted
        for j in 0..2 {
            let wp = w.permuted(&mut rng);
            let mut vc = w.comms.clone();
            shuffle(&mut rng, &mut vc);
            let ql2 = listed(&mut rng, &qs);
            let mut ps2 = sp0.clone();
            let o2 = lib_batch_open(&wp.polys, &wp.sts, &wp.comms, &set_of(&ql2), &[], &mut ps2);
            ask_batch_open(ctx, &id, &wp.polys, &wp.sts, &wp.comms, &ql2, &[], &o2);
            if o2.res != base.res || o2.log != base.log {
                fail(ctx, &id, "batch-open-order-dependent", &format!("batch_open depends on the order of its lists (permutation {})", j));
            }
            let mut vs2 = sp0.clone();
            let c2 = lib_batch_check(&vc, &set_of(&ql2), &evals, &proofs, &[], &mut vs2);
            ask_batch_check(ctx, &id, &vc, &ql2, &evals, &proofs, &[], &c2);
            if c2.out != chk.out || c2.log != chk.log {
                fail(ctx, &id, "batch-check-order-dependent", &format!("batch_check depends on the order of its lists (permutation {})", j));
            }
        }
        // the orders themselves: BTreeSet iteration and the query-to-labels map against the model's
        let set_list: Vec<Q> = qset.iter().cloned().collect();
        ctx.ses.ask(&id, Req::new("dflt.query_set").arg("qs", v_queries(&ql)), ImplOutcome::Ok(vec![("set".into(), Expect::Raw(v_queries(&set_list)))]));
        let gv = Val::L(
            ref_groups(&qset)
                .iter()
                .map(|(pl, z, ls)| Val::L(vec![wire::label(pl), wire::fe(z), labels_val(ls.iter())]))
                .collect(),
        );
        ctx.ses.ask(&id, Req::new("dflt.groups").arg("qs", v_queries(&ql)), ImplOutcome::Ok(vec![("groups".into(), Expect::Raw(gv))]));
    }
}

// ------------------------------------------------------------------------------------------------
// C05 — the batch decision is the conjunction of the per-group decisions; proof count; refusals
// ------------------------------------------------------------------------------------------------

/// an honest instance with at least `kmin` groups: world, queries, evaluations, proofs, sponge pre-state
fn honest_batch(rng: &mut Rng, i: usize, kmin: usize) -> (World, Vec<Q>, Evaluations<Fr, Fr>, Vec<ToyProof>, LogSponge) {
    let npoly = 2 + i % 4;
    let w = gen_world(rng, npoly);
    let labels: Vec<String> = w.polys.iter().map(|p| p.label().clone()).collect();
    let k = kmin + (i / 4) % 3;
    let qs = gen_queries(rng, &labels, k);
    let evals = true_evals(&w, &qs);
    let mut sp0 = LogSponge::fresh();
    sp0.absorb(&(1000 + i as u64).to_le_bytes().to_vec());
    let mut ps = sp0.clone();
    let o = lib_batch_open(&w.polys, &w.sts, &w.comms, &set_of(&qs), &[], &mut ps);
    (w, qs, evals, o.res.unwrap_or_default(), sp0)
}

/// run the library's batch_check, ask the model, and hold the library to the per-group conjunction
fn batch_case(ctx: &mut Ctx, id: &str, what: &str, comms: &[LCm], qs: &[Q], evals: &Evaluations<Fr, Fr>, proofs: &Vec<ToyProof>, script: &[usize], sp0: &LogSponge) -> CheckRun {
    let qset = set_of(qs);
    let mut vs = sp0.clone();
    let run = lib_batch_check(comms, &qset, evals, proofs, script, &mut vs);
    ask_batch_check(ctx, id, comms, qs, evals, proofs, script, &run);
    let want = ref_batch_decision(comms, &qset, evals, proofs, script, sp0);
    ctx.rep.case(&format!("{} {}", id, what), Some(format!("{}/{}", shape_key("batch", comms.len(), &qset), what.split(' ').next().unwrap_or(""))));
    let same = match (&run.out, &want) {
        (Out::B(a), Out::B(b)) => a == b,
        (Out::E(_), Out::E(_)) => true,
        _ => false,
    };
    if !same {
        let sig = if run.out.accepted() { "batch-accepts-against-conjunction" } else { "batch-differs-from-conjunction" };
        fail(ctx, id, sig, &format!("{}: default batch_check returned {:?}, the per-group checks give {:?} (script {:?})", what, run.out, want, script));
    }
    run
}

fn c05(ctx: &mut Ctx) {
    let n = ctx.n(10, 120);
    for i in 0..n {
        let id = format!("C05/default/strict/{}", i);
        if !ctx.selected(&id) {
            continue;
        }
        let mut rng = rng_for(ctx.seed, "C05/default/strict", i as u64);
        let (w, qs, evals, proofs, sp0) = honest_batch(&mut rng, i, 2);
        let k = proofs.len();
        if k < 2 {
            fail(ctx, &id, "honest-batch-open-refused", "batch_open did not return one proof per point label");
            continue;
        }
        // all true
        let r = batch_case(ctx, &id, "all-true", &w.comms, &qs, &evals, &proofs, &[], &sp0);
        if !r.out.accepted() {
            fail(ctx, &id, "honest-batch-rejected", "all-true batch not accepted");
        }
        // one scripted false / refusal at every position
        for pos in 0..k {
            for code in [0usize, 4, 5, 9] {
                let mut script = vec![1; k];
                script[pos] = code;
                let r = batch_case(ctx, &id, &format!("one-bad code{} at {} of {}", code, pos, k), &w.comms, &qs, &evals, &proofs, &script, &sp0);
                if r.out.accepted() {
                    fail(ctx, &id, "batch-accepts-with-bad-group", &format!("group {} of {} answered {} and the batch was accepted", pos, k, code));
                }
            }
        }
        // two bad positions: false+false, false then refusal, refusal then false, and forced-true elsewhere
        if k >= 2 {
            let a = range(&mut rng, 0, k - 2);
            let b = range(&mut rng, a + 1, k - 1);
            for (ca, cb) in [(0usize, 0usize), (0, 4), (5, 0), (0, 6), (6, 0)] {
                let mut script = vec![6; k];
                script[a] = ca;
                script[b] = cb;
                batch_case(ctx, &id, &format!("two-bad {}@{} {}@{}", ca, a, cb, b), &w.comms, &qs, &evals, &proofs, &script, &sp0);
            }
        }
        // proof lists of every wrong length
        for len in 0..=k + 1 {
            if len == k {
                continue;
            }
            let mut pl: Vec<ToyProof> = proofs.iter().cloned().take(len).collect();
            while pl.len() < len {
                pl.push(proofs[0].clone());
            }
            let r = batch_case(ctx, &id, &format!("proof-count {} for {}", len, k), &w.comms, &qs, &evals, &pl, &vec![6; k + 1], &sp0);
            if let Out::B(_) = r.out {
                fail(ctx, &id, "batch-answers-with-wrong-proof-count", &format!("{} proofs for {} groups were answered with {:?}", len, k, r.out));
            }
        }
        // transposed / duplicated proofs: the toy's lock-step verdict rejects them
        if k >= 2 {
            let a = range(&mut rng, 0, k - 2);
            let mut pl = proofs.clone();
            pl.swap(a, a + 1);
            let r = batch_case(ctx, &id, "proofs-transposed", &w.comms, &qs, &evals, &pl, &[], &sp0);
            if r.out.accepted() {
                fail(ctx, &id, "batch-accepts-transposed-proofs", "two proofs swapped and the batch was accepted");
            }
            let mut pl = proofs.clone();
            pl[a + 1] = pl[a].clone();
            let r = batch_case(ctx, &id, "proof-duplicated", &w.comms, &qs, &evals, &pl, &[], &sp0);
            if r.out.accepted() {
                fail(ctx, &id, "batch-accepts-duplicated-proof", "one proof used twice and the batch was accepted");
            }
        }
        // a missing commitment / evaluation of a queried polynomial is refused; surplus ones change nothing
        let qset = set_of(&qs);
        let queried: Vec<String> = qset.iter().map(|q| q.0.clone()).collect::<BTreeSet<_>>().into_iter().collect();
        let victim = queried[range(&mut rng, 0, queried.len() - 1)].clone();
        let fewer: Vec<LCm> = w.comms.iter().filter(|c| *c.label() != victim).cloned().collect();
        let r = batch_case(ctx, &id, "missing-commitment", &fewer, &qs, &evals, &proofs, &vec![6; k], &sp0);
        if r.out != Out::E(2) {
            fail(ctx, &id, "missing-commitment-not-refused", &format!("commitment {:?} absent: {:?}", victim, r.out));
        }
        let vkey = evals.keys().nth(range(&mut rng, 0, evals.len() - 1)).unwrap().clone();
        let mut ev2 = evals.clone();
        ev2.remove(&vkey);
        let r = batch_case(ctx, &id, "missing-evaluation", &w.comms, &qs, &ev2, &proofs, &vec![6; k], &sp0);
        if r.out != Out::E(3) {
            fail(ctx, &id, "missing-evaluation-not-refused", &format!("evaluation {:?} absent: {:?}", vkey.0, r.out));
        }
        // both absent: the order of the two look-ups decides the kind
        let r = batch_case(ctx, &id, "missing-both", &fewer, &qs, &ev2, &proofs, &vec![6; k], &sp0);
        if let Out::B(_) = r.out {
            fail(ctx, &id, "missing-both-not-refused", "commitment and evaluation absent but the batch was answered");
        }
        let mut more = w.comms.clone();
        more.push(LabeledCommitment::new("unqueried".to_string(), ToyComm { id: 999, coeffs: vec![] }, None));
        let mut ev3 = evals.clone();
        ev3.insert(("unqueried".to_string(), Fr::from(5u64)), Fr::from(6u64));
        ev3.insert((victim.clone(), Fr::from(123456789u64)), Fr::from(6u64));
        let r = batch_case(ctx, &id, "surplus-inputs", &more, &qs, &ev3, &proofs, &[], &sp0);
        if !r.out.accepted() {
            fail(ctx, &id, "surplus-inputs-rejected", "unqueried commitment / evaluations changed the decision");
        }
        // two commitments under one label: the later one is the one that is checked
        let mut dup = w.comms.clone();
        let src = dup[range(&mut rng, 0, dup.len() - 1)].clone();
        let at = range(&mut rng, 0, dup.len());
        dup.insert(at, LabeledCommitment::new(src.label().clone(), ToyComm { id: 777, coeffs: vec![] }, None));
        batch_case(ctx, &id, "duplicate-commitment-label", &dup, &qs, &evals, &proofs, &[], &sp0);
        // one point label with two different points ("undefined" by the doc comment; the code takes the first)
        let mut q2 = qs.clone();
        let (l0, (pl0, z0)) = q2[0].clone();
        q2.push((l0.clone(), (pl0.clone(), z0 + Fr::one())));
        let mut ev4 = evals.clone();
        ev4.insert((l0.clone(), z0 + Fr::one()), Fr::from(1u64));
        batch_case(ctx, &id, "point-label-with-two-points", &w.comms, &q2, &ev4, &proofs, &vec![6; k], &sp0);
        // prover side: a scripted refusal of `open` at every position, and a polynomial that is not supplied
        for pos in 0..k {
            let mut script = vec![1; k];
            script[pos] = [4usize, 5, 9][pos % 3];
            let mut ps = sp0.clone();
            let o = lib_batch_open(&w.polys, &w.sts, &w.comms, &qset, &script, &mut ps);
            ask_batch_open(ctx, &id, &w.polys, &w.sts, &w.comms, &qs, &script, &o);
            if o.res.is_ok() {
                fail(ctx, &id, "batch-open-swallows-refusal", &format!("open refused at position {} but batch_open answered", pos));
            }
        }
        let wf = World {
            polys: w.polys.iter().filter(|p| *p.label() != victim).cloned().collect(),
            sts: w.sts.clone(),
            comms: w.comms.clone(),
        };
        let mut ps = sp0.clone();
        let o = lib_batch_open(&wf.polys, &wf.sts, &wf.comms, &qset, &[], &mut ps);
        ask_batch_open(ctx, &id, &wf.polys, &wf.sts, &wf.comms, &qs, &[], &o);
        // lists of different lengths are zipped (the shortest decides), duplicated polynomial labels overwrite
        let mut wd = w.clone();
        wd.polys.push(LabeledPolynomial::new(victim.clone(), UniPoly::from_coefficients_vec(vec![Fr::from(3u64)]), None, None));
        wd.sts.push(ToyState { id: 555 });
        wd.comms.push(LabeledCommitment::new("other".to_string(), ToyComm { id: 556, coeffs: vec![] }, None));
        wd.comms.push(LabeledCommitment::new("dangling".to_string(), ToyComm { id: 557, coeffs: vec![] }, None));
        let mut ps = sp0.clone();
        let o = lib_batch_open(&wd.polys, &wd.sts, &wd.comms, &qset, &[], &mut ps);
        ask_batch_open(ctx, &id, &wd.polys, &wd.sts, &wd.comms, &qs, &[], &o);
        ctx.rep.case(&format!("{} batch_open refusals and list shapes", id), None);
    }
}

// ------------------------------------------------------------------------------------------------
// linear combinations: generator, honest run, reference decision
// ------------------------------------------------------------------------------------------------

fn coeff(rng: &mut Rng, kind: usize) -> Fr {
    match kind % 5 {
        0 => Fr::zero(),
        1 => Fr::one(),
        2 => -Fr::one(),
        3 => -Fr::from(range(rng, 2, 9) as u64),
        _ => Fr::rand(rng),
    }
}
/// `nlc` equations over `labels`: zero / one / negative / random coefficients, repeated labels, constants
fn gen_lcs(rng: &mut Rng, labels: &[String], nlc: usize, i: usize) -> Vec<LinComb> {
    let names = pick_distinct(rng, &LC_LABELS, nlc);
    let mut lcs = vec![];
    for (j, name) in names.iter().enumerate() {
        let nterms = range(rng, 1, 5);
        let mut terms: Vec<(Fr, LCTerm)> = vec![];
        // at least one polynomial term; equation 0 of every third case carries a zero coefficient on a
        // polynomial that no other term of it mentions
        let first = labels[range(rng, 0, labels.len() - 1)].clone();
        let k0 = range(rng, 1, 4);
        let c0 = if j == 0 && i % 3 == 0 { Fr::zero() } else { coeff(rng, k0) };
        terms.push((c0, LCTerm::PolyLabel(first)));
        for _ in 1..nterms {
            let kc = range(rng, 0, 4);
            let c = coeff(rng, kc);
            if range(rng, 0, 3) == 0 {
                terms.push((c, LCTerm::One));
            } else {
                terms.push((c, LCTerm::PolyLabel(labels[range(rng, 0, labels.len() - 1)].clone())));
            }
        }
        shuffle(rng, &mut terms);
        lcs.push(LinearCombination::new(name.clone(), terms));
    }
    lcs
}
fn lc_true_value(w: &World, lc: &LinComb, z: &Fr) -> Fr {
    let mut v = Fr::zero();
    for (c, t) in lc.iter() {
        v += match t {
            LCTerm::One => *c,
            LCTerm::PolyLabel(l) => *c * w.poly(l).map(|p| p.polynomial().evaluate(z)).unwrap_or(Fr::zero()),
        };
    }
    v
}
fn lc_get<'a>(lcs: &'a [LinComb], l: &str) -> Option<&'a LinComb> {
    lcs.iter().rev().find(|lc| lc.label() == l)
}
/// the harness's own `lc_query_set_to_poly_query_set`
fn ref_poly_qs(lcs: &[LinComb], eqs: &QuerySet<Fr>) -> QuerySet<Fr> {
    let mut out = QuerySet::new();
    for (el, (pl, z)) in eqs.iter() {
        if let Some(lc) = lc_get(lcs, el) {
            for (_, t) in lc.iter() {
                if let LCTerm::PolyLabel(l) = t {
                    out.insert((l.clone(), (pl.clone(), *z)));
                }
            }
        }
    }
    out
}
/// the relation `check_combinations` is to decide, written independently: every queried equation is
/// supplied, has a claimed value, and that value is the combination of the transmitted evaluations
/// (paired with the sorted (polynomial, point) keys); then the batch relation on the polynomial queries
fn ref_lc_decision(lcs: &[LinComb], comms: &[LCm], eqs: &QuerySet<Fr>, eq_evals: &Evaluations<Fr, Fr>, proofs: &[ToyProof], pevals: &Option<Vec<Fr>>, script: &[usize], sp0: &LogSponge) -> Out {
    let pqs = ref_poly_qs(lcs, eqs);
    let pev = match pevals {
        None => return Out::E(9),
        Some(e) => e,
    };
    let keys: BTreeSet<(String, Fr)> = pqs.iter().map(|(l, (_, z))| (l.clone(), *z)).collect();
    let sent: Evaluations<Fr, Fr> = keys.into_iter().zip(pev.iter().cloned()).collect();
    for (el, (_, z)) in eqs.iter() {
        let lc = match lc_get(lcs, el) {
            None => return Out::E(2),
            Some(lc) => lc,
        };
        let claimed = match eq_evals.get(&(el.clone(), *z)) {
            None => return Out::E(3),
            Some(c) => *c,
        };
        let mut actual = Fr::zero();
        for (c, t) in lc.iter() {
            actual += match t {
                LCTerm::One => *c,
                LCTerm::PolyLabel(l) => match sent.get(&(l.clone(), *z)) {
                    None => return Out::E(3),
                    Some(v) => *c * v,
                },
            };
        }
        if claimed != actual {
            return Out::B(false);
        }
    }
    ref_batch_decision(comms, &pqs, &sent, proofs, script, sp0)
}

pub struct LcInst {
    pub w: World,
    pub lcs: Vec<LinComb>,
    pub qs: Vec<Q>,
    pub eq_evals: Evaluations<Fr, Fr>,
    pub sp0: LogSponge,
}
fn gen_lc_inst(rng: &mut Rng, i: usize) -> LcInst {
    let npoly = 1 + i % 4;
    let w = gen_world(rng, npoly);
    let labels: Vec<String> = w.polys.iter().map(|p| p.label().clone()).collect();
    let nlc = 1 + (i / 2) % 3;
    let lcs = gen_lcs(rng, &labels, nlc, i);
    let eq_labels: Vec<String> = lcs.iter().map(|lc| lc.label().clone()).collect();
    let k = 1 + (i / 3) % 3;
    let mut qs = gen_queries(rng, &eq_labels, k);
    // equation 0 at (at least) two distinct points under distinct point labels
    let z = Fr::rand(rng);
    qs.push((eq_labels[0].clone(), ("w1".to_string(), z)));
    qs.push((eq_labels[0].clone(), ("w2".to_string(), z + Fr::one())));
    if i % 2 == 0 {
        // and a third point label sharing the first point value
        qs.push((eq_labels[0].clone(), ("w3".to_string(), z)));
    }
    let mut eq_evals = Evaluations::new();
    for (el, (_, z)) in &qs {
        eq_evals.insert((el.clone(), *z), lc_true_value(&w, lc_get(&lcs, el).unwrap(), z));
    }
    let mut sp0 = LogSponge::fresh();
    sp0.absorb(&(5000 + i as u64).to_le_bytes().to_vec());
    LcInst { w, lcs, qs, eq_evals, sp0 }
}

/// run the library's check_combinations, ask the model, hold the library to the reference relation
fn lc_case(ctx: &mut Ctx, id: &str, what: &str, lcs: &[LinComb], comms: &[LCm], qs: &[Q], eq_evals: &Evaluations<Fr, Fr>, proofs: &Vec<ToyProof>, pevals: &Option<Vec<Fr>>, script: &[usize], sp0: &LogSponge) -> CheckRun {
    let qset = set_of(qs);
    let mut vs = sp0.clone();
    let run = lib_check_combinations(lcs, comms, &qset, eq_evals, proofs, pevals, script, &mut vs);
    ask_check_combinations(ctx, id, lcs, comms, qs, eq_evals, proofs, pevals, script, &run);
    let want = ref_lc_decision(lcs, comms, &qset, eq_evals, proofs, pevals, script, sp0);
    ctx.rep.case(&format!("{} {}", id, what), Some(format!("default/lc/e{}/q{}/{}", lcs.len(), qset.len(), what.split(' ').next().unwrap_or(""))));
    let same = match (&run.out, &want) {
        (Out::B(a), Out::B(b)) => a == b,
        (Out::E(_), Out::E(_)) => true,
        _ => false,
    };
    if !same {
        let sig = if run.out.accepted() { "combinations-accept-against-relation" } else { "combinations-differ-from-relation" };
        fail(ctx, id, sig, &format!("{}: default check_combinations returned {:?}, the relation gives {:?}", what, run.out, want));
    }
    run
}

/// honest open_combinations (+ model), returns the proof
fn lc_open(ctx: &mut Ctx, id: &str, inst: &LcInst, ps: &mut LogSponge) -> Option<(Vec<ToyProof>, Option<Vec<Fr>>)> {
    let qset = set_of(&inst.qs);
    let o = lib_open_combinations(&inst.lcs, &inst.w.polys, &inst.w.sts, &inst.w.comms, &qset, &[], ps);
    ask_open_combinations(ctx, id, &inst.lcs, &inst.w.polys, &inst.w.sts, &inst.w.comms, &inst.qs, &[], &o);
    // the polynomial query set against the model's and the harness's own
    let pq: Vec<Q> = ref_poly_qs(&inst.lcs, &qset).into_iter().collect();
    ctx.ses.ask(
        id,
        Req::new("dflt.poly_query_set").arg("lcs", v_lcs(&inst.lcs)).arg("qs", v_queries(&inst.qs)),
        ImplOutcome::Ok(vec![("set".into(), Expect::Raw(v_queries(&pq)))]),
    );
    match o.res {
        Ok(p) => {
            // every polynomial label of a queried equation was opened under that point label, zero coefficient or not
            let want: Vec<Val> = ref_groups(&ref_poly_qs(&inst.lcs, &qset)).iter().map(|g| labels_val(g.2.iter())).collect();
            let got: Vec<Val> = o.log.iter().map(|e| e.as_list().map(|l| l[0].clone()).unwrap_or(Val::None)).collect();
            if want != got {
                fail(ctx, id, "combinations-open-wrong-groups", "open_combinations did not open exactly the polynomials of the queried equations, grouped by point label");
            }
            Some((p, o.evals))
        }
        Err(c) => {
            fail(ctx, id, "honest-open-combinations-refused", &format!("open_combinations refused an in-domain request (code {})", c));
            None
        }
    }
}

// ------------------------------------------------------------------------------------------------
// C06 — combination openings prove exactly the stated combinations
// ------------------------------------------------------------------------------------------------

fn c06(ctx: &mut Ctx) {
    let n = ctx.n(30, 300);
    for i in 0..n {
        let id = format!("C06/default/lc/{}", i);
        if !ctx.selected(&id) {
            continue;
        }
        let mut rng = rng_for(ctx.seed, "C06/default/lc", i as u64);
        let inst = gen_lc_inst(&mut rng, i);
        let mut ps = inst.sp0.clone();
        let (proofs, pevals) = match lc_open(ctx, &id, &inst, &mut ps) {
            Some(x) => x,
            None => continue,
        };
        let k = proofs.len();
        ctx.rep.count(&format!("default/lc-equations={}", inst.lcs.len()));
        // honest: accepted, sponges agree; also with relisted queries and permuted equation / commitment lists
        let r = lc_case(ctx, &id, "honest", &inst.lcs, &inst.w.comms, &inst.qs, &inst.eq_evals, &proofs, &pevals, &[], &inst.sp0);
        if !r.out.accepted() {
            fail(ctx, &id, "honest-combinations-rejected", &format!("honest default combination proof not accepted: {:?}", r.out));
        }
        {
            let mut vs = inst.sp0.clone();
            lib_check_combinations(&inst.lcs, &inst.w.comms, &set_of(&inst.qs), &inst.eq_evals, &proofs, &pevals, &[], &mut vs);
            if vs.probe() != ps.probe() {
                fail(ctx, &id, "combinations-sponge-diverged", "sponges differ after an honest default combination opening");
            }
        }
        let mut lcs2 = inst.lcs.clone();
        shuffle(&mut rng, &mut lcs2);
        let mut vc = inst.w.comms.clone();
        shuffle(&mut rng, &mut vc);
        let ql = listed(&mut rng, &inst.qs);
        let r2 = lc_case(ctx, &id, "honest-permuted", &lcs2, &vc, &ql, &inst.eq_evals, &proofs, &pevals, &[], &inst.sp0);
        if r2.out != r.out || r2.log != r.log {
            fail(ctx, &id, "combinations-order-dependent", "check_combinations depends on the order of its lists");
        }
        let wp = inst.w.permuted(&mut rng);
        let mut ps2 = inst.sp0.clone();
        let o2 = lib_open_combinations(&lcs2, &wp.polys, &wp.sts, &wp.comms, &set_of(&ql), &[], &mut ps2);
        ask_open_combinations(ctx, &id, &lcs2, &wp.polys, &wp.sts, &wp.comms, &ql, &[], &o2);
        if o2.res != Ok(proofs.clone()) || o2.evals != pevals {
            fail(ctx, &id, "open-combinations-order-dependent", "open_combinations depends on the order of its lists");
        }
        // a wrong claimed value at every position of the equation query set
        let keys: Vec<(String, Fr)> = inst.eq_evals.keys().cloned().collect();
        for (j, key) in keys.iter().enumerate() {
            let mut ev = inst.eq_evals.clone();
            *ev.get_mut(key).unwrap() += Fr::from(1 + (j as u64));
            let r = lc_case(ctx, &id, &format!("claimed-value-changed at {} of {}", j, keys.len()), &inst.lcs, &inst.w.comms, &inst.qs, &ev, &proofs, &pevals, &vec![6; k], &inst.sp0);
            if r.out != Out::B(false) {
                fail(ctx, &id, "wrong-combination-value-not-rejected", &format!("claimed value of {:?} changed: {:?}", key.0, r.out));
            }
        }
        // verifier-side coefficient / constant changed, term by term
        let sent: Evaluations<Fr, Fr> = {
            let pqs = ref_poly_qs(&inst.lcs, &set_of(&inst.qs));
            let ks: BTreeSet<(String, Fr)> = pqs.iter().map(|(l, (_, z))| (l.clone(), *z)).collect();
            ks.into_iter().zip(pevals.clone().unwrap_or_default()).collect()
        };
        for (e, lc) in inst.lcs.iter().enumerate() {
            for t in 0..lc.terms.len() {
                let mut lcs3 = inst.lcs.clone();
                lcs3[e].terms[t].0 += Fr::from(3u64);
                // does the change move the value at some queried point of this equation?
                let moves = inst.qs.iter().any(|(el, (_, z))| {
                    el == lc.label()
                        && match &lc.terms[t].1 {
                            LCTerm::One => true,
                            LCTerm::PolyLabel(l) => sent.get(&(l.clone(), *z)).map(|v| !v.is_zero()).unwrap_or(false),
                        }
                });
                let kind = if lc.terms[t].1.is_one() { "constant-changed" } else { "coefficient-changed" };
                let r = lc_case(ctx, &id, &format!("{} eq {} term {}", kind, e, t), &lcs3, &inst.w.comms, &inst.qs, &inst.eq_evals, &proofs, &pevals, &vec![6; k], &inst.sp0);
                if moves && r.out != Out::B(false) {
                    fail(ctx, &id, "changed-combination-not-rejected", &format!("{} in equation {:?}, term {}: {:?}", kind, lc.label(), t, r.out));
                }
            }
        }
        // transmitted evaluations changed keeping one equation's sum fixed: the changed values must reach `check`
        if let Some(pe) = &pevals {
            if pe.len() >= 1 {
                let j = range(&mut rng, 0, pe.len() - 1);
                let mut pe2 = pe.clone();
                pe2[j] += Fr::from(9u64);
                let r = lc_case(ctx, &id, "transmitted-evaluation-changed", &inst.lcs, &inst.w.comms, &inst.qs, &inst.eq_evals, &proofs, &Some(pe2.clone()), &vec![6; k], &inst.sp0);
                if let Out::B(true) = r.out {
                    // accepted by the equation stage (zero net effect): then the scheme's check saw the changed value
                    let seen: Vec<Val> = r.log.iter().flat_map(|e| e.as_list().and_then(|l| l[3].as_list().cloned()).unwrap_or_default()).collect();
                    if !seen.contains(&wire::fe(&pe2[j])) {
                        fail(ctx, &id, "changed-evaluation-not-checked", "a changed transmitted evaluation passed the equations and never reached the scheme's check");
                    }
                }
                // shorter / longer / absent evaluation lists
                let mut short = pe.clone();
                short.pop();
                lc_case(ctx, &id, "evaluations-truncated", &inst.lcs, &inst.w.comms, &inst.qs, &inst.eq_evals, &proofs, &Some(short), &vec![6; k], &inst.sp0);
                let mut long = pe.clone();
                long.push(Fr::from(4u64));
                let r = lc_case(ctx, &id, "evaluations-extended", &inst.lcs, &inst.w.comms, &inst.qs, &inst.eq_evals, &proofs, &Some(long), &[], &inst.sp0);
                if !r.out.accepted() {
                    fail(ctx, &id, "surplus-evaluation-rejected", "a surplus transmitted evaluation changed the decision");
                }
            }
            let r = lc_case(ctx, &id, "evaluations-absent", &inst.lcs, &inst.w.comms, &inst.qs, &inst.eq_evals, &proofs, &None, &vec![6; k], &inst.sp0);
            if let Out::B(_) = r.out {
                fail(ctx, &id, "absent-evaluations-answered", "BatchLCProof without evaluations was answered");
            }
        }
        // a query naming an equation that is not supplied; a queried equation without claimed value
        let mut q4 = inst.qs.clone();
        q4.push(("nosuch".to_string(), ("w1".to_string(), Fr::from(2u64))));
        let r = lc_case(ctx, &id, "unknown-equation-queried", &inst.lcs, &inst.w.comms, &q4, &inst.eq_evals, &proofs, &pevals, &vec![6; k], &inst.sp0);
        if let Out::B(_) = r.out {
            fail(ctx, &id, "unknown-equation-answered", "a claim about an equation that was not supplied was answered");
        }
        let mut ev5 = inst.eq_evals.clone();
        let dk = keys[range(&mut rng, 0, keys.len() - 1)].clone();
        ev5.remove(&dk);
        let r = lc_case(ctx, &id, "claimed-value-absent", &inst.lcs, &inst.w.comms, &inst.qs, &ev5, &proofs, &pevals, &vec![6; k], &inst.sp0);
        if let Out::B(_) = r.out {
            fail(ctx, &id, "absent-claim-answered", "a queried equation without claimed value was answered");
        }
        // two equations under one label: the later one counts (both sides)
        let mut lcs6 = inst.lcs.clone();
        let mut twin = inst.lcs[0].clone();
        twin.terms.push((Fr::from(2u64), LCTerm::One));
        lcs6.insert(range(&mut rng, 0, lcs6.len()), twin);
        lc_case(ctx, &id, "duplicate-equation-label", &lcs6, &inst.w.comms, &inst.qs, &inst.eq_evals, &proofs, &pevals, &vec![6; k], &inst.sp0);
        let mut ps6 = inst.sp0.clone();
        let o6 = lib_open_combinations(&lcs6, &inst.w.polys, &inst.w.sts, &inst.w.comms, &set_of(&inst.qs), &[], &mut ps6);
        ask_open_combinations(ctx, &id, &lcs6, &inst.w.polys, &inst.w.sts, &inst.w.comms, &inst.qs, &[], &o6);
        // an equation over a polynomial that was not supplied: the prover aborts, the verifier refuses
        let mut lcs7 = inst.lcs.clone();
        lcs7[0].terms.push((Fr::one(), LCTerm::PolyLabel("ghost".to_string())));
        let mut ps7 = inst.sp0.clone();
        let o7 = lib_open_combinations(&lcs7, &inst.w.polys, &inst.w.sts, &inst.w.comms, &set_of(&inst.qs), &[], &mut ps7);
        ask_open_combinations(ctx, &id, &lcs7, &inst.w.polys, &inst.w.sts, &inst.w.comms, &inst.qs, &[], &o7);
        if o7.res.is_ok() {
            fail(ctx, &id, "unknown-polynomial-opened", "open_combinations answered for a polynomial that was not supplied");
        }
        let r = lc_case(ctx, &id, "unknown-polynomial-in-equation", &lcs7, &inst.w.comms, &inst.qs, &inst.eq_evals, &proofs, &pevals, &vec![6; k], &inst.sp0);
        if r.out.accepted() {
            fail(ctx, &id, "unknown-polynomial-accepted", "an equation over a polynomial without commitment was accepted");
        }
        // scripted per-group answers below the equation stage
        for pos in 0..k {
            let mut script = vec![6; k];
            script[pos] = [0usize, 4, 9][pos % 3];
            let r = lc_case(ctx, &id, &format!("inner-batch-bad at {} of {}", pos, k), &inst.lcs, &inst.w.comms, &inst.qs, &inst.eq_evals, &proofs, &pevals, &script, &inst.sp0);
            if r.out.accepted() {
                fail(ctx, &id, "combinations-accept-with-bad-group", "a rejected polynomial opening below an equation was accepted");
            }
        }
    }
}

// ------------------------------------------------------------------------------------------------
// C02 — a changed statement reaches the scheme's `check` / is rejected by the equation stage
// ------------------------------------------------------------------------------------------------

fn c02(ctx: &mut Ctx) {
    let n = ctx.n(12, 150);
    for i in 0..n {
        let id = format!("C02/default/claims/{}", i);
        if !ctx.selected(&id) {
            continue;
        }
        let mut rng = rng_for(ctx.seed, "C02/default/claims", i as u64);
        let (w, qs, evals, proofs, sp0) = honest_batch(&mut rng, i, 1);
        let qset = set_of(&qs);
        let groups = ref_groups(&qset);
        if proofs.len() != groups.len() {
            fail(ctx, &id, "honest-batch-open-refused", "batch_open did not return one proof per point label");
            continue;
        }
        // value + delta at every (label, point): `check` of that group must be handed the changed value
        let keys: Vec<(String, Fr)> = evals.keys().cloned().collect();
        for (j, key) in keys.iter().enumerate() {
            let mut ev = evals.clone();
            let nv = evals[key] + Fr::from(1 + j as u64);
            ev.insert(key.clone(), nv);
            let r = batch_case(ctx, &id, &format!("value-changed at {} of {}", j, keys.len()), &w.comms, &qs, &ev, &proofs, &[], &sp0);
            for (g, entry) in groups.iter().zip(r.log.iter()) {
                if g.1 == key.1 {
                    if let Some(pos) = g.2.iter().position(|l| *l == key.0) {
                        let handed = entry.as_list().and_then(|l| l[3].as_list().map(|v| v[pos].clone()));
                        if handed != Some(wire::fe(&nv)) {
                            fail(ctx, &id, "changed-value-not-checked", &format!("the claimed value of {:?} was changed and `check` was handed {:?}", key.0, handed));
                        }
                    }
                }
            }
        }
        // a replaced commitment (other id under the same label) is the one that is checked
        for j in 0..w.comms.len() {
            let mut cs = w.comms.clone();
            cs[j] = LabeledCommitment::new(cs[j].label().clone(), ToyComm { id: 4242, coeffs: vec![Fr::one()] }, None);
            let r = batch_case(ctx, &id, &format!("commitment-replaced {}", j), &cs, &qs, &evals, &proofs, &[], &sp0);
            let l = w.comms[j].label();
            for (g, entry) in groups.iter().zip(r.log.iter()) {
                if let Some(pos) = g.2.iter().position(|x| x == l) {
                    let handed = entry.as_list().and_then(|e| e[1].as_list().map(|v| v[pos].clone()));
                    if handed != Some(wire::nat(4242)) {
                        fail(ctx, &id, "replaced-commitment-not-checked", &format!("commitment {:?} was replaced and `check` was handed {:?}", l, handed));
                    }
                }
            }
        }
        // another point under a point label: `check` is run at the new point
        let (pl0, z0) = (groups[0].0.clone(), groups[0].1);
        let q2: Vec<Q> = qs.iter().map(|(l, (pl, z))| if *pl == pl0 { (l.clone(), (pl.clone(), z0 + Fr::from(17u64))) } else { (l.clone(), (pl.clone(), *z)) }).collect();
        let mut ev2 = evals.clone();
        for (l, (_, z)) in &q2 {
            ev2.entry((l.clone(), *z)).or_insert(Fr::from(8u64));
        }
        let r = batch_case(ctx, &id, "point-changed", &w.comms, &q2, &ev2, &proofs, &[], &sp0);
        if r.out.accepted() {
            fail(ctx, &id, "changed-point-accepted", "a changed query point was accepted with the old proof");
        }
    }
    // check_combinations: a wrong claimed value at every position (also: one equation at several points)
    let n = ctx.n(12, 150);
    for i in 0..n {
        let id = format!("C02/default/lc-claims/{}", i);
        if !ctx.selected(&id) {
            continue;
        }
        let mut rng = rng_for(ctx.seed, "C02/default/lc-claims", i as u64);
        let inst = gen_lc_inst(&mut rng, i);
        let mut ps = inst.sp0.clone();
        let (proofs, pevals) = match lc_open(ctx, &id, &inst, &mut ps) {
            Some(x) => x,
            None => continue,
        };
        let keys: Vec<(String, Fr)> = inst.eq_evals.keys().cloned().collect();
        for (j, key) in keys.iter().enumerate() {
            let mut ev = inst.eq_evals.clone();
            *ev.get_mut(key).unwrap() -= Fr::from(1 + (j as u64));
            let r = lc_case(ctx, &id, &format!("claimed-value-changed at {} of {}", j, keys.len()), &inst.lcs, &inst.w.comms, &inst.qs, &ev, &proofs, &pevals, &[], &inst.sp0);
            if r.out != Out::B(false) {
                fail(ctx, &id, "wrong-combination-value-not-rejected", &format!("claimed value of {:?} changed: {:?}", key.0, r.out));
            }
        }
    }
}

// ------------------------------------------------------------------------------------------------
// C10 — the default verifiers decide exactly the reference relation on single-fault neighbours
// ------------------------------------------------------------------------------------------------

fn c10(ctx: &mut Ctx) {
    let n = ctx.n(40, 500);
    for i in 0..n {
        let id = format!("C10/default/relation/{}", i);
        if !ctx.selected(&id) {
            continue;
        }
        let mut rng = rng_for(ctx.seed, "C10/default/relation", i as u64);
        if i % 2 == 0 {
            let (w, qs, evals, proofs, sp0) = honest_batch(&mut rng, i / 2, 2);
            let k = proofs.len();
            if k < 2 {
                fail(ctx, &id, "honest-batch-open-refused", "batch_open did not return one proof per point label");
                continue;
            }
            let mut comms = w.comms.clone();
            let mut q = qs.clone();
            let mut ev = evals.clone();
            let mut pr = proofs.clone();
            let mut script = vec![1usize; k];
            let fault = range(&mut rng, 0, 8);
            let what = match fault {
                0 => "none",
                1 => {
                    let j = range(&mut rng, 0, comms.len() - 1);
                    comms[j] = LabeledCommitment::new(comms[j].label().clone(), ToyComm { id: 31337, coeffs: vec![] }, None);
                    "commitment"
                }
                2 => {
                    let key = ev.keys().nth(range(&mut rng, 0, ev.len() - 1)).unwrap().clone();
                    *ev.get_mut(&key).unwrap() += Fr::one();
                    "value"
                }
                3 => {
                    let j = range(&mut rng, 0, q.len() - 1);
                    let pl = q[j].1 .0.clone();
                    let dz = Fr::rand(&mut rng);
                    for x in q.iter_mut() {
                        if x.1 .0 == pl {
                            x.1 .1 += dz;
                        }
                    }
                    for (l, (_, z)) in &q {
                        ev.entry((l.clone(), *z)).or_insert(Fr::from(2u64));
                    }
                    "point"
                }
                4 => {
                    let j = range(&mut rng, 0, k - 1);
                    pr[j].chal += Fr::one();
                    "proof-element"
                }
                5 => {
                    let j = range(&mut rng, 0, k - 1);
                    pr[j] = proofs[(j + 1) % k].clone();
                    "proof-of-another-group"
                }
                6 => {
                    script[range(&mut rng, 0, k - 1)] = 0;
                    "group-verdict-false"
                }
                7 => {
                    // every group but one forced true, that one false: only the conjunction rejects
                    script = vec![6; k];
                    script[range(&mut rng, 0, k - 2)] = 0;
                    "group-verdict-false-not-last"
                }
                _ => {
                    let j = range(&mut rng, 0, q.len() - 1);
                    q.remove(j);
                    "query-dropped"
                }
            };
            batch_case(ctx, &id, &format!("batch {}", what), &comms, &q, &ev, &pr, &script, &sp0);
            ctx.rep.count(&format!("default/c10-batch-{}", what));
        } else {
            let inst = gen_lc_inst(&mut rng, i / 2);
            let mut ps = inst.sp0.clone();
            let (proofs, pevals) = match lc_open(ctx, &id, &inst, &mut ps) {
                Some(x) => x,
                None => continue,
            };
            let k = proofs.len();
            let mut lcs = inst.lcs.clone();
            let mut comms = inst.w.comms.clone();
            let mut ev = inst.eq_evals.clone();
            let mut pe = pevals.clone();
            let mut pr = proofs.clone();
            let mut script = vec![1usize; k];
            let fault = range(&mut rng, 0, 7);
            let what = match fault {
                0 => "none",
                1 => {
                    let key = ev.keys().nth(range(&mut rng, 0, ev.len() - 1)).unwrap().clone();
                    *ev.get_mut(&key).unwrap() += Fr::one();
                    "claimed-value"
                }
                2 => {
                    let e = range(&mut rng, 0, lcs.len() - 1);
                    let t = range(&mut rng, 0, lcs[e].terms.len() - 1);
                    lcs[e].terms[t].0 += Fr::one();
                    "coefficient-or-constant"
                }
                3 => {
                    if let Some(p) = pe.as_mut() {
                        if !p.is_empty() {
                            let j = range(&mut rng, 0, p.len() - 1);
                            p[j] += Fr::one();
                        }
                    }
                    "transmitted-evaluation"
                }
                4 => {
                    let j = range(&mut rng, 0, comms.len() - 1);
                    comms.remove(j);
                    "commitment-dropped"
                }
                5 if k > 0 => {
                    let j = range(&mut rng, 0, k - 1);
                    pr[j].chal += Fr::one();
                    "proof-element"
                }
                6 if k > 0 => {
                    script = vec![6; k];
                    script[range(&mut rng, 0, k - 1)] = 0;
                    "group-verdict-false"
                }
                _ => {
                    let e = range(&mut rng, 0, lcs.len() - 1);
                    lcs[e].terms.push((Fr::zero(), LCTerm::PolyLabel(inst.w.polys[0].label().clone())));
                    "zero-term-added"
                }
            };
            lc_case(ctx, &id, &format!("lc {}", what), &lcs, &comms, &inst.qs, &ev, &pr, &pe, &script, &inst.sp0);
            ctx.rep.count(&format!("default/c10-lc-{}", what));
        }
    }
}

// ------------------------------------------------------------------------------------------------
// C11 — histories of default batch / combination openings on one sponge stay in lock-step
// ------------------------------------------------------------------------------------------------

enum Op {
    Batch(Vec<Q>),
    Lc(Vec<LinComb>, Vec<Q>),
}
struct Proved {
    proofs: Vec<ToyProof>,
    pevals: Option<Vec<Fr>>,
}

fn c11(ctx: &mut Ctx) {
    let n = ctx.n(20, 250);
    for i in 0..n {
        let id = format!("C11/default/history/{}", i);
        if !ctx.selected(&id) {
            continue;
        }
        let mut rng = rng_for(ctx.seed, "C11/default/history", i as u64);
        let w = gen_world(&mut rng, 2 + i % 3);
        let labels: Vec<String> = w.polys.iter().map(|p| p.label().clone()).collect();
        let nops = 2 + i % 3;
        let mut ops = vec![];
        for j in 0..nops {
            if (i + j) % 2 == 0 {
                ops.push(Op::Batch(gen_queries(&mut rng, &labels, 1 + (i + j) % 3)));
            } else {
                let lcs = gen_lcs(&mut rng, &labels, 1 + j % 2, i + j);
                let els: Vec<String> = lcs.iter().map(|l| l.label().clone()).collect();
                let qs = gen_queries(&mut rng, &els, 1 + (i + j) % 2);
                ops.push(Op::Lc(lcs, qs));
            }
        }
        let mut sp0 = LogSponge::fresh();
        sp0.absorb(&(9000 + i as u64).to_le_bytes().to_vec());
        // prover history
        let mut ps = sp0.clone();
        let mut proved: Vec<Proved> = vec![];
        let mut ps_probes = vec![];
        let mut ok = true;
        for (j, op) in ops.iter().enumerate() {
            let oid = format!("{}/op{}", id, j);
            let run = match op {
                Op::Batch(qs) => {
                    let o = lib_batch_open(&w.polys, &w.sts, &w.comms, &set_of(qs), &[], &mut ps);
                    ask_batch_open(ctx, &oid, &w.polys, &w.sts, &w.comms, qs, &[], &o);
                    o
                }
                Op::Lc(lcs, qs) => {
                    let o = lib_open_combinations(lcs, &w.polys, &w.sts, &w.comms, &set_of(qs), &[], &mut ps);
                    ask_open_combinations(ctx, &oid, lcs, &w.polys, &w.sts, &w.comms, qs, &[], &o);
                    o
                }
            };
            match run.res {
                Ok(p) => proved.push(Proved { proofs: p, pevals: run.evals }),
                Err(c) => {
                    fail(ctx, &oid, "honest-history-open-refused", &format!("opening {} of the history refused (code {})", j, c));
                    ok = false;
                    break;
                }
            }
            ps_probes.push(ps.probe());
        }
        if !ok {
            continue;
        }
        // the verifier side of one operation
        let verify = |ctx: &mut Ctx, oid: &str, op: &Op, pr: &Proved, vs: &mut LogSponge, ask: bool| -> Out {
            match op {
                Op::Batch(qs) => {
                    let ev = true_evals(&w, qs);
                    let r = lib_batch_check(&w.comms, &set_of(qs), &ev, &pr.proofs, &[], vs);
                    if ask {
                        ask_batch_check(ctx, oid, &w.comms, qs, &ev, &pr.proofs, &[], &r);
                    }
                    r.out
                }
                Op::Lc(lcs, qs) => {
                    let mut ev = Evaluations::new();
                    for (el, (_, z)) in qs {
                        ev.insert((el.clone(), *z), lc_true_value(&w, lc_get(lcs, el).unwrap(), z));
                    }
                    let r = lib_check_combinations(lcs, &w.comms, &set_of(qs), &ev, &pr.proofs, &pr.pevals, &[], vs);
                    if ask {
                        ask_check_combinations(ctx, oid, lcs, &w.comms, qs, &ev, &pr.proofs, &pr.pevals, &[], &r);
                    }
                    r.out
                }
            }
        };
        // honest verifier history: every check accepts, the sponges agree after every prefix
        let mut vs = sp0.clone();
        for (j, (op, pr)) in ops.iter().zip(proved.iter()).enumerate() {
            let oid = format!("{}/op{}", id, j);
            let out = verify(ctx, &oid, op, pr, &mut vs, true);
            if !out.accepted() {
                fail(ctx, &oid, "history-check-rejected", &format!("check {} of an honest history returned {:?}", j, out));
            }
            if vs.probe() != ps_probes[j] {
                fail(ctx, &oid, "history-sponge-diverged", &format!("sponges differ after operation {} of an honest history", j));
            }
        }
        ctx.rep.case(&format!("{} history of {} default operations", id, nops), Some(format!("default/history/{}/{}", nops, i % 6)));
        // perturbed pre-state: nothing is accepted (every group's lock-step verdict fails)
        let mut vs2 = sp0.clone();
        vs2.absorb(&vec![1u8, 2, 3]);
        for (j, (op, pr)) in ops.iter().zip(proved.iter()).enumerate() {
            if pr.proofs.is_empty() {
                continue;
            }
            let oid = format!("{}/pre/op{}", id, j);
            let out = verify(ctx, &oid, op, pr, &mut vs2, true);
            if out.accepted() {
                fail(ctx, &oid, "perturbed-sponge-accepted", &format!("check {} accepted on a sponge with a different pre-state", j));
            }
        }
        // two operations of the history checked in exchanged positions
        if nops >= 2 {
            let a = range(&mut rng, 0, nops - 2);
            let mut order: Vec<usize> = (0..nops).collect();
            order.swap(a, a + 1);
            let mut vs3 = sp0.clone();
            for (pos, &j) in order.iter().enumerate() {
                let oid = format!("{}/swap/op{}", id, j);
                let out = verify(ctx, &oid, &ops[j], &proved[j], &mut vs3, true);
                if (pos == a || pos == a + 1) && !proved[j].proofs.is_empty() && out.accepted() {
                    fail(ctx, &oid, "displaced-proof-accepted", &format!("operation {} accepted at position {} of the history", j, pos));
                }
            }
        }
        ctx.rep.case(&format!("{} perturbed pre-state and exchanged operations", id), None);
    }
}
