//! Property C08 — correspondence / expectation run (see DESIGN.md §5, C08).
use crate::Ctx;

pub fn run(ctx: &mut Ctx) {
    let _ = ctx;
}
