//! Property C08 — commitments are the key-defined linear map (naive sum over published key points).
use crate::common::*;
use crate::generic;
use crate::kzg::*;
use crate::wire::{self, Req};
use crate::Ctx;
use ark_bls12_381::{Fr, G1Projective};
use ark_ec::{AffineRepr, CurveGroup};
use ark_ff::{One, PrimeField, UniformRand, Zero};
use ark_poly::DenseUVPolynomial;
use std::ops::Mul;

/// naive Σ cᵢ·Pᵢ by double-and-add on each term — shares no code with the library's MSM
pub fn naive_sum(points: &[ark_bls12_381::G1Affine], coeffs: &[Fr]) -> G1Projective {
    let mut acc = G1Projective::zero();
    for (p, c) in points.iter().zip(coeffs) {
        let mut term = G1Projective::zero();
        let bits = c.into_bigint();
        let mut base = p.into_group();
        for limb in bits.as_ref() {
            let mut l = *limb;
            for _ in 0..64 {
                if l & 1 == 1 {
                    term += base;
                }
                base = base + base;
                l >>= 1;
            }
        }
        acc += term;
    }
    acc
}

pub fn run(ctx: &mut Ctx) {
    let n = ctx.n(40, 500);
    for i in 0..n {
        let id = format!("C08/kzg10/{}", i);
        if !ctx.selected(&id) {
            continue;
        }
        let mut rng = rng_for(ctx.seed, "C08/kzg10", i as u64);
        let max_degree = range(&mut rng, 1, 32);
        let trap = Trap::random(&mut rng, max_degree);
        let pp = trap.params(false);
        let supported = range(&mut rng, 1, max_degree);
        let (powers, _vk) = trim(&pp, supported);
        let (p, kind) = gen_poly(&mut rng, supported);
        let (q, _) = gen_poly(&mut rng, supported);
        let (cp, _) = Kzg::commit(&powers, &p, None, None).unwrap();
        let (cq, _) = Kzg::commit(&powers, &q, None, None).unwrap();
        // equals-spec: naive sum over the *published* key points
        if naive_sum(&powers.powers_of_g, &p.coeffs).into_affine() != cp.0 {
            ctx.rep.expect_fail(&id, "kzg10/commit-not-key-defined", "commitment differs from the naive sum over the key",
                format!("# scheme: kzg10\n# case {}\n# p={}\n", id, wire::fes(&p.coeffs)));
        }
        // homomorphism on the implementation
        let a = Fr::rand(&mut rng);
        let b = Fr::rand(&mut rng);
        let lin = &(&p * a) + &(&q * b);
        let (cl, _) = Kzg::commit(&powers, &lin, None, None).unwrap();
        if (cp.0.mul(a) + cq.0.mul(b)).into_affine() != cl.0 {
            ctx.rep.expect_fail(&id, "kzg10/not-homomorphic", "commit(a p + b q) != a commit(p) + b commit(q)",
                format!("# scheme: kzg10\n# case {}\n", id));
        }
        // the public operator `Commitment += (f, &other)` is the same linear map on commitments
        let mut acc = cp.clone();
        acc += (b, &cq);
        let lin2 = &p + &(&q * b);
        let (cl2, _) = Kzg::commit(&powers, &lin2, None, None).unwrap();
        if acc != cl2 {
            ctx.rep.expect_fail(&id, "kzg10/commitment-add-assign", "`c_p += (b, &c_q)` is not commit(p + b q)",
                format!("# scheme: kzg10\n# case {}\n# p={}\n# q={}\n# b={}\n", id, wire::fes(&p.coeffs), wire::fes(&q.coeffs), wire::fe(&b)));
        }
        // … also when the commitment added is the accumulator's own value, its negative, or the identity
        for (what, other, factor) in [("itself", cp.clone(), Fr::one() + b), ("the identity", ark_poly_commit::kzg10::Commitment::<ark_bls12_381::Bls12_381>(ark_bls12_381::G1Affine::zero()), Fr::one())] {
            let mut acc = cp.clone();
            acc += (b, &other);
            if acc.0 != cp.0.mul(factor).into_affine() {
                ctx.rep.expect_fail(&id, "kzg10/commitment-add-assign", &format!("`c += (b, &c')` with c' = {} is not c + b c'", what),
                    format!("# scheme: kzg10\n# case {}\n# p={}\n# b={}\n", id, wire::fes(&p.coeffs), wire::fe(&b)));
            }
        }
        {
            let mut acc = cp.clone();
            acc += (-Fr::one(), &cp);
            if !acc.0.is_zero() {
                ctx.rep.expect_fail(&id, "kzg10/commitment-add-assign", "`c += (-1, &c)` is not the identity",
                    format!("# scheme: kzg10\n# case {}\n# p={}\n", id, wire::fes(&p.coeffs)));
            }
        }
        // zero polynomial -> identity; leading zeros irrelevant
        let (cz, _) = Kzg::commit(&powers, &UniPoly::from_coefficients_vec(vec![Fr::zero(); 3]), None, None).unwrap();
        if !cz.0.is_zero() {
            ctx.rep.expect_fail(&id, "kzg10/zero-not-identity", "zero polynomial does not commit to the identity",
                format!("# scheme: kzg10\n# case {}\n", id));
        }
        let mut padded = p.coeffs.clone();
        padded.extend(vec![Fr::zero(); 2]);
        let (cpad, _) = Kzg::commit(&powers, &UniPoly::from_coefficients_vec(padded), None, None).unwrap();
        if cpad != cp {
            ctx.rep.expect_fail(&id, "kzg10/representation-dependent", "leading zero coefficients changed the commitment",
                format!("# scheme: kzg10\n# case {}\n", id));
        }
        // model
        let pg = trap.pg()[..=supported].to_vec();
        let pgg = trap.pgg()[..=supported].to_vec();
        let req = Req::new("kzg.commit").arg("pg", wire::fes(&pg)).arg("pgg", wire::fes(&pgg))
            .arg("p", wire::fes(&p.coeffs)).arg("hb", wire::opt_nat(None)).arg("rng", wire::boolean(false))
            .arg("draws", wire::fes::<Fr>(&[]));
        ctx.ses.ask(&id, req, ImplOutcome::Ok(vec![("c".into(), Expect::G1(cp.0)), ("blind".into(), Expect::Fes(vec![]))]));
        ctx.rep.count(&format!("kzg10/poly-{}", kind));
        ctx.rep.case(&format!("kzg10 s={} poly={} deg={}", supported, kind, p.coeffs.len()), Some(format!("kzg10/{}/{}", kind, p.coeffs.len())));
    }
    crate::props_marlin::c08_rand_arith(ctx);
    generic::c08_all(ctx);
    ctx.flush_model("C08");
}
