//! Hyrax (`ark_poly_commit::hyrax`) in trapdoor mode: the Pedersen key is built from KNOWN scalars
//! through the public fields of `HyraxUniversalParams`, the library's own commit/open/check run on
//! it, and every group element the library returns is compared with `scalar · generator` for the
//! scalar the Lean model computes.  The sponge challenges are recorded with `LogSponge`, the RNG
//! draws of `open` are obtained by replaying a clone of the RNG; the blinding of `commit` is read
//! from the returned state (under `parallel` it comes from `thread_rng`).
use crate::common::*;
use crate::wire::{self, Req, Val};
use crate::Ctx;
use ark_bls12_381::{Fr, G1Affine};
use ark_ff::{One, UniformRand, Zero};
use ark_poly::{DenseMultilinearExtension, MultilinearExtension, Polynomial};
use ark_poly_commit::hyrax::{
    HyraxCommitment, HyraxCommitmentState, HyraxPC, HyraxProof, HyraxUniversalParams,
};
use ark_poly_commit::{LabeledCommitment, LabeledPolynomial, PolynomialCommitment};
use ark_serialize::{CanonicalDeserialize, CanonicalSerialize};
use ark_std::rand::RngCore;

pub type ML = DenseMultilinearExtension<Fr>;
pub type Hx = HyraxPC<G1Affine, ML>;
pub type LPoly = LabeledPolynomial<Fr, ML>;
pub type LComm = LabeledCommitment<HyraxCommitment<G1Affine>>;
pub type HState = HyraxCommitmentState<Fr>;

pub fn pts(ss: &[Fr]) -> Vec<G1Affine> {
    if ss.is_empty() {
        vec![]
    } else {
        g1s(ss)
    }
}

pub fn dot(a: &[Fr], b: &[Fr]) -> Fr {
    a.iter().zip(b).map(|(x, y)| *x * y).sum()
}

/// The Pedersen key in scalar form.
#[derive(Clone)]
pub struct Trap {
    pub ks: Vec<Fr>,
    pub h: Fr,
}
impl Trap {
    pub fn random(rng: &mut Rng, len: usize) -> Self {
        Trap {
            ks: (0..len).map(|_| rand_nonzero(rng)).collect(),
            h: rand_nonzero(rng),
        }
    }
    pub fn params(&self) -> HyraxUniversalParams<G1Affine> {
        HyraxUniversalParams {
            com_key: pts(&self.ks),
            h: g1(self.h),
        }
    }
}

/// Mirror of the crate-private `utils::Matrix` (field order `n, m, entries`).
#[derive(Clone, Debug, PartialEq, CanonicalSerialize, CanonicalDeserialize)]
pub struct MatMirror {
    pub n: usize,
    pub m: usize,
    pub entries: Vec<Vec<Fr>>,
}
/// Mirror of `HyraxCommitmentState` (field order `randomness, mat`).
#[derive(Clone, Debug, PartialEq, CanonicalSerialize, CanonicalDeserialize)]
pub struct StateMirror {
    pub randomness: Vec<Fr>,
    pub mat: MatMirror,
}

pub fn read_state(st: &HState) -> Result<StateMirror, String> {
    let mut buf = vec![];
    st.serialize_uncompressed(&mut buf).map_err(|e| format!("state serialize: {:?}", e))?;
    let m = StateMirror::deserialize_uncompressed(&buf[..]).map_err(|e| format!("state mirror layout: {:?}", e))?;
    // the mirror must re-serialize to the same bytes (layout check)
    let mut buf2 = vec![];
    m.serialize_uncompressed(&mut buf2).map_err(|e| format!("{:?}", e))?;
    if buf != buf2 {
        return Err("state mirror does not round-trip".into());
    }
    Ok(m)
}

pub fn make_state(m: &StateMirror) -> Result<HState, String> {
    let mut buf = vec![];
    m.serialize_uncompressed(&mut buf).map_err(|e| format!("{:?}", e))?;
    HState::deserialize_uncompressed(&buf[..]).map_err(|e| format!("state rebuild: {:?}", e))
}

/// A proof in scalar form.
#[derive(Clone, Debug, PartialEq)]
pub struct ProofS {
    pub ce: Fr,
    pub cd: Fr,
    pub cb: Fr,
    pub z: Vec<Fr>,
    pub z_d: Fr,
    pub z_b: Fr,
    pub r_eval: Fr,
}
impl ProofS {
    pub fn to_lib(&self) -> HyraxProof<G1Affine> {
        HyraxProof {
            com_eval: g1(self.ce),
            com_d: g1(self.cd),
            com_b: g1(self.cb),
            z: self.z.clone(),
            z_d: self.z_d,
            z_b: self.z_b,
            r_eval: self.r_eval,
        }
    }
}

/// `L`, `R` of the opening at `point` (through the crate's own `tensor_prime`, which the model's
/// `tensorPrime` is compared with separately).
pub fn tensors(point: &[Fr]) -> (Vec<Fr>, Vec<Fr>) {
    let n = point.len();
    let rev: Vec<Fr> = point.iter().rev().cloned().collect();
    let l = ark_poly_commit::verif_hooks::tensor_prime(&rev[n / 2..]);
    let r = ark_poly_commit::verif_hooks::tensor_prime(&rev[..n / 2]);
    (l, r)
}

pub fn poly_kind(rng: &mut Rng, nv: usize, kind: usize) -> (ML, &'static str) {
    let size = 1usize << nv;
    match kind {
        0 => (ML::from_evaluations_vec(nv, vec![Fr::zero(); size]), "zero"),
        1 => {
            let c = Fr::rand(rng);
            (ML::from_evaluations_vec(nv, vec![c; size]), "constant")
        }
        2 => {
            let mut e = vec![Fr::zero(); size];
            for _ in 0..2 {
                let i = range(rng, 0, size - 1);
                e[i] = Fr::rand(rng);
            }
            (ML::from_evaluations_vec(nv, e), "sparse")
        }
        3 => {
            // small integers: unequal rows / columns, easy to read in a replay
            let e = (0..size).map(|i| Fr::from((i + 1) as u64)).collect();
            (ML::from_evaluations_vec(nv, e), "counting")
        }
        _ => (ML::rand(nv, rng), "random"),
    }
}

pub fn rand_point(rng: &mut Rng, nv: usize) -> (Vec<Fr>, &'static str) {
    match range(rng, 0, 7) {
        0 => ((0..nv).map(|_| if coin(rng) { Fr::one() } else { Fr::zero() }).collect(), "boolean"),
        1 => (vec![Fr::zero(); nv], "origin"),
        _ => ((0..nv).map(|_| Fr::rand(rng)).collect(), "random"),
    }
}

/// Commitments of `k` polynomials under one trapdoor key.
pub struct Case {
    pub trap: Trap,
    pub nv: usize,
    pub dim: usize,
    pub polys: Vec<LPoly>,
    pub kinds: Vec<&'static str>,
    pub coms: Vec<LComm>,
    pub states: Vec<HState>,
    pub mirrors: Vec<StateMirror>,
    /// scalars of the row commitments, computed from the trapdoor and CHECKED against the points
    pub com_s: Vec<Vec<Fr>>,
}

impl Case {
    pub fn desc(&self) -> String {
        format!("hyrax nv={} k={} kinds={:?}", self.nv, self.polys.len(), self.kinds)
    }
    pub fn labels(&self) -> Vec<String> {
        self.polys.iter().map(|p| p.label().clone()).collect()
    }
    pub fn evals(&self, i: usize) -> Vec<Fr> {
        self.polys[i].polynomial().evaluations.clone()
    }
    pub fn replay(&self, id: &str, seed: u64, extra: &str) -> String {
        let mut s = format!(
            "# scheme: hyrax\n# case: {}\n# seed: {}\n# {}\n# key ks={} h={}\n",
            id,
            seed,
            self.desc(),
            wire::fes(&self.trap.ks),
            wire::fe(&self.trap.h)
        );
        for (i, p) in self.polys.iter().enumerate() {
            if p.polynomial().evaluations.len() <= 64 {
                s.push_str(&format!("# evals[{}]={}\n", i, wire::fes(&p.polynomial().evaluations)));
            }
        }
        s.push_str(&format!(
            "# {}\n# rerun: .build/cargo/debug/pcv-harness {} --seed {} --only {}\n",
            extra,
            id.split('/').next().unwrap_or(""),
            seed,
            id
        ));
        s
    }
}

/// scalars of the row commitments defined by the key: `⟨M_r, ks⟩ + ρ_r·h`
pub fn row_scalars(trap: &Trap, st: &StateMirror) -> Vec<Fr> {
    st.mat
        .entries
        .iter()
        .zip(&st.randomness)
        .map(|(row, rho)| dot(row, &trap.ks) + trap.h * rho)
        .collect()
}

pub fn commit_lib(trap: &Trap, polys: &[LPoly], rng: &mut Rng) -> Result<(Vec<LComm>, Vec<HState>), String> {
    let ck = trap.params();
    match guarded(|| Hx::commit(&ck, polys.iter(), Some(rng as &mut dyn RngCore))) {
        Ok(Ok(x)) => Ok(x),
        Ok(Err(e)) => Err(err_kind(&e)),
        Err(a) => Err(a),
    }
}

pub fn gen_case_with(rng: &mut Rng, nv: usize, kinds: &[usize]) -> Result<Case, String> {
    let dim = 1usize << (nv / 2);
    let trap = Trap::random(rng, dim);
    let mut polys = vec![];
    let mut knames = vec![];
    for (i, k) in kinds.iter().enumerate() {
        let (p, name) = poly_kind(rng, nv, *k);
        polys.push(LabeledPolynomial::new(format!("p{}", i), p, Some(1), None));
        knames.push(name);
    }
    let (coms, states) = commit_lib(&trap, &polys, rng)?;
    let mut mirrors = vec![];
    let mut com_s = vec![];
    for (c, st) in coms.iter().zip(&states) {
        let m = read_state(st)?;
        let s = row_scalars(&trap, &m);
        if pts(&s) != c.commitment().row_coms {
            return Err("commitment-not-key-defined".into());
        }
        com_s.push(s);
        mirrors.push(m);
    }
    Ok(Case { trap, nv, dim, polys, kinds: knames, coms, states, mirrors, com_s })
}

/// `hyrax.commit` of the model against the library's commitments and states.
pub fn ask_commit(ctx: &mut Ctx, id: &str, c: &Case) {
    let draws: Vec<Fr> = c.mirrors.iter().flat_map(|m| m.randomness.clone()).collect();
    let req = Req::new("hyrax.commit")
        .arg("ks", wire::fes(&c.trap.ks))
        .arg("h", wire::fe(&c.trap.h))
        .arg("nvs", wire::nats(&vec![c.nv; c.polys.len()]))
        .arg("evals", wire::fess(&(0..c.polys.len()).map(|i| c.evals(i)).collect::<Vec<_>>()))
        .arg("draws", wire::fes(&draws));
    let rows: Vec<G1Affine> = c.coms.iter().flat_map(|x| x.commitment().row_coms.clone()).collect();
    ctx.ses.ask(
        id,
        req,
        ImplOutcome::Ok(vec![
            ("rows".into(), Expect::G1s(rows)),
            ("lens".into(), Expect::Nats(c.coms.iter().map(|x| x.commitment().row_coms.len()).collect())),
            ("rands".into(), Expect::Raw(wire::fess(&c.mirrors.iter().map(|m| m.randomness.clone()).collect::<Vec<_>>()))),
            ("mat_n".into(), Expect::Nats(c.mirrors.iter().map(|m| m.mat.n).collect())),
            ("mat_m".into(), Expect::Nats(c.mirrors.iter().map(|m| m.mat.m).collect())),
            ("mats".into(), Expect::Raw(Val::L(c.mirrors.iter().map(|m| wire::fess(&m.mat.entries)).collect()))),
            ("used".into(), Expect::Nat(draws.len())),
        ]),
    );
}

/// The result of one `open` call of the library.
pub struct Opened {
    pub point: Vec<Fr>,
    pub proofs: Vec<HyraxProof<G1Affine>>,
    /// the RNG draws of the call (replayed): `dim + 3` per polynomial
    pub draws: Vec<Fr>,
    /// the prover's squeezed challenges
    pub cs: Vec<Fr>,
    pub sponge: LogSponge,
    /// scalar form; the three commitments are recomputed from the trapdoor and CHECKED
    pub proofs_s: Vec<ProofS>,
}

/// Run `HyraxPC::open` on explicit lists (so that states / commitments of other polynomials can be
/// passed), replay its RNG draws and put the proofs in scalar form.
pub fn open_lib(
    trap: &Trap,
    polys: &[LPoly],
    coms: &[LComm],
    states: &[HState],
    point: &[Fr],
    rng: &mut Rng,
) -> Result<Opened, String> {
    open_lib_on(trap, polys, coms, states, point, rng, LogSponge::fresh())
}

/// `open_lib` on a given sponge (its log must be empty: the challenges of THIS call are read off it)
pub fn open_lib_on(
    trap: &Trap,
    polys: &[LPoly],
    coms: &[LComm],
    states: &[HState],
    point: &[Fr],
    rng: &mut Rng,
    sponge: LogSponge,
) -> Result<Opened, String> {
    let ck = trap.params();
    let pt: Vec<Fr> = point.to_vec();
    let mut replay = rng.clone();
    let mut sponge = sponge;
    let proofs = match guarded(|| {
        Hx::open(&ck, polys.iter(), coms.iter(), &pt, &mut sponge, states.iter(), Some(rng as &mut dyn RngCore))
    }) {
        Ok(Ok(p)) => p,
        Ok(Err(e)) => return Err(err_kind(&e)),
        Err(a) => return Err(a),
    };
    let dim = 1usize << (point.len() / 2);
    let k = proofs.len();
    let draws: Vec<Fr> = (0..k * (dim + 3)).map(|_| Fr::rand(&mut replay)).collect();
    // the replayed clone must now be in the same state as the caller's RNG
    if replay.clone().next_u64() != rng.clone().next_u64() {
        return Err("rng-replay-misaligned: open did not draw exactly (dim+3) field elements per polynomial".into());
    }
    let cs = sponge.challenges();
    if cs.len() != k {
        return Err(format!("prover squeezed {} challenges for {} polynomials", cs.len(), k));
    }
    let mut proofs_s = vec![];
    for (i, p) in proofs.iter().enumerate() {
        let st = read_state(&states[i])?;
        proofs_s.push(scalar_proof(trap, &st, point, &draws[i * (dim + 3)..(i + 1) * (dim + 3)], p)?);
    }
    Ok(Opened { point: pt, proofs, draws, cs, sponge, proofs_s })
}


/// The scalar form of one proof of the library: the three commitments are recomputed from the
/// trapdoor, the state and the replayed draws `r_eval, d, r_d, r_b` of that proof, and CHECKED
/// against the points the library returned.
pub fn scalar_proof(trap: &Trap, st: &StateMirror, point: &[Fr], dr: &[Fr], p: &HyraxProof<G1Affine>) -> Result<ProofS, String> {
    let dim = 1usize << (point.len() / 2);
    let (l, r) = tensors(point);
    let r_eval = dr[0];
    let d = &dr[1..1 + dim];
    let r_d = dr[dim + 1];
    let r_b = dr[dim + 2];
    let lt: Vec<Fr> = (0..st.mat.m)
        .map(|col| (0..st.mat.n).map(|row| l[row] * st.mat.entries[row][col]).sum())
        .collect();
    let eval = dot(&lt, &r);
    let ce = trap.ks[0] * eval + trap.h * r_eval;
    let cd = dot(&trap.ks, d) + trap.h * r_d;
    let cb = trap.ks[0] * dot(&r, d) + trap.h * r_b;
    if g1(ce) != p.com_eval || g1(cd) != p.com_d || g1(cb) != p.com_b {
        return Err("proof-element-not-key-defined".into());
    }
    Ok(ProofS { ce, cd, cb, z: p.z.clone(), z_d: p.z_d, z_b: p.z_b, r_eval: p.r_eval })
}

/// `hyrax.open` of the model against every component of the library's proofs.
pub fn ask_open(
    ctx: &mut Ctx,
    id: &str,
    trap: &Trap,
    plabels: &[String],
    clabels: &[String],
    nvs: &[usize],
    mirrors: &[StateMirror],
    o: &Opened,
) {
    let req = Req::new("hyrax.open")
        .arg("ks", wire::fes(&trap.ks))
        .arg("h", wire::fe(&trap.h))
        .arg("plabels", Val::L(plabels.iter().map(|l| wire::label(l)).collect()))
        .arg("clabels", Val::L(clabels.iter().map(|l| wire::label(l)).collect()))
        .arg("nvs", wire::nats(nvs))
        .arg("rands", wire::fess(&mirrors.iter().map(|m| m.randomness.clone()).collect::<Vec<_>>()))
        .arg("mat_n", wire::nats(&mirrors.iter().map(|m| m.mat.n).collect::<Vec<_>>()))
        .arg("mat_m", wire::nats(&mirrors.iter().map(|m| m.mat.m).collect::<Vec<_>>()))
        .arg("mats", Val::L(mirrors.iter().map(|m| wire::fess(&m.mat.entries)).collect()))
        .arg("point", wire::fes(&o.point))
        .arg("draws", wire::fes(&o.draws))
        .arg("cs", wire::fes(&o.cs));
    let ps = &o.proofs;
    ctx.ses.ask(
        id,
        req,
        ImplOutcome::Ok(vec![
            ("k".into(), Expect::Nat(ps.len())),
            ("com_eval".into(), Expect::G1s(ps.iter().map(|p| p.com_eval).collect())),
            ("com_d".into(), Expect::G1s(ps.iter().map(|p| p.com_d).collect())),
            ("com_b".into(), Expect::G1s(ps.iter().map(|p| p.com_b).collect())),
            ("zs".into(), Expect::Raw(wire::fess(&ps.iter().map(|p| p.z.clone()).collect::<Vec<_>>()))),
            ("z_d".into(), Expect::Fes(ps.iter().map(|p| p.z_d).collect())),
            ("z_b".into(), Expect::Fes(ps.iter().map(|p| p.z_b).collect())),
            ("r_eval".into(), Expect::Fes(ps.iter().map(|p| p.r_eval).collect())),
        ]),
    );
}

/// A verifier input entirely in scalar form (so that mutations are seen identically by the model).
#[derive(Clone)]
pub struct Stmt {
    pub ks: Vec<Fr>,
    pub h: Fr,
    pub coms: Vec<Vec<Fr>>,
    pub point: Vec<Fr>,
    pub values: Vec<Fr>,
    pub proofs: Vec<ProofS>,
}

#[derive(Clone, Copy, Debug, PartialEq, Eq)]
pub enum Dec {
    Accept,
    Reject,
    Refuse,
}

pub struct Checked {
    pub dec: Dec,
    pub sponge: LogSponge,
    pub detail: String,
}

/// Run the library's `check` on the statement and queue the model's `hyrax.check` with the
/// challenges the verifier's sponge produced.
pub fn run_check(ctx: &mut Ctx, id: &str, st: &Stmt) -> Checked {
    run_check_on(ctx, id, st, LogSponge::fresh())
}

/// `run_check` on a given sponge (its log must be empty)
pub fn run_check_on(ctx: &mut Ctx, id: &str, st: &Stmt, sponge: LogSponge) -> Checked {
    let vk = HyraxUniversalParams { com_key: pts(&st.ks), h: g1(st.h) };
    let lcoms: Vec<LComm> = st
        .coms
        .iter()
        .enumerate()
        .map(|(i, rows)| LabeledCommitment::new(format!("p{}", i), HyraxCommitment { row_coms: pts(rows) }, Some(1)))
        .collect();
    let proofs: Vec<HyraxProof<G1Affine>> = st.proofs.iter().map(|p| p.to_lib()).collect();
    let mut sponge = sponge;
    let res = guarded(|| Hx::check(&vk, lcoms.iter(), &st.point, st.values.clone(), &proofs, &mut sponge, None));
    let (out, dec, detail) = match res {
        Ok(Ok(b)) => (
            ImplOutcome::Ok(vec![("b".into(), Expect::Bool(b))]),
            if b { Dec::Accept } else { Dec::Reject },
            format!("Ok({})", b),
        ),
        Ok(Err(e)) => (ImplOutcome::Refuse(err_kind(&e)), Dec::Refuse, format!("Err({})", err_kind(&e))),
        Err(a) => (ImplOutcome::Refuse(a.clone()), Dec::Refuse, a),
    };
    let cs = sponge.challenges();
    let req = Req::new("hyrax.check")
        .arg("ks", wire::fes(&st.ks))
        .arg("h", wire::fe(&st.h))
        .arg("coms", wire::fess(&st.coms))
        .arg("point", wire::fes(&st.point))
        .arg("values", wire::fes(&st.values))
        .arg("com_eval", wire::fes(&st.proofs.iter().map(|p| p.ce).collect::<Vec<_>>()))
        .arg("com_d", wire::fes(&st.proofs.iter().map(|p| p.cd).collect::<Vec<_>>()))
        .arg("com_b", wire::fes(&st.proofs.iter().map(|p| p.cb).collect::<Vec<_>>()))
        .arg("zs", wire::fess(&st.proofs.iter().map(|p| p.z.clone()).collect::<Vec<_>>()))
        .arg("z_d", wire::fes(&st.proofs.iter().map(|p| p.z_d).collect::<Vec<_>>()))
        .arg("z_b", wire::fes(&st.proofs.iter().map(|p| p.z_b).collect::<Vec<_>>()))
        .arg("r_eval", wire::fes(&st.proofs.iter().map(|p| p.r_eval).collect::<Vec<_>>()))
        .arg("cs", wire::fes(&cs));
    ctx.ses.ask(id, req, out);
    Checked { dec, sponge, detail }
}

/// honest statement of a case opened at `o.point`
pub fn honest_stmt(c: &Case, o: &Opened) -> Stmt {
    let values = c.polys.iter().map(|p| p.polynomial().evaluate(&o.point)).collect();
    Stmt {
        ks: c.trap.ks.clone(),
        h: c.trap.h,
        coms: c.com_s.clone(),
        point: o.point.clone(),
        values,
        proofs: o.proofs_s.clone(),
    }
}


// ------------------------------------------------------------------------------------------------
// C11: the recorded sponge log in the model's event vocabulary
// ------------------------------------------------------------------------------------------------

/// the bytes `serialize_to_vec!` produces for a group element (uncompressed)
pub fn g1_bytes(p: &G1Affine) -> Vec<u8> {
    let mut b = vec![];
    p.serialize_uncompressed(&mut b).unwrap();
    b
}

/// scalars of every group element a case can absorb, keyed by the element's compressed bytes
pub struct Dict(pub std::collections::HashMap<Vec<u8>, Fr>);
impl Dict {
    pub fn new() -> Self {
        Dict(std::collections::HashMap::new())
    }
    pub fn add(&mut self, ss: &[Fr]) {
        if ss.is_empty() {
            return;
        }
        for (s, p) in ss.iter().zip(g1s(ss)) {
            self.0.insert(g1_bytes(&p), *s);
        }
    }
}

fn ev(tag: usize, rest: Vec<Val>) -> Val {
    let mut v = vec![wire::nat(tag)];
    v.extend(rest);
    Val::L(v)
}

/// One absorbed byte string, decoded by STRUCTURE only (no knowledge of the protocol): a single
/// known group element `[1,s]`; a length-prefixed vector of known group elements `[2,[s..]]`; such a
/// vector followed by one more element (the serialized key) `[3,[s..],h]`; a concatenation of
/// canonical field elements `[4,[x..]]`; anything else `[9,bytes]`.
pub fn decode_absorb(b: &[u8], dict: &Dict) -> Val {
    let g = g1_bytes(&g1(Fr::one())).len();
    if b.len() == g {
        if let Some(s) = dict.0.get(b) {
            return ev(1, vec![wire::fe(s)]);
        }
    }
    if b.len() >= 8 {
        let n = u64::from_le_bytes(b[..8].try_into().unwrap()) as usize;
        let body = &b[8..];
        let parse = |bytes: &[u8]| -> Option<Vec<Fr>> { bytes.chunks(g).map(|c| dict.0.get(c).cloned()).collect() };
        if n.checked_mul(g) == Some(body.len()) {
            if let Some(ss) = parse(body) {
                return ev(2, vec![wire::fes(&ss)]);
            }
        }
        if n.checked_mul(g).and_then(|x| x.checked_add(g)) == Some(body.len()) {
            if let (Some(ss), Some(h)) = (parse(&body[..n * g]), dict.0.get(&body[n * g..])) {
                return ev(3, vec![wire::fes(&ss), wire::fe(h)]);
            }
        }
    }
    let f = Fr::zero().compressed_size();
    if b.len() % f == 0 {
        let xs: Option<Vec<Fr>> = b.chunks(f).map(|c| Fr::deserialize_compressed(c).ok()).collect();
        if let Some(xs) = xs {
            return ev(4, vec![wire::fes(&xs)]);
        }
    }
    ev(9, vec![Val::L(b.iter().map(|x| wire::nat(*x as usize)).collect())])
}

/// the recorded log in the wire form of the model's events
pub fn decode_log(log: &[Event], dict: &Dict) -> Val {
    Val::L(
        log.iter()
            .map(|e| match e {
                Event::Absorb(b) => decode_absorb(b, dict),
                Event::SqueezeFe(sizes, _) if sizes.iter().all(|s| s.is_none()) => ev(10, vec![wire::nat(sizes.len())]),
                Event::SqueezeFe(sizes, _) => ev(12, vec![wire::nat(sizes.len())]),
                Event::SqueezeBytes(n, _) => ev(11, vec![wire::nat(*n)]),
                Event::SqueezeBits(n) => ev(13, vec![wire::nat(*n)]),
            })
            .collect(),
    )
}

/// the answers of the field squeezes of a log, in order (`sq=` of `hyrax.transcript`)
pub fn squeezed(log: &LogSponge) -> Val {
    use std::str::FromStr;
    Val::L(
        log.log
            .iter()
            .filter_map(|e| match e {
                Event::SqueezeFe(_, outs) => Some(wire::fes(&outs.iter().map(|o| Fr::from_str(o).unwrap()).collect::<Vec<_>>())),
                Event::SqueezeBytes(..) | Event::SqueezeBits(..) => Some(Val::L(vec![])),
                _ => None,
            })
            .collect(),
    )
}

pub fn proof_args(req: Req, ps: &[ProofS]) -> Req {
    req.arg("com_eval", wire::fes(&ps.iter().map(|p| p.ce).collect::<Vec<_>>()))
        .arg("com_d", wire::fes(&ps.iter().map(|p| p.cd).collect::<Vec<_>>()))
        .arg("com_b", wire::fes(&ps.iter().map(|p| p.cb).collect::<Vec<_>>()))
        .arg("zs", wire::fess(&ps.iter().map(|p| p.z.clone()).collect::<Vec<_>>()))
        .arg("z_d", wire::fes(&ps.iter().map(|p| p.z_d).collect::<Vec<_>>()))
        .arg("z_b", wire::fes(&ps.iter().map(|p| p.z_b).collect::<Vec<_>>()))
        .arg("r_eval", wire::fes(&ps.iter().map(|p| p.r_eval).collect::<Vec<_>>()))
}

pub fn state_args(req: Req, mirrors: &[StateMirror]) -> Req {
    req.arg("rands", wire::fess(&mirrors.iter().map(|m| m.randomness.clone()).collect::<Vec<_>>()))
        .arg("mat_n", wire::nats(&mirrors.iter().map(|m| m.mat.n).collect::<Vec<_>>()))
        .arg("mat_m", wire::nats(&mirrors.iter().map(|m| m.mat.m).collect::<Vec<_>>()))
        .arg("mats", Val::L(mirrors.iter().map(|m| wire::fess(&m.mat.entries)).collect()))
}

pub fn labels_val(ls: &[String]) -> Val {
    Val::L(ls.iter().map(|l| wire::label(l)).collect())
}
