//! Property C12 — serialization (DESIGN §5, C12): every serializable artefact of every scheme
//! round-trips (compressed / uncompressed × validated / not), reports the number of bytes it writes,
//! verification with deserialized keys / commitments / proofs decides like the originals, every
//! proper prefix of an encoding is refused.  For the hand-written impls the byte string is also
//! compared with the per-field encodings put together in the order of the *generated* schema
//! (`translators/ser_schema.py` → `Generated/SerSchemas.lean` + `.build/run/ser_schemas.txt`), both
//! locally and by the Lean model (`c12.layout`).
use crate::common::*;
use crate::generic::{self, Instance, Outcome, Scheme};
use crate::kzg;
use crate::wire::{self, Req, Val};
use crate::Ctx;
use ark_bls12_381::{Bls12_381, Fr};
use ark_ff::UniformRand;
use ark_poly::{DenseMultilinearExtension, MultilinearExtension, Polynomial};
use ark_poly_commit::{
    kzg10, marlin_pst13_pc, multilinear_pc, sonic_pc, BatchLCProof, Evaluations, LabeledCommitment,
    LinearCombination, PolynomialCommitment, QuerySet,
};
use ark_serialize::{CanonicalDeserialize, CanonicalSerialize, Compress, Validate};
use std::any::Any;

type Pt<S> = <<S as Scheme>::P as Polynomial<Fr>>::Point;
type PCof<S> = <S as Scheme>::PC;
type Comm<S> = <PCof<S> as PolynomialCommitment<Fr, <S as Scheme>::P>>::Commitment;
type State<S> = <PCof<S> as PolynomialCommitment<Fr, <S as Scheme>::P>>::CommitmentState;
type CK<S> = <PCof<S> as PolynomialCommitment<Fr, <S as Scheme>::P>>::CommitterKey;
type VK<S> = <PCof<S> as PolynomialCommitment<Fr, <S as Scheme>::P>>::VerifierKey;
type PP<S> = <PCof<S> as PolynomialCommitment<Fr, <S as Scheme>::P>>::UniversalParams;
type BProof<S> = <PCof<S> as PolynomialCommitment<Fr, <S as Scheme>::P>>::BatchProof;
type SProof<S> = <PCof<S> as PolynomialCommitment<Fr, <S as Scheme>::P>>::Proof;

const COMPRESS: [(Compress, &str); 2] = [(Compress::Yes, "compressed"), (Compress::No, "uncompressed")];
const VALIDATE: [(Validate, &str); 2] = [(Validate::Yes, "validate"), (Validate::No, "novalidate")];

// ------------------------------------------------------------------------------------------------
// serialization helpers
// ------------------------------------------------------------------------------------------------
fn ser_mode<T: CanonicalSerialize + ?Sized>(x: &T, c: Compress) -> Result<Vec<u8>, String> {
    match guarded(|| {
        let mut v = vec![];
        x.serialize_with_mode(&mut v, c).map(|_| v)
    }) {
        Ok(Ok(v)) => Ok(v),
        Ok(Err(e)) => Err(format!("{:?}", e)),
        Err(a) => Err(a),
    }
}

/// deserialize from a byte slice; also returns how many bytes were left unread
fn deser_mode<T: CanonicalDeserialize>(bytes: &[u8], c: Compress, v: Validate) -> Result<(T, usize), String> {
    match guarded(|| {
        let mut rd: &[u8] = bytes;
        T::deserialize_with_mode(&mut rd, c, v).map(|y| (y, rd.len()))
    }) {
        Ok(Ok(p)) => Ok(p),
        Ok(Err(e)) => Err(format!("{:?}", e)),
        Err(a) => Err(a),
    }
}

fn hex(b: &[u8]) -> String {
    let mut s = String::new();
    for x in b.iter().take(96) {
        s.push_str(&format!("{:02x}", x));
    }
    if b.len() > 96 {
        s.push_str("..");
    }
    s
}

/// the cut points at which prefixes are tried: all of them for short strings, otherwise the ends,
/// the neighbourhood of the length prefixes, the given field boundaries (±1) and a random sample
fn cut_points(rng: &mut Rng, len: usize, boundaries: &[usize]) -> Vec<usize> {
    if len <= 300 {
        return (0..len).collect();
    }
    let mut cuts: Vec<usize> = vec![0, 1, 2, 7, 8, 9, 15, 16, 17, len / 2, len - 2, len - 1];
    for &b in boundaries {
        for d in [-1i64, 0, 1] {
            let c = b as i64 + d;
            if c >= 0 && (c as usize) < len {
                cuts.push(c as usize);
            }
        }
    }
    for _ in 0..48 {
        cuts.push(range(rng, 0, len - 1));
    }
    cuts.sort();
    cuts.dedup();
    cuts.retain(|c| *c < len);
    cuts
}

/// deserialized copies of one artefact: (compressed, validated) and (uncompressed, not validated)
struct Copies<T> {
    cv: Option<T>,
    un: Option<T>,
}

/// All byte-level checks of C12 on one artefact.
fn artefact<T: CanonicalSerialize + CanonicalDeserialize>(
    rep: &mut Report,
    rng: &mut Rng,
    id: &str,
    scheme: &str,
    what: &str,
    x: &T,
    boundaries: &[Vec<usize>; 2],
) -> Copies<T> {
    let mut copies = Copies { cv: None, un: None };
    for (ci, (c, cname)) in COMPRESS.iter().enumerate() {
        let aid = format!("{}/{}/{}", id, what, cname);
        let sig = |k: &str| format!("{}/{}/{}", scheme, what.split('#').next().unwrap_or(what), k);
        let replay = |extra: &str, bytes: &[u8]| {
            format!(
                "# property C12\n# scheme: {}\n# artefact: {} ({})\n# case: {}\n# {}\n# bytes[{}]: {}\n# rerun: .build/cargo/debug/pcv-harness C12 --only {}\n",
                scheme, what, cname, aid, extra, bytes.len(), hex(bytes), id
            )
        };
        let bytes = match ser_mode(x, *c) {
            Ok(b) => b,
            Err(e) => {
                rep.expect_fail(&aid, &sig("serialize-failed"), &format!("serialization of an honest {} failed: {}", what, e), replay(&e, &[]));
                rep.case(&format!("{} {} {} serialize failed", scheme, what, cname), None);
                continue;
            }
        };
        // reported size
        match guarded(|| x.serialized_size(*c)) {
            Ok(n) if n == bytes.len() => {}
            Ok(n) => rep.expect_fail(&aid, &sig("size-mismatch"),
                &format!("serialized_size({}) = {} but {} bytes were written", cname, n, bytes.len()),
                replay(&format!("serialized_size={} written={}", n, bytes.len()), &bytes)),
            Err(a) => rep.expect_fail(&aid, &sig("size-aborted"), &format!("serialized_size aborted: {}", a), replay(&a, &bytes)),
        }
        // round trip in both validation modes
        for (v, vname) in VALIDATE.iter() {
            match deser_mode::<T>(&bytes, *c, *v) {
                Ok((y, left)) => {
                    if left != 0 {
                        rep.expect_fail(&aid, &sig("bytes-left-unread"),
                            &format!("deserialization ({}) left {} of {} bytes unread", vname, left, bytes.len()),
                            replay(&format!("{} left={}", vname, left), &bytes));
                    }
                    match ser_mode(&y, *c) {
                        Ok(b2) if b2 == bytes => {}
                        Ok(b2) => {
                            let at = b2.iter().zip(bytes.iter()).position(|(a, b)| a != b).unwrap_or(b2.len().min(bytes.len()));
                            rep.expect_fail(&aid, &sig("reserialization-differs"),
                                &format!("ser(deser(ser x)) != ser x ({}): lengths {} vs {}, first difference at byte {}", vname, b2.len(), bytes.len(), at),
                                replay(&format!("{} reserialized[{}]: {}", vname, b2.len(), hex(&b2)), &bytes));
                        }
                        Err(e) => rep.expect_fail(&aid, &sig("reserialization-failed"),
                            &format!("deserialized value does not serialize ({}): {}", vname, e), replay(&e, &bytes)),
                    }
                    match (ci, matches!(v, Validate::Yes)) {
                        (0, true) => copies.cv = Some(y),
                        (1, false) => copies.un = Some(y),
                        _ => {}
                    }
                }
                Err(e) => rep.expect_fail(&aid, &sig("roundtrip-refused"),
                    &format!("deserialization ({}, {}) of an honest encoding failed: {}", cname, vname, e),
                    replay(&format!("{}: {}", vname, e), &bytes)),
            }
        }
        // an encoding followed by other data: the value is the same and exactly the rest is left
        {
            let mut ext = bytes.clone();
            ext.extend_from_slice(&[0xAB, 0xCD, 0xEF]);
            match deser_mode::<T>(&ext, *c, Validate::No) {
                Ok((y, left)) => {
                    let same = ser_mode(&y, *c).map(|b| b == bytes).unwrap_or(false);
                    if left != 3 || !same {
                        rep.expect_fail(&aid, &sig("framing"),
                            &format!("deserializing enc ‖ rest left {} bytes (expected 3) / same value: {}", left, same),
                            replay("encoding followed by ab cd ef", &bytes));
                    }
                }
                Err(e) => rep.expect_fail(&aid, &sig("framing"),
                    &format!("deserializing enc ‖ rest failed: {}", e), replay("encoding followed by ab cd ef", &bytes)),
            }
        }
        // proper prefixes
        let cuts = cut_points(rng, bytes.len(), &boundaries[ci]);
        let all = bytes.len() <= 300;
        let mut parsed: Option<(usize, &str)> = None;
        let mut tried = 0usize;
        for (k, &cut) in cuts.iter().enumerate() {
            for (v, vname) in VALIDATE.iter() {
                if !all && matches!(v, Validate::Yes) && k % 4 != 0 {
                    continue;
                }
                tried += 1;
                if deser_mode::<T>(&bytes[..cut], *c, *v).is_ok() && parsed.is_none() {
                    parsed = Some((cut, vname));
                }
            }
        }
        if let Some((cut, vname)) = parsed {
            rep.expect_fail(&aid, &sig("prefix-parsed"),
                &format!("the first {} of {} bytes deserialize successfully ({}, {})", cut, bytes.len(), cname, vname),
                replay(&format!("prefix length {} parses ({})", cut, vname), &bytes));
        }
        rep.count(&format!("{}/{}", scheme, what.split('#').next().unwrap_or(what)));
        rep.count(&format!("prefixes-tried/{}", if all { "all" } else { "sampled" }));
        rep.count(&format!("size/{}", match bytes.len() { 0 => "0", 1..=99 => "<100", 100..=999 => "<1k", 1000..=9999 => "<10k", _ => ">=10k" }));
        rep.case(
            &format!("{} {} {} len={} prefixes={}", scheme, what, cname, bytes.len(), tried),
            if bytes.len() > 8 { Some(format!("{}/{}/{}/{}", scheme, what.split('#').next().unwrap_or(what), cname, bytes.len())) } else { None },
        );
    }
    copies
}

const NOB: [Vec<usize>; 2] = [Vec::new(), Vec::new()];

// ------------------------------------------------------------------------------------------------
// byte layout of the hand-written impls against the generated schema
// ------------------------------------------------------------------------------------------------
#[derive(Clone, Debug)]
struct SchemaTxt {
    idx: usize,
    name: String,
    fields: Vec<String>,
    written: Vec<String>,
    sized: Vec<String>,
}

fn load_schemas(ctx: &mut Ctx) -> Vec<SchemaTxt> {
    let path = format!("{}/ser_schemas.txt", ctx.workdir);
    if !std::path::Path::new(&path).exists() {
        // stand-alone run of the harness: ask T1 for it
        let _ = std::process::Command::new("python3")
            .arg("/verif/translators/ser_schema.py")
            .arg("--quiet")
            .arg("--txt")
            .arg(&path)
            .status();
    }
    let text = std::fs::read_to_string(&path).unwrap_or_default();
    let mut out = vec![];
    let mut cur: Option<SchemaTxt> = None;
    for line in text.lines() {
        let mut it = line.split_whitespace();
        let words = |it: std::str::SplitWhitespace| it.map(|s| s.to_string()).collect::<Vec<_>>();
        match it.next() {
            Some("schema") => {
                let idx = it.next().and_then(|s| s.parse().ok()).unwrap_or(usize::MAX);
                let name = it.next().unwrap_or("").to_string();
                cur = Some(SchemaTxt { idx, name, fields: vec![], written: vec![], sized: vec![] });
            }
            Some("fields") => if let Some(c) = cur.as_mut() { c.fields = words(it) },
            Some("written") => if let Some(c) = cur.as_mut() { c.written = words(it) },
            Some("sized") => if let Some(c) = cur.as_mut() { c.sized = words(it) },
            Some("end") => if let Some(c) = cur.take() { out.push(c) },
            _ => {}
        }
    }
    if out.is_empty() {
        ctx.rep.model_disagreements.push(Failure {
            case_id: "C12/schemas".into(),
            signature: "layout/no-generated-schemas".into(),
            what: format!("{} is missing or empty: the generated schemas (T1) are not available", path),
            replay: format!("# run: python3 /verif/translators/ser_schema.py\n# expected file: {}\n", path),
        });
    }
    out
}

fn layout_break(ctx: &mut Ctx, id: &str, name: &str, what: String) {
    ctx.rep.model_disagreements.push(Failure {
        case_id: id.to_string(),
        signature: format!("layout/{}", name),
        what: what.clone(),
        replay: format!("# property C12: byte layout of {} differs from the generated schema\n# case: {}\n# {}\n# regenerate: python3 /verif/translators/ser_schema.py\n", name, id, what),
    });
}

/// Compare `ser(x)` with the per-field encodings in the generated order (locally and in the
/// model); returns the field boundaries per compression mode.
fn layout<T: CanonicalSerialize>(
    ctx: &mut Ctx,
    schemas: &[SchemaTxt],
    id: &str,
    name: &str,
    x: &T,
    enc: &dyn Fn(&str, Compress) -> Option<Vec<u8>>,
) -> [Vec<usize>; 2] {
    let mut bounds = [vec![], vec![]];
    let s = match schemas.iter().find(|s| s.name == name) {
        Some(s) => s.clone(),
        None => {
            // the type is no longer hand-written (derived): nothing to tie
            ctx.rep.count(&format!("layout-skipped/{}", name));
            return bounds;
        }
    };
    for (ci, (c, cname)) in COMPRESS.iter().enumerate() {
        let lid = format!("{}/layout/{}/{}", id, name, cname);
        let bytes = match ser_mode(x, *c) {
            Ok(b) => b,
            Err(_) => continue, // reported by `artefact`
        };
        let mut per_field: Vec<(String, Vec<u8>)> = vec![];
        let mut ok = true;
        for f in &s.fields {
            match enc(f, *c) {
                Some(b) => per_field.push((f.clone(), b)),
                None => {
                    layout_break(ctx, &lid, name, format!("the harness has no encoder for declared field `{}` of {}", f, name));
                    ok = false;
                }
            }
        }
        if !ok {
            continue;
        }
        let get = |f: &String| per_field.iter().find(|(n, _)| n == f).map(|(_, b)| b.clone());
        let mut cat = vec![];
        let mut missing = false;
        for f in &s.written {
            match get(f) {
                Some(b) => {
                    cat.extend_from_slice(&b);
                    bounds[ci].push(cat.len());
                }
                None => missing = true,
            }
        }
        let size_sum: usize = s.sized.iter().map(|f| get(f).map(|b| b.len()).unwrap_or(0)).sum();
        if missing || cat != bytes {
            let at = cat.iter().zip(bytes.iter()).position(|(a, b)| a != b).unwrap_or(cat.len().min(bytes.len()));
            layout_break(ctx, &lid, name, format!(
                "ser(x) ({} bytes) is not the concatenation of the field encodings in the generated order {:?} ({} bytes); first difference at byte {}",
                bytes.len(), s.written, cat.len(), at));
        }
        match guarded(|| x.serialized_size(*c)) {
            Ok(n) if n == size_sum => {}
            other => layout_break(ctx, &lid, name, format!(
                "serialized_size = {:?} but the generated summands {:?} give {}", other, s.sized, size_sum)),
        }
        // the model's struct codec on the same field encodings
        let fields_val = Val::L(per_field.iter().map(|(_, b)| Val::L(b.iter().map(|x| wire::nat(*x as usize)).collect())).collect());
        ctx.ses.ask(
            &lid,
            Req::new("c12.layout").arg("idx", wire::nat(s.idx)).arg("fields", fields_val),
            ImplOutcome::Ok(vec![
                ("enc".into(), Expect::Raw(Val::L(bytes.iter().map(|x| wire::nat(*x as usize)).collect()))),
                ("size".into(), Expect::Nat(bytes.len())),
                ("rt".into(), Expect::Bool(true)),
                ("trunc".into(), Expect::Bool(true)),
            ]),
        );
        ctx.rep.count(&format!("layout/{}", name));
    }
    bounds
}

macro_rules! field_encoder {
    ($x:expr; $($f:ident),*) => {
        |name: &str, c: Compress| -> Option<Vec<u8>> {
            match name {
                $( stringify!($f) => ser_mode(&$x.$f, c).ok(), )*
                n if n.starts_with("prepared_") => Some(vec![]),
                _ => None,
            }
        }
    };
}

type MvPoly = generic::MvPoly;

/// If `x` is one of the structs with a hand-written impl, tie its layout to the schema.
fn layout_any(ctx: &mut Ctx, schemas: &[SchemaTxt], id: &str, x: &dyn Any) -> [Vec<usize>; 2] {
    if let Some(p) = x.downcast_ref::<kzg10::UniversalParams<Bls12_381>>() {
        let e = field_encoder!(p; powers_of_g, powers_of_gamma_g, h, beta_h, neg_powers_of_h);
        return layout(ctx, schemas, id, "kzg10::UniversalParams", p, &e);
    }
    if let Some(p) = x.downcast_ref::<kzg10::Powers<'static, Bls12_381>>() {
        let e = |name: &str, c: Compress| -> Option<Vec<u8>> {
            match name {
                "powers_of_g" => ser_mode(&p.powers_of_g[..], c).ok(),
                "powers_of_gamma_g" => ser_mode(&p.powers_of_gamma_g[..], c).ok(),
                _ => None,
            }
        };
        return layout(ctx, schemas, id, "kzg10::Powers", p, &e);
    }
    if let Some(p) = x.downcast_ref::<kzg10::VerifierKey<Bls12_381>>() {
        let e = field_encoder!(p; g, gamma_g, h, beta_h);
        return layout(ctx, schemas, id, "kzg10::VerifierKey", p, &e);
    }
    if let Some(p) = x.downcast_ref::<sonic_pc::VerifierKey<Bls12_381>>() {
        let e = field_encoder!(p; g, gamma_g, h, beta_h, degree_bounds_and_neg_powers_of_h, supported_degree, max_degree);
        return layout(ctx, schemas, id, "sonic_pc::VerifierKey", p, &e);
    }
    if let Some(p) = x.downcast_ref::<marlin_pst13_pc::UniversalParams<Bls12_381, MvPoly>>() {
        let e = field_encoder!(p; powers_of_g, gamma_g, powers_of_gamma_g, h, beta_h, num_vars, max_degree);
        return layout(ctx, schemas, id, "marlin_pst13_pc::UniversalParams", p, &e);
    }
    if let Some(p) = x.downcast_ref::<marlin_pst13_pc::VerifierKey<Bls12_381>>() {
        let e = field_encoder!(p; g, gamma_g, h, beta_h, num_vars, supported_degree, max_degree);
        return layout(ctx, schemas, id, "marlin_pst13_pc::VerifierKey", p, &e);
    }
    [vec![], vec![]]
}

// ------------------------------------------------------------------------------------------------
// the 8 trait-level schemes
// ------------------------------------------------------------------------------------------------
fn relabel<C: ark_poly_commit::PCCommitment>(orig: &[LabeledCommitment<C>], cs: Vec<C>) -> Vec<LabeledCommitment<C>> {
    orig.iter()
        .zip(cs)
        .map(|(o, c)| LabeledCommitment::new(o.label().clone(), c, o.degree_bound()))
        .collect()
}

fn scheme_run<S: Scheme>(ctx: &mut Ctx, schemas: &[SchemaTxt], n: usize)
where
    Pt<S>: Clone + Ord + std::fmt::Debug,
    Comm<S>: Clone,
    State<S>: Clone,
    SProof<S>: CanonicalSerialize + CanonicalDeserialize + Clone,
    BProof<S>: Clone,
    PP<S>: 'static,
    CK<S>: 'static,
    VK<S>: 'static,
{
    for i in 0..n {
        let id = format!("C12/{}/{}", S::NAME, i);
        if !ctx.selected(&id) {
            continue;
        }
        let mut rng = rng_for(ctx.seed, &format!("C12/{}", S::NAME), i as u64);
        let npoly = range(&mut rng, 1, 3);
        // every third case: keys trimmed to the full degree of the parameters
        let inst: Instance<S> = match guarded(|| if i % 3 == 2 { generic::instance_full::<S>(&mut rng, ctx.thorough, npoly) } else { generic::instance::<S>(&mut rng, ctx.thorough, npoly) }) {
            Ok(Ok(x)) => x,
            Ok(Err(e)) | Err(e) => {
                ctx.rep.notes.push(format!("{}: instance generation failed ({}); not a C12 matter", id, e));
                continue;
            }
        };
        let nlabels = range(&mut rng, 1, 2);
        let (qs, ev) = generic::query_set::<S>(&mut rng, &inst, nlabels, true);
        let mut psp = generic::fresh_sponge();
        let proof = match generic::batch_open::<S>(&inst, &qs, &mut psp, &mut rng) {
            Ok(p) => p,
            Err(e) => {
                ctx.rep.notes.push(format!("{}: batch_open refused ({}); not a C12 matter", id, e));
                continue;
            }
        };
        // ---- byte-level checks of every artefact ----
        let b_pp = layout_any(ctx, schemas, &id, &inst.pp as &dyn Any);
        let pp2 = artefact(&mut ctx.rep, &mut rng, &id, S::NAME, "universal-params", &inst.pp, &b_pp);
        let b_ck = layout_any(ctx, schemas, &id, &inst.ck as &dyn Any);
        let ck2 = artefact(&mut ctx.rep, &mut rng, &id, S::NAME, "committer-key", &inst.ck, &b_ck);
        let b_vk = layout_any(ctx, schemas, &id, &inst.vk as &dyn Any);
        let vk2 = artefact(&mut ctx.rep, &mut rng, &id, S::NAME, "verifier-key", &inst.vk, &b_vk);
        let mut comms_cv: Vec<Comm<S>> = vec![];
        let mut comms_un: Vec<Comm<S>> = vec![];
        for (j, c) in inst.comms.iter().enumerate() {
            let cp = artefact(&mut ctx.rep, &mut rng, &id, S::NAME, &format!("commitment#{}", j), c.commitment(), &NOB);
            if let Some(c) = cp.cv { comms_cv.push(c) }
            if let Some(c) = cp.un { comms_un.push(c) }
        }
        let mut states_cv: Vec<State<S>> = vec![];
        for (j, st) in inst.states.iter().enumerate() {
            let cp = artefact(&mut ctx.rep, &mut rng, &id, S::NAME, &format!("commitment-state#{}", j), st, &NOB);
            if let Some(s) = cp.cv { states_cv.push(s) }
        }
        let proof2 = artefact(&mut ctx.rep, &mut rng, &id, S::NAME, "batch-proof", &proof, &NOB);
        let singles: Vec<SProof<S>> = proof.clone().into();
        for (j, p) in singles.iter().enumerate().take(2) {
            let _ = artefact(&mut ctx.rep, &mut rng, &id, S::NAME, &format!("proof#{}", j), p, &NOB);
        }
        // ---- decisions with the deserialized copies ----
        let keys: Vec<(String, Pt<S>)> = ev.keys().cloned().collect();
        let mut ev_bad = ev.clone();
        if !keys.is_empty() {
            let k = range(&mut rng, 0, keys.len() - 1);
            *ev_bad.get_mut(&keys[k]).unwrap() += rand_nonzero(&mut rng);
        }
        let vrng = rng.clone();
        let decide = |vk: &VK<S>, comms: &[LabeledCommitment<Comm<S>>], e: &Evaluations<Pt<S>, Fr>, p: &BProof<S>| -> Outcome {
            let mut sp = generic::fresh_sponge();
            let mut r = vrng.clone();
            Outcome::from(guarded(|| PCof::<S>::batch_check(vk, comms, &qs, e, p, &mut sp, &mut r)))
        };
        let o_honest = decide(&inst.vk, &inst.comms, &ev, &proof);
        let o_bad = decide(&inst.vk, &inst.comms, &ev_bad, &proof);
        let variants: Vec<(&str, Option<&VK<S>>, Option<Vec<LabeledCommitment<Comm<S>>>>, Option<&BProof<S>>)> = vec![
            ("compressed+validated", vk2.cv.as_ref(),
                if comms_cv.len() == inst.comms.len() { Some(relabel(&inst.comms, comms_cv.clone())) } else { None },
                proof2.cv.as_ref()),
            ("uncompressed+unvalidated", vk2.un.as_ref(),
                if comms_un.len() == inst.comms.len() { Some(relabel(&inst.comms, comms_un.clone())) } else { None },
                proof2.un.as_ref()),
        ];
        // ---- re-loaded universal parameters: trimming them must give the same keys (bytes) and the same
        //      decisions (fields that are NOT serialized, e.g. prepared group elements, are rebuilt on load) ----
        for (vname, pp_d) in [("compressed+validated", pp2.cv.as_ref()), ("uncompressed+unvalidated", pp2.un.as_ref())] {
            let did = format!("{}/reloaded-params/{}", id, vname);
            if let Some(pp_d) = pp_d {
                match guarded(|| PCof::<S>::trim(pp_d, inst.sizes.supported, inst.shb, inst.bounds.as_deref())) {
                    Ok(Ok((ck_d, vk_d))) => {
                        let same_bytes = ser_bytes(&ck_d) == ser_bytes(&inst.ck) && ser_bytes(&vk_d) == ser_bytes(&inst.vk);
                        let d_honest = decide(&vk_d, &inst.comms, &ev, &proof);
                        let d_bad = decide(&vk_d, &inst.comms, &ev_bad, &proof);
                        // and the re-loaded committer key must produce proofs the original verifier key accepts
                        let mut psp2 = generic::fresh_sponge();
                        let inst_d = Instance::<S> { sizes: inst.sizes.clone(), pp: inst.pp.clone(), ck: ck_d, vk: inst.vk.clone(),
                            polys: inst.polys.clone(), kinds: inst.kinds.clone(), comms: inst.comms.clone(), states: inst.states.clone(), bounds: inst.bounds.clone(), shb: inst.shb };
                        let d_reopen = match generic::batch_open::<S>(&inst_d, &qs, &mut psp2, &mut rng.clone()) {
                            Ok(p2) => Some(decide(&inst.vk, &inst.comms, &ev, &p2)),
                            Err(_) => None,
                        };
                        if !same_bytes || d_honest != o_honest || d_bad != o_bad || (d_reopen.is_some() && d_reopen != Some(o_honest.clone())) {
                            ctx.rep.expect_fail(&did, &format!("{}/reloaded-params-differ", S::NAME),
                                &format!("keys trimmed from re-loaded parameters ({}): same bytes {}, honest {:?} (original {:?}), tampered {:?} (original {:?}), proofs made with the re-loaded committer key {:?}",
                                    vname, same_bytes, d_honest, o_honest, d_bad, o_bad, d_reopen),
                                generic::fail_replay(&inst, &did, ctx.seed, &format!("universal parameters serialized and re-loaded ({}) before trim", vname)));
                        }
                    }
                    other => {
                        ctx.rep.expect_fail(&did, &format!("{}/reloaded-params-trim-refused", S::NAME),
                            &format!("trim of re-loaded parameters refused: {:?}", other.map(|r| r.map(|_| ()).map_err(|e| err_kind(&e)))),
                            generic::fail_replay(&inst, &did, ctx.seed, "re-loaded parameters"));
                    }
                }
                ctx.rep.count(&format!("{}/reloaded-params", S::NAME));
            }
        }
        for (vname, vk_d, comms_d, proof_d) in variants {
            let did = format!("{}/decision/{}", id, vname);
            if let (Some(vk_d), Some(comms_d), Some(proof_d)) = (vk_d, comms_d, proof_d) {
                // all three deserialized; then each alone
                let combos: Vec<(&str, &VK<S>, &[LabeledCommitment<Comm<S>>], &BProof<S>)> = vec![
                    ("vk+commitments+proof", vk_d, &comms_d[..], proof_d),
                    ("vk", vk_d, &inst.comms[..], &proof),
                    ("commitments", &inst.vk, &comms_d[..], &proof),
                    ("proof", &inst.vk, &inst.comms[..], proof_d),
                ];
                for (cname, v, cs, p) in combos {
                    let d_honest = decide(v, cs, &ev, p);
                    let d_bad = decide(v, cs, &ev_bad, p);
                    if d_honest != o_honest || d_bad != o_bad {
                        ctx.rep.expect_fail(&did, &format!("{}/decision-differs/{}", S::NAME, cname),
                            &format!("batch_check with deserialized {} ({}): honest {:?} (original {:?}), tampered {:?} (original {:?})",
                                cname, vname, d_honest, o_honest, d_bad, o_bad),
                            generic::fail_replay(&inst, &did, ctx.seed, &format!("deserialized {} ({})", cname, vname)));
                    }
                    ctx.rep.count(&format!("{}/decision/{}", S::NAME, cname));
                }
                ctx.rep.case(
                    &format!("{} decisions {} honest={:?} tampered={:?}", inst.desc(), vname, o_honest, o_bad),
                    Some(format!("{}/decision/{}/{}/{}", S::NAME, vname, npoly, qs.len())),
                );
            }
        }
        if !o_honest.accepted() || o_bad.accepted() {
            ctx.rep.notes.push(format!("{}: original decisions honest={:?} tampered={:?} (C01/C02 matter; C12 compares only)", id, o_honest, o_bad));
        }
        // ---- the deserialized committer key and states still open ----
        if let (Some(ck_d), true) = (ck2.cv.as_ref(), states_cv.len() == inst.states.len()) {
            let did = format!("{}/prover-side", id);
            let mut sp = generic::fresh_sponge();
            let mut r = rng.clone();
            let res = guarded(|| PCof::<S>::batch_open(ck_d, &inst.polys, &inst.comms, &qs, &mut sp, &states_cv, Some(&mut r)));
            match res {
                Ok(Ok(p3)) => {
                    let d = decide(&inst.vk, &inst.comms, &ev, &p3);
                    if d != o_honest {
                        ctx.rep.expect_fail(&did, &format!("{}/decision-differs/committer-key+states", S::NAME),
                            &format!("a proof made with the deserialized committer key and states is decided {:?}, the original {:?}", d, o_honest),
                            generic::fail_replay(&inst, &did, ctx.seed, "deserialized committer key and commitment states"));
                    }
                }
                Ok(Err(e)) => ctx.rep.expect_fail(&did, &format!("{}/decision-differs/committer-key+states", S::NAME),
                    &format!("batch_open with the deserialized committer key and states refused: {:?}", e),
                    generic::fail_replay(&inst, &did, ctx.seed, "deserialized committer key and commitment states")),
                Err(a) => ctx.rep.expect_fail(&did, &format!("{}/decision-differs/committer-key+states", S::NAME),
                    &format!("batch_open with the deserialized committer key and states aborted: {}", a),
                    generic::fail_replay(&inst, &did, ctx.seed, "deserialized committer key and commitment states")),
            }
            ctx.rep.count(&format!("{}/decision/committer-key+states", S::NAME));
            ctx.rep.case(&format!("{} prover side with deserialized ck/states", inst.desc()), None);
        }
        // ---- combination proof (BatchLCProof) ----
        lc_case::<S>(ctx, &mut rng, &id, &inst, vk2.cv.as_ref());
    }
}

fn lc_case<S: Scheme>(ctx: &mut Ctx, rng: &mut Rng, id: &str, inst: &Instance<S>, vk_d: Option<&VK<S>>)
where
    Pt<S>: Clone + Ord + std::fmt::Debug,
    Comm<S>: Clone,
    BProof<S>: Clone,
{
    // one linear combination: several terms over polynomials without degree bound, else one term
    let free: Vec<usize> = (0..inst.polys.len()).filter(|&j| inst.polys[j].degree_bound().is_none()).collect();
    let terms: Vec<(Fr, usize)> = if free.len() >= 2 {
        free.iter().take(3).map(|&j| (Fr::rand(rng), j)).collect()
    } else {
        vec![(Fr::from(1u64), 0)]
    };
    let lc = LinearCombination::new(
        "lc0",
        terms.iter().map(|(c, j)| (*c, inst.polys[*j].label().clone())).collect::<Vec<_>>(),
    );
    let lcs = vec![lc];
    let pt = S::rand_point(rng, &inst.sizes);
    let mut qs: QuerySet<Pt<S>> = QuerySet::new();
    qs.insert(("lc0".to_string(), ("z".to_string(), pt.clone())));
    let val: Fr = terms.iter().map(|(c, j)| *c * inst.polys[*j].evaluate(&pt)).sum();
    let mut ev: Evaluations<Pt<S>, Fr> = Evaluations::new();
    ev.insert(("lc0".to_string(), pt.clone()), val);
    let mut ev_bad = ev.clone();
    *ev_bad.get_mut(&("lc0".to_string(), pt.clone())).unwrap() += rand_nonzero(rng);
    let mut sp = generic::fresh_sponge();
    let mut r = rng.clone();
    let proof: BatchLCProof<Fr, BProof<S>> = match guarded(|| {
        PCof::<S>::open_combinations(&inst.ck, &lcs, &inst.polys, &inst.comms, &qs, &mut sp, &inst.states, Some(&mut r))
    }) {
        Ok(Ok(p)) => p,
        Ok(Err(e)) => {
            ctx.rep.count(&format!("{}/lc-open-refused", S::NAME));
            ctx.rep.notes.push(format!("{}: open_combinations refused ({:?}); not a C12 matter", id, e));
            return;
        }
        Err(a) => {
            ctx.rep.count(&format!("{}/lc-open-aborted", S::NAME));
            ctx.rep.notes.push(format!("{}: open_combinations aborted ({}); not a C12 matter", id, a));
            return;
        }
    };
    let copies = artefact(&mut ctx.rep, rng, id, S::NAME, "combination-proof", &proof, &NOB);
    let vrng = rng.clone();
    let decide = |vk: &VK<S>, e: &Evaluations<Pt<S>, Fr>, p: &BatchLCProof<Fr, BProof<S>>| -> Outcome {
        let mut sp = generic::fresh_sponge();
        let mut r = vrng.clone();
        Outcome::from(guarded(|| PCof::<S>::check_combinations(vk, &lcs, &inst.comms, &qs, e, p, &mut sp, &mut r)))
    };
    let o_h = decide(&inst.vk, &ev, &proof);
    let o_b = decide(&inst.vk, &ev_bad, &proof);
    for (vname, p) in [("compressed+validated", copies.cv.as_ref()), ("uncompressed+unvalidated", copies.un.as_ref())] {
        if let Some(p) = p {
            let did = format!("{}/lc-decision/{}", id, vname);
            let vk = vk_d.unwrap_or(&inst.vk);
            let d_h = decide(vk, &ev, p);
            let d_b = decide(vk, &ev_bad, p);
            if d_h != o_h || d_b != o_b {
                ctx.rep.expect_fail(&did, &format!("{}/decision-differs/combination-proof", S::NAME),
                    &format!("check_combinations with the deserialized proof ({}): honest {:?} (original {:?}), tampered {:?} (original {:?})", vname, d_h, o_h, d_b, o_b),
                    generic::fail_replay(inst, &did, ctx.seed, "deserialized BatchLCProof"));
            }
            ctx.rep.count(&format!("{}/decision/combination-proof", S::NAME));
            ctx.rep.case(&format!("{} lc terms={} {} honest={:?} tampered={:?}", inst.desc(), terms.len(), vname, o_h, o_b),
                Some(format!("{}/lc/{}/{}", S::NAME, terms.len(), vname)));
        }
    }
}

// ------------------------------------------------------------------------------------------------
// plain KZG10 and the multilinear PST scheme (not behind the trait)
// ------------------------------------------------------------------------------------------------
fn kzg_run(ctx: &mut Ctx, schemas: &[SchemaTxt], n: usize) {
    for i in 0..n {
        let id = format!("C12/kzg10/{}", i);
        if !ctx.selected(&id) {
            continue;
        }
        let mut rng = rng_for(ctx.seed, "C12/kzg10", i as u64);
        let t = kzg::honest(&mut rng, 16);
        // parameters: trapdoor-made (with and without G2 powers) and library-made
        let with_g2 = i % 2 == 0;
        let pp = t.trap.params(with_g2);
        let b = layout_any(ctx, schemas, &id, &pp as &dyn Any);
        let _ = artefact(&mut ctx.rep, &mut rng, &id, "kzg10", if with_g2 { "universal-params+g2powers" } else { "universal-params" }, &pp, &b);
        if let Ok(Ok(lib_pp)) = guarded(|| kzg::Kzg::setup(range(&mut rng.clone(), 1, 12), !with_g2, &mut rng)) {
            let lid = format!("{}/setup", id);
            let b = layout_any(ctx, schemas, &lid, &lib_pp as &dyn Any);
            let _ = artefact(&mut ctx.rep, &mut rng, &lid, "kzg10", "universal-params(setup)", &lib_pp, &b);
        }
        let b = layout_any(ctx, schemas, &id, &t.powers as &dyn Any);
        let powers2 = artefact(&mut ctx.rep, &mut rng, &id, "kzg10", "powers", &t.powers, &b);
        // powers whose two lists have DIFFERENT lengths (what MarlinKZG10's `ck.powers()` hands out when the hiding
        // bound is smaller than the degree): sizes must still be the bytes written
        for k in [0usize, 1, 2, t.powers.powers_of_gamma_g.len().saturating_sub(1)] {
            if k >= t.powers.powers_of_gamma_g.len() { continue; }
            let uneven = kzg10::Powers::<Bls12_381> {
                powers_of_g: t.powers.powers_of_g.clone(),
                powers_of_gamma_g: std::borrow::Cow::Owned(t.powers.powers_of_gamma_g[..k].to_vec()),
            };
            let uid = format!("{}/uneven-{}", id, k);
            let _ = artefact(&mut ctx.rep, &mut rng, &uid, "kzg10", "powers(uneven)", &uneven, &NOB);
        }
        let b = layout_any(ctx, schemas, &id, &t.vk as &dyn Any);
        let vk2 = artefact(&mut ctx.rep, &mut rng, &id, "kzg10", "verifier-key", &t.vk, &b);
        let comm2 = artefact(&mut ctx.rep, &mut rng, &id, "kzg10", "commitment", &t.comm, &NOB);
        let rand2 = artefact(&mut ctx.rep, &mut rng, &id, "kzg10", "commitment-state", &t.rand, &NOB);
        let proof2 = artefact(&mut ctx.rep, &mut rng, &id, "kzg10", "proof", &t.proof, &NOB);
        let bad = t.v + rand_nonzero(&mut rng);
        let o_h = kzg::accepted(&kzg::check_impl(&t.vk, &t.comm, t.z, t.v, &t.proof));
        let o_b = kzg::accepted(&kzg::check_impl(&t.vk, &t.comm, t.z, bad, &t.proof));
        for (vname, vk, c, p) in [
            ("compressed+validated", vk2.cv.as_ref(), comm2.cv.as_ref(), proof2.cv.as_ref()),
            ("uncompressed+unvalidated", vk2.un.as_ref(), comm2.un.as_ref(), proof2.un.as_ref()),
        ] {
            if let (Some(vk), Some(c), Some(p)) = (vk, c, p) {
                let did = format!("{}/decision/{}", id, vname);
                let d_h = kzg::accepted(&kzg::check_impl(vk, c, t.z, t.v, p));
                let d_b = kzg::accepted(&kzg::check_impl(vk, c, t.z, bad, p));
                if d_h != o_h || d_b != o_b {
                    ctx.rep.expect_fail(&did, "kzg10/decision-differs/vk+commitment+proof",
                        &format!("KZG10::check with deserialized key, commitment, proof ({}): honest {} (original {}), tampered {} (original {})", vname, d_h, o_h, d_b, o_b),
                        format!("# scheme: kzg10\n# {}\n# case: {}\n# rerun: .build/cargo/debug/pcv-harness C12 --seed {} --only {}\n", t.desc(), did, ctx.seed, id));
                }
                ctx.rep.count("kzg10/decision/vk+commitment+proof");
                ctx.rep.case(&format!("{} decisions {} honest={} tampered={}", t.desc(), vname, o_h, o_b),
                    Some(format!("kzg10/decision/{}/{}", vname, t.hb.is_some())));
            }
        }
        // the deserialized powers and randomness still open
        if let (Some(pw), Some(rd)) = (powers2.cv.as_ref(), rand2.cv.as_ref()) {
            let did = format!("{}/prover-side", id);
            match guarded(|| kzg::Kzg::open(pw, &t.p, t.z, rd)) {
                Ok(Ok(p3)) => {
                    let d = kzg::accepted(&kzg::check_impl(&t.vk, &t.comm, t.z, t.v, &p3));
                    if d != o_h || p3 != t.proof {
                        ctx.rep.expect_fail(&did, "kzg10/decision-differs/powers+randomness",
                            &format!("opening with deserialized powers/randomness: accepted={} (original {}), same proof: {}", d, o_h, p3 == t.proof),
                            format!("# scheme: kzg10\n# {}\n# case: {}\n", t.desc(), did));
                    }
                }
                other => ctx.rep.expect_fail(&did, "kzg10/decision-differs/powers+randomness",
                    &format!("KZG10::open with deserialized powers/randomness failed: {:?}", other.map(|r| r.map(|_| ()))),
                    format!("# scheme: kzg10\n# {}\n# case: {}\n", t.desc(), did)),
            }
            ctx.rep.count("kzg10/decision/powers+randomness");
        }
    }
}

fn mlpc_run(ctx: &mut Ctx, n: usize) {
    type ML = multilinear_pc::MultilinearPC<Bls12_381>;
    for i in 0..n {
        let id = format!("C12/multilinear_pc/{}", i);
        if !ctx.selected(&id) {
            continue;
        }
        let mut rng = rng_for(ctx.seed, "C12/multilinear_pc", i as u64);
        let nv_max = range(&mut rng, 1, 4);
        let nv = range(&mut rng, 1, nv_max);
        let made = guarded(|| {
            let pp = ML::setup(nv_max, &mut rng);
            let (ck, vk) = ML::trim(&pp, nv);
            (pp, ck, vk)
        });
        let (pp, ck, vk) = match made {
            Ok(x) => x,
            Err(a) => {
                ctx.rep.notes.push(format!("{}: setup/trim aborted ({}); not a C12 matter", id, a));
                continue;
            }
        };
        let poly = DenseMultilinearExtension::<Fr>::rand(nv, &mut rng);
        let point: Vec<Fr> = (0..nv).map(|_| Fr::rand(&mut rng)).collect();
        let v = poly.evaluate(&point);
        let opened = guarded(|| (ML::commit(&ck, &poly), ML::open(&ck, &poly, &point)));
        let (comm, proof) = match opened {
            Ok(x) => x,
            Err(a) => {
                ctx.rep.notes.push(format!("{}: commit/open aborted ({}); not a C12 matter", id, a));
                continue;
            }
        };
        let _ = artefact(&mut ctx.rep, &mut rng, &id, "multilinear_pc", "universal-params", &pp, &NOB);
        let ck2 = artefact(&mut ctx.rep, &mut rng, &id, "multilinear_pc", "committer-key", &ck, &NOB);
        let vk2 = artefact(&mut ctx.rep, &mut rng, &id, "multilinear_pc", "verifier-key", &vk, &NOB);
        let comm2 = artefact(&mut ctx.rep, &mut rng, &id, "multilinear_pc", "commitment", &comm, &NOB);
        let proof2 = artefact(&mut ctx.rep, &mut rng, &id, "multilinear_pc", "proof", &proof, &NOB);
        let bad = v + rand_nonzero(&mut rng);
        let chk = |vk: &multilinear_pc::data_structures::VerifierKey<Bls12_381>,
                   c: &multilinear_pc::data_structures::Commitment<Bls12_381>,
                   val: Fr,
                   p: &multilinear_pc::data_structures::Proof<Bls12_381>| {
            guarded(|| ML::check(vk, c, &point, val, p)).map_err(|_| "abort".to_string())
        };
        let o_h = chk(&vk, &comm, v, &proof);
        let o_b = chk(&vk, &comm, bad, &proof);
        for (vname, k, c, p) in [
            ("compressed+validated", vk2.cv.as_ref(), comm2.cv.as_ref(), proof2.cv.as_ref()),
            ("uncompressed+unvalidated", vk2.un.as_ref(), comm2.un.as_ref(), proof2.un.as_ref()),
        ] {
            if let (Some(k), Some(c), Some(p)) = (k, c, p) {
                let did = format!("{}/decision/{}", id, vname);
                let d_h = chk(k, c, v, p);
                let d_b = chk(k, c, bad, p);
                if d_h != o_h || d_b != o_b {
                    ctx.rep.expect_fail(&did, "multilinear_pc/decision-differs/vk+commitment+proof",
                        &format!("MultilinearPC::check with deserialized key, commitment, proof ({}): honest {:?} (original {:?}), tampered {:?} (original {:?})", vname, d_h, o_h, d_b, o_b),
                        format!("# scheme: multilinear_pc nv_max={} nv={}\n# case: {}\n# rerun: .build/cargo/debug/pcv-harness C12 --seed {} --only {}\n", nv_max, nv, did, ctx.seed, id));
                }
                ctx.rep.count("multilinear_pc/decision/vk+commitment+proof");
                ctx.rep.case(&format!("multilinear_pc nv_max={} nv={} decisions {} honest={:?} tampered={:?}", nv_max, nv, vname, o_h, o_b),
                    Some(format!("multilinear_pc/decision/{}/{}", vname, nv)));
            }
        }
        if let Some(ck_d) = ck2.cv.as_ref() {
            let did = format!("{}/prover-side", id);
            match guarded(|| (ML::commit(ck_d, &poly), ML::open(ck_d, &poly, &point))) {
                Ok((c3, p3)) => {
                    let same = ser_mode(&c3, Compress::Yes) == ser_mode(&comm, Compress::Yes)
                        && ser_mode(&p3, Compress::Yes) == ser_mode(&proof, Compress::Yes);
                    if !same {
                        ctx.rep.expect_fail(&did, "multilinear_pc/decision-differs/committer-key",
                            "commit/open with the deserialized committer key give a different commitment or proof",
                            format!("# scheme: multilinear_pc nv_max={} nv={}\n# case: {}\n", nv_max, nv, did));
                    }
                }
                Err(a) => ctx.rep.expect_fail(&did, "multilinear_pc/decision-differs/committer-key",
                    &format!("commit/open with the deserialized committer key aborted: {}", a),
                    format!("# scheme: multilinear_pc nv_max={} nv={}\n# case: {}\n", nv_max, nv, did)),
            }
            ctx.rep.count("multilinear_pc/decision/committer-key");
        }
    }
}

// ------------------------------------------------------------------------------------------------
// self-test of the byte-level checks: a deliberately broken codec must be flagged on a scratch report
// ------------------------------------------------------------------------------------------------
struct Leaky(u64, u64);
impl CanonicalSerialize for Leaky {
    fn serialize_with_mode<W: ark_serialize::Write>(&self, mut w: W, c: Compress) -> Result<(), ark_serialize::SerializationError> {
        self.0.serialize_with_mode(&mut w, c)?;
        self.1.serialize_with_mode(&mut w, c)
    }
    fn serialized_size(&self, _: Compress) -> usize {
        15 // wrong on purpose
    }
}
impl ark_serialize::Valid for Leaky {
    fn check(&self) -> Result<(), ark_serialize::SerializationError> {
        Ok(())
    }
}
impl CanonicalDeserialize for Leaky {
    fn deserialize_with_mode<R: ark_serialize::Read>(mut r: R, c: Compress, v: Validate) -> Result<Self, ark_serialize::SerializationError> {
        let a = u64::deserialize_with_mode(&mut r, c, v)?;
        // swallows a truncated second field, and forgets it when re-serializing
        let b = u64::deserialize_with_mode(&mut r, c, v).unwrap_or(0);
        Ok(Leaky(a, b / 2))
    }
}

fn self_test(ctx: &mut Ctx) {
    let mut scratch = Report::new("C12-selftest");
    let mut rng = rng_for(ctx.seed, "C12/selftest", 0);
    let _ = artefact(&mut scratch, &mut rng, "C12/selftest", "selftest", "leaky", &Leaky(7, 9), &NOB);
    let sigs: Vec<String> = scratch.expectation_failures.iter().map(|f| f.signature.clone()).collect();
    for need in ["size-mismatch", "reserialization-differs", "prefix-parsed"] {
        if !sigs.iter().any(|s| s.ends_with(need)) {
            ctx.rep.model_disagreements.push(Failure {
                case_id: "C12/selftest".into(),
                signature: "harness-selftest".into(),
                what: format!("the byte-level checks did not flag `{}` on a deliberately broken codec (flagged: {:?})", need, sigs),
                replay: "# props_c12.rs self_test: Leaky(7, 9)\n".into(),
            });
        }
    }
    ctx.rep.count("selftest/broken-codec-flagged");
}

pub fn run(ctx: &mut Ctx) {
    self_test(ctx);
    let schemas = load_schemas(ctx);
    let n = ctx.n(3, 20);
    kzg_run(ctx, &schemas, ctx.n(4, 30));
    ctx.flush_model("C12-kzg10");
    scheme_run::<generic::Marlin>(ctx, &schemas, n);
    scheme_run::<generic::Sonic>(ctx, &schemas, n);
    ctx.flush_model("C12-marlin-sonic");
    scheme_run::<generic::Ipa>(ctx, &schemas, n);
    scheme_run::<generic::Pst13>(ctx, &schemas, n);
    pst13_degree_zero_keys(ctx);
    optional_identity_parts(ctx);
    ctx.flush_model("C12-pst13");
    scheme_run::<generic::Hyrax>(ctx, &schemas, n);
    scheme_run::<generic::UniLigero>(ctx, &schemas, ctx.n(2, 10));
    scheme_run::<generic::MlLigero>(ctx, &schemas, ctx.n(2, 10));
    scheme_run::<generic::Brakedown>(ctx, &schemas, ctx.n(2, 10));
    mlpc_run(ctx, ctx.n(3, 20));
    ctx.rep.notes.push(
        "streaming_kzg: CommitterKey / VerifierKey / Commitment / EvaluationProof implement neither CanonicalSerialize nor CanonicalDeserialize — no serializable artefact".into(),
    );
    ctx.rep.notes.push(format!(
        "hand-written impls tied to the generated schema: {}",
        schemas.iter().map(|s| s.name.clone()).collect::<Vec<_>>().join(", ")
    ));
}

fn ser_bytes<T: CanonicalSerialize>(x: &T) -> Vec<u8> {
    let mut v = vec![];
    let _ = x.serialize_compressed(&mut v);
    v
}

/// Keys trimmed to supported degree 0 (constant polynomials only) are keys `trim` hands out: they must survive
/// a round trip in every mode like all other keys (D28: `Valid::check` of the PST13 verifier key refused them).
fn pst13_degree_zero_keys(ctx: &mut Ctx) {
    for i in 0..ctx.n(2, 6) {
        let id = format!("C12/pst13-degree-zero-key/{}", i);
        if !ctx.selected(&id) {
            continue;
        }
        let mut rng = rng_for(ctx.seed, "C12/pst13-degree-zero-key", i as u64);
        let (d, nv) = (1 + i % 3, 1 + i % 3);
        let keys = guarded(|| {
            let pp = generic::Pst13PC::setup(d, Some(nv), &mut rng).ok()?;
            generic::Pst13PC::trim(&pp, 0, 0, None).ok()
        });
        let (ck, vk) = match keys {
            Ok(Some(k)) => k,
            _ => {
                // `trim` refusing degree 0 is a consistent answer too: nothing to round-trip
                ctx.rep.case("pst13 trim(0) refused", Some("pst13-degree-zero-key/refused".into()));
                continue;
            }
        };
        for (c, cname) in COMPRESS.iter() {
            for (v, vname) in [(Validate::Yes, "validated"), (Validate::No, "unvalidated")] {
                let mut b = vec![];
                let ok_vk = vk.serialize_with_mode(&mut b, *c).is_ok()
                    && matches!(<VK<generic::Pst13> as CanonicalDeserialize>::deserialize_with_mode(&b[..], *c, v), Ok(ref x) if { let mut b2 = vec![]; x.serialize_with_mode(&mut b2, *c).is_ok() && b2 == b });
                let mut b = vec![];
                let ok_ck = ck.serialize_with_mode(&mut b, *c).is_ok()
                    && matches!(<CK<generic::Pst13> as CanonicalDeserialize>::deserialize_with_mode(&b[..], *c, v), Ok(ref x) if { let mut b2 = vec![]; x.serialize_with_mode(&mut b2, *c).is_ok() && b2 == b });
                if !ok_vk || !ok_ck {
                    ctx.rep.expect_fail(&id, "pst13/degree-zero-key-round-trip",
                        &format!("keys from MarlinPST13::trim(pp, 0, ..) do not survive a {} {} round trip (verifier key ok: {}, committer key ok: {})", cname, vname, ok_vk, ok_ck),
                        format!("# scheme: pst13\n# case: {}\n# seed: {}\n# setup(max_degree {}, {} variables), trim(pp, 0, 0, None), serialize, deserialize ({}, {})\n", id, ctx.seed, d, nv, cname, vname));
                }
            }
        }
        ctx.rep.case(&format!("pst13 degree-zero keys d={} nv={} round trips", d, nv), Some(format!("pst13-degree-zero-key/{}/{}", d, nv)));
    }
}

/// A commitment made under a degree bound for the ZERO polynomial (non-hiding) has the identity as its shifted
/// part: `Some(identity)`, which must not come back as `None` (nor `None` as `Some(identity)`), in any mode.
/// MarlinKZG10 and IPA commitments (the two with an optional shifted part).
fn optional_identity_parts(ctx: &mut Ctx) {
    use ark_bls12_381::G1Affine;
    use ark_ec::AffineRepr;
    let id = "C12/optional-identity-parts".to_string();
    if !ctx.selected(&id) {
        return;
    }
    let mut rng = rng_for(ctx.seed, "C12/optional-identity-parts", 0);
    let g = G1Affine::rand(&mut rng);
    let mut problems = vec![];
    for (c, cname) in COMPRESS.iter() {
        for (a, b) in [(g, Some(G1Affine::zero())), (G1Affine::zero(), Some(G1Affine::zero())), (g, None), (G1Affine::zero(), None), (g, Some(g))] {
            let m = ark_poly_commit::marlin_pc::Commitment::<Bls12_381> { comm: kzg10::Commitment(a), shifted_comm: b.map(kzg10::Commitment) };
            let mut bytes = vec![];
            let ok = m.serialize_with_mode(&mut bytes, *c).is_ok()
                && matches!(ark_poly_commit::marlin_pc::Commitment::<Bls12_381>::deserialize_with_mode(&bytes[..], *c, Validate::Yes), Ok(ref x) if *x == m);
            if !ok {
                problems.push(format!("marlin commitment (comm identity: {}, shifted {:?}) {}", a.is_zero(), b.map(|x| x.is_zero()), cname));
            }
            let i = ark_poly_commit::ipa_pc::Commitment::<G1Affine> { comm: a, shifted_comm: b };
            let mut bytes = vec![];
            let ok = i.serialize_with_mode(&mut bytes, *c).is_ok()
                && matches!(ark_poly_commit::ipa_pc::Commitment::<G1Affine>::deserialize_with_mode(&bytes[..], *c, Validate::Yes), Ok(ref x) if *x == i);
            if !ok {
                problems.push(format!("ipa commitment (comm identity: {}, shifted {:?}) {}", a.is_zero(), b.map(|x| x.is_zero()), cname));
            }
        }
    }
    if !problems.is_empty() {
        ctx.rep.expect_fail(&id, "commitment/optional-part-round-trip", &format!("round trip changes the value: {}", problems.join("; ")),
            format!("# property C12\n# case: {}\n# {}\n", id, problems.join("\n# ")));
    }
    ctx.rep.case(&format!("optional identity parts: {} problems", problems.len()), Some("optional-identity-parts".into()));
}
