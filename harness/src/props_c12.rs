//! Property C12 — correspondence / expectation run (see DESIGN.md §5, C12).
use crate::Ctx;

pub fn run(ctx: &mut Ctx) {
    let _ = ctx;
}
