//! Multilinear PST (`ark_poly_commit::multilinear_pc`, own API `MultilinearPC::{setup, trim, commit,
//! open, check}`) in trapdoor mode and in real-setup mode.
//!
//! Trapdoor mode: `UniversalParams` has pub fields, so the parameters are built from KNOWN scalars
//! `(t, g, h)` with this file's own computation of the `eq`-tables (a direct product over the bits of
//! the index, nothing shared with the library's `eq_extension` / `remove_dummy_variable` loops); every
//! group element the library then returns is `scalar · generator` for a scalar the Lean model computes.
//! Real-setup mode: `MultilinearPC::setup(nv, rng)`; the trapdoor is recovered by replaying a clone of
//! the RNG in the draw order of `setup` (`G1::rand`, `G2::rand`, `nv` field elements) and VERIFIED
//! against every published element.
use crate::common::*;
use crate::wire::{self, Req};
use crate::Ctx;
use ark_bls12_381::{Bls12_381, Fr, G1Affine, G1Projective, G2Affine, G2Projective};
use ark_ec::pairing::Pairing;
use ark_ec::scalar_mul::ScalarMul;
use ark_ec::{AffineRepr, CurveGroup};
use ark_ff::{One, UniformRand, Zero};
use ark_poly::{DenseMultilinearExtension, MultilinearExtension, Polynomial, SparseMultilinearExtension};
use ark_poly_commit::multilinear_pc::data_structures::{
    Commitment, CommitterKey, Proof, UniversalParams, VerifierKey,
};
use ark_poly_commit::multilinear_pc::MultilinearPC;

pub type ML = MultilinearPC<Bls12_381>;
pub type PP = UniversalParams<Bls12_381>;
pub type CK = CommitterKey<Bls12_381>;
pub type VK = VerifierKey<Bls12_381>;
pub type Comm = Commitment<Bls12_381>;
pub type Prf = Proof<Bls12_381>;

/// `table[x] = ∏ⱼ eq(tⱼ, bitⱼ(x))`, `eq(t,0) = 1 − t`, `eq(t,1) = t` (own computation).
pub fn eq_table(t: &[Fr]) -> Vec<Fr> {
    let n = t.len();
    (0..(1usize << n))
        .map(|x| {
            let mut acc = Fr::one();
            for (j, tj) in t.iter().enumerate() {
                acc *= if (x >> j) & 1 == 1 { *tj } else { Fr::one() - tj };
            }
            acc
        })
        .collect()
}

/// the `nv` tables of the trapdoor: table `i` is the `eq`-table of `t[i..]`
pub fn eq_tables(t: &[Fr]) -> Vec<Vec<Fr>> {
    (0..t.len()).map(|i| eq_table(&t[i..])).collect()
}

pub fn scale(c: Fr, v: &[Fr]) -> Vec<Fr> {
    v.iter().map(|x| c * x).collect()
}

#[derive(Clone)]
pub struct Trap {
    pub t: Vec<Fr>,
    pub g: Fr,
    pub h: Fr,
}

impl Trap {
    pub fn random(rng: &mut Rng, nv: usize) -> Self {
        Trap {
            t: (0..nv).map(|_| Fr::rand(rng)).collect(),
            g: rand_nonzero(rng),
            h: rand_nonzero(rng),
        }
    }
    pub fn nv(&self) -> usize {
        self.t.len()
    }
    pub fn pg(&self) -> Vec<Vec<Fr>> {
        eq_tables(&self.t).iter().map(|tb| scale(self.g, tb)).collect()
    }
    pub fn ph(&self) -> Vec<Vec<Fr>> {
        eq_tables(&self.t).iter().map(|tb| scale(self.h, tb)).collect()
    }
    pub fn mask(&self) -> Vec<Fr> {
        scale(self.g, &self.t)
    }
    /// The universal parameters `MultilinearPC::setup` would produce for this trapdoor and these
    /// generators.
    pub fn params(&self) -> PP {
        UniversalParams {
            num_vars: self.nv(),
            powers_of_g: self.pg().iter().map(|v| g1s(v)).collect(),
            powers_of_h: self.ph().iter().map(|v| g2s(v)).collect(),
            g: g1(self.g),
            h: g2(self.h),
            g_mask: g1s(&self.mask()),
        }
    }
    /// the trapdoor a key trimmed to `s` variables is the key of
    pub fn suffix(&self, s: usize) -> Trap {
        Trap {
            t: self.t[self.nv() - s..].to_vec(),
            g: self.g,
            h: self.h,
        }
    }
    pub fn pp_args(&self, r: Req) -> Req {
        r.arg("nv", wire::nat(self.nv()))
            .arg("g", wire::fe(&self.g))
            .arg("h", wire::fe(&self.h))
            .arg("t", wire::fes(&self.t))
    }
}

/// a polynomial in either of the two representations the API accepts
#[derive(Clone)]
pub enum Poly {
    Dense(DenseMultilinearExtension<Fr>),
    Sparse(SparseMultilinearExtension<Fr>),
}

impl Poly {
    pub fn nv(&self) -> usize {
        match self {
            Poly::Dense(p) => p.num_vars(),
            Poly::Sparse(p) => p.num_vars(),
        }
    }
    pub fn evals(&self) -> Vec<Fr> {
        match self {
            Poly::Dense(p) => p.to_evaluations(),
            Poly::Sparse(p) => p.to_evaluations(),
        }
    }
    pub fn evaluate(&self, z: &Vec<Fr>) -> Fr {
        match self {
            Poly::Dense(p) => p.evaluate(z),
            Poly::Sparse(p) => p.evaluate(z),
        }
    }
    pub fn commit(&self, ck: &CK) -> Comm {
        match self {
            Poly::Dense(p) => ML::commit(ck, p),
            Poly::Sparse(p) => ML::commit(ck, p),
        }
    }
    pub fn open(&self, ck: &CK, z: &[Fr]) -> Prf {
        match self {
            Poly::Dense(p) => ML::open(ck, p, z),
            Poly::Sparse(p) => ML::open(ck, p, z),
        }
    }
    pub fn is_sparse(&self) -> bool {
        matches!(self, Poly::Sparse(_))
    }
}

pub fn dense(nv: usize, evals: Vec<Fr>) -> Poly {
    Poly::Dense(DenseMultilinearExtension::from_evaluations_vec(nv, evals))
}

/// Structured generator: zero, constant, random, one-hot, independent of one variable, sparse
/// representation.
pub fn gen_poly(rng: &mut Rng, nv: usize) -> (Poly, &'static str) {
    let n = 1usize << nv;
    match range(rng, 0, 8) {
        0 => (dense(nv, vec![Fr::zero(); n]), "zero"),
        1 => {
            let c = Fr::rand(rng);
            (dense(nv, vec![c; n]), "constant")
        }
        2 => {
            let mut e = vec![Fr::zero(); n];
            e[range(rng, 0, n - 1)] = Fr::rand(rng);
            (dense(nv, e), "one-hot")
        }
        3 => {
            // independent of variable j: evals[x] = evals[x ^ (1<<j)]
            let j = range(rng, 0, nv - 1);
            let mut e: Vec<Fr> = (0..n).map(|_| Fr::rand(rng)).collect();
            for x in 0..n {
                if (x >> j) & 1 == 1 {
                    e[x] = e[x ^ (1 << j)];
                }
            }
            (dense(nv, e), "indep-of-one-var")
        }
        4 | 5 => {
            let k = range(rng, 0, n.min(6));
            let mut pts: Vec<(usize, Fr)> = vec![];
            let mut used = std::collections::BTreeSet::new();
            for _ in 0..k {
                let i = range(rng, 0, n - 1);
                if used.insert(i) {
                    pts.push((i, Fr::rand(rng)));
                }
            }
            (
                Poly::Sparse(SparseMultilinearExtension::from_evaluations(nv, &pts)),
                "sparse-repr",
            )
        }
        _ => (
            Poly::Dense(DenseMultilinearExtension::rand(nv, rng)),
            "random",
        ),
    }
}

pub struct Transcript {
    pub trap: Trap,      // trapdoor of the universal parameters (nv_max variables)
    pub key: Trap,       // trapdoor suffix the trimmed keys belong to (nv variables)
    pub ck: CK,
    pub vk: VK,
    pub poly: Poly,
    pub kind: &'static str,
    pub evals: Vec<Fr>,
    pub point: Vec<Fr>,
    pub v: Fr,
    pub comm: Comm,
    pub proof: Prf,
}

impl Transcript {
    pub fn nv(&self) -> usize {
        self.key.nv()
    }
    pub fn desc(&self) -> String {
        format!(
            "mlpc nv_max={} nv={} kind={}",
            self.trap.nv(),
            self.nv(),
            self.kind
        )
    }
    pub fn key_args(&self, r: Req) -> Req {
        self.trap.pp_args(r).arg("supported", wire::nat(self.nv()))
    }
    pub fn replay(&self, id: &str, seed: u64, extra: &str) -> String {
        format!(
            "# scheme: mlpc (multilinear_pc)\n# case: {}\n# seed: {}\n# {}\n# trapdoor t={} g={} h={}\n# evals={}\n# point={} value={}\n# {}\n# rerun: .build/cargo/debug/pcv-harness {} --seed {} --only {}\n",
            id,
            seed,
            self.desc(),
            wire::fes(&self.trap.t),
            wire::fe(&self.trap.g),
            wire::fe(&self.trap.h),
            wire::fes(&self.evals),
            wire::fes(&self.point),
            wire::fe(&self.v),
            extra,
            id.split('/').next().unwrap_or(""),
            seed,
            id
        )
    }
}

/// An honest transcript on trapdoor-mode keys: parameters for `nv_max` variables, trimmed to `nv`.
/// `Err` = the library refused / aborted on an in-domain request.
pub fn honest(rng: &mut Rng, nv_max: usize, nv: usize) -> Result<Transcript, String> {
    let trap = Trap::random(rng, nv_max);
    let pp = trap.params();
    let (ck, vk) = guarded(|| ML::trim(&pp, nv))?;
    let key = trap.suffix(nv);
    let (poly, kind) = gen_poly(rng, nv);
    let evals = poly.evals();
    let point: Vec<Fr> = (0..nv).map(|_| Fr::rand(rng)).collect();
    let v = poly.evaluate(&point);
    let comm = guarded(|| poly.commit(&ck))?;
    let proof = guarded(|| poly.open(&ck, &point))?;
    Ok(Transcript {
        trap,
        key,
        ck,
        vk,
        poly,
        kind,
        evals,
        point,
        v,
        comm,
        proof,
    })
}

/// `g·f̃(t)`: the scalar of the commitment (own computation: dot product with the own `eq`-table)
pub fn commit_scalar(key: &Trap, evals: &[Fr]) -> Fr {
    let tb = eq_table(&key.t);
    key.g * evals.iter().zip(&tb).map(|(a, b)| *a * b).sum::<Fr>()
}

/// the scalars `h·q̃ᵢ(t_{>i})` of the honest proof (own computation: quotient vectors by folding,
/// their multilinear extensions evaluated by ark-poly)
pub fn proof_scalars(key: &Trap, evals: &[Fr], point: &[Fr]) -> Vec<Fr> {
    let nv = key.nv();
    let mut r = evals.to_vec();
    let mut out = vec![];
    for i in 0..nv {
        let half = r.len() / 2;
        let q: Vec<Fr> = (0..half).map(|b| r[2 * b + 1] - r[2 * b]).collect();
        let r2: Vec<Fr> = (0..half)
            .map(|b| r[2 * b] + point[i] * (r[2 * b + 1] - r[2 * b]))
            .collect();
        let qt = if nv - i - 1 == 0 {
            q[0]
        } else {
            DenseMultilinearExtension::from_evaluations_vec(nv - i - 1, q).evaluate(&key.t[i + 1..].to_vec())
        };
        out.push(key.h * qt);
        r = r2;
    }
    out
}

/// Scalars of the commitment and of every proof element, *checked* against the library's group
/// elements; `None` if one of them differs.
pub fn scalars(t: &Transcript) -> Option<(Fr, Vec<Fr>)> {
    let c = commit_scalar(&t.key, &t.evals);
    let ps = proof_scalars(&t.key, &t.evals, &t.point);
    if g1(c) == t.comm.g_product
        && ps.len() == t.proof.proofs.len()
        && ps.iter().zip(&t.proof.proofs).all(|(s, p)| g2(*s) == *p)
    {
        Some((c, ps))
    } else {
        None
    }
}

/// a verifier key / statement / proof in scalar form (what `mlpc.check` takes)
#[derive(Clone)]
pub struct ScalarClaim {
    pub vnv: usize,
    pub g: Fr,
    pub h: Fr,
    pub mask: Vec<Fr>,
    pub cnv: usize,
    pub c: Fr,
    pub point: Vec<Fr>,
    pub v: Fr,
    pub proofs: Vec<Fr>,
}

impl ScalarClaim {
    pub fn of(t: &Transcript, c: Fr, ps: &[Fr]) -> Self {
        ScalarClaim {
            vnv: t.nv(),
            g: t.key.g,
            h: t.key.h,
            mask: t.key.mask(),
            cnv: t.comm.nv,
            c,
            point: t.point.clone(),
            v: t.v,
            proofs: ps.to_vec(),
        }
    }
    pub fn vk(&self) -> VK {
        VerifierKey {
            nv: self.vnv,
            g: g1(self.g),
            h: g2(self.h),
            g_mask_random: g1s(&self.mask),
        }
    }
    pub fn comm(&self) -> Comm {
        Commitment {
            nv: self.cnv,
            g_product: g1(self.c),
        }
    }
    pub fn proof(&self) -> Prf {
        Proof {
            proofs: g2s(&self.proofs),
        }
    }
    pub fn req(&self) -> Req {
        Req::new("mlpc.check")
            .arg("vnv", wire::nat(self.vnv))
            .arg("g", wire::fe(&self.g))
            .arg("h", wire::fe(&self.h))
            .arg("mask", wire::fes(&self.mask))
            .arg("cnv", wire::nat(self.cnv))
            .arg("c", wire::fe(&self.c))
            .arg("point", wire::fes(&self.point))
            .arg("v", wire::fe(&self.v))
            .arg("proofs", wire::fes(&self.proofs))
    }
    /// run the library verifier on the group-element form of this claim
    pub fn run(&self) -> ImplOutcome {
        let (vk, c, p) = (self.vk(), self.comm(), self.proof());
        check_impl(&vk, &c, &self.point, self.v, &p)
    }
}

pub fn check_impl(vk: &VK, c: &Comm, point: &[Fr], v: Fr, proof: &Prf) -> ImplOutcome {
    match guarded(|| ML::check(vk, c, point, v, proof)) {
        Ok(b) => ImplOutcome::Ok(vec![("b".into(), Expect::Bool(b))]),
        Err(a) => ImplOutcome::Refuse(a),
    }
}

pub fn accepted(o: &ImplOutcome) -> bool {
    matches!(o, ImplOutcome::Ok(kvs) if kvs.iter().any(|(k, e)| k == "b" && matches!(e, Expect::Bool(true))))
}

/// Queue the model requests for an honest transcript: value (`mleEval`), commitment, every proof
/// element, and the keys the library's `trim` returned.
pub fn ask_honest(ctx: &mut Ctx, id: &str, t: &Transcript) {
    ctx.ses.ask(
        id,
        Req::new("mlpc.eval")
            .arg("evals", wire::fes(&t.evals))
            .arg("point", wire::fes(&t.point)),
        ImplOutcome::Ok(vec![("v".into(), Expect::Fe(t.v))]),
    );
    ctx.ses.ask(
        id,
        t.key_args(Req::new("mlpc.commit"))
            .arg("pnv", wire::nat(t.poly.nv()))
            .arg("evals", wire::fes(&t.evals)),
        ImplOutcome::Ok(vec![
            ("cnv".into(), Expect::Nat(t.comm.nv)),
            ("c".into(), Expect::G1(t.comm.g_product)),
        ]),
    );
    let mut exp = vec![("n".to_string(), Expect::Nat(t.proof.proofs.len()))];
    for (i, p) in t.proof.proofs.iter().enumerate() {
        exp.push((format!("pi{}", i), Expect::G2(*p)));
    }
    ctx.ses.ask(
        id,
        t.key_args(Req::new("mlpc.open"))
            .arg("pnv", wire::nat(t.poly.nv()))
            .arg("evals", wire::fes(&t.evals))
            .arg("point", wire::fes(&t.point)),
        ImplOutcome::Ok(exp),
    );
}

/// expectations for the fields of `mlpc.trim` from the keys the library returned (G2 tables: the
/// harness built them from these very scalars, so they are compared as scalars after a group check)
pub fn trim_expect(ck: &CK, vk: &VK, key: &Trap) -> Option<Vec<(String, Expect)>> {
    let ph = key.ph();
    if ck.powers_of_h.len() != ph.len()
        || !ck.powers_of_h.iter().zip(&ph).all(|(a, b)| *a == g2s(b))
        || ck.h != g2(key.h)
        || vk.h != g2(key.h)
    {
        return None;
    }
    let mut exp = vec![
        ("cknv".to_string(), Expect::Nat(ck.nv)),
        ("ckg".to_string(), Expect::G1(ck.g)),
        ("ckh".to_string(), Expect::Fe(key.h)),
        ("vknv".to_string(), Expect::Nat(vk.nv)),
        ("vkg".to_string(), Expect::G1(vk.g)),
        ("vkh".to_string(), Expect::Fe(key.h)),
        ("vkmask".to_string(), Expect::G1s(vk.g_mask_random.clone())),
        ("ckph".to_string(), Expect::Raw(wire::fess(&ph))),
    ];
    for (i, tb) in ck.powers_of_g.iter().enumerate() {
        exp.push((format!("ckpg{}", i), Expect::G1s(tb.clone())));
    }
    // the number of G1 tables, through the list-valued field
    exp.push((
        "ckpg".to_string(),
        Expect::Raw(wire::fess(&key.pg())),
    ));
    Some(exp)
}

// ------------------------------------------------------------------------------------------------
// real-setup mode
// ------------------------------------------------------------------------------------------------

pub struct RealSetup {
    pub pp: PP,
    /// recovered trapdoor (verified `g_mask[i] == tᵢ·g`)
    pub t: Vec<Fr>,
}

/// Run the library's `setup` and recover the trapdoor by replaying a clone of the RNG in the order
/// of draws of `setup`: `G1::rand`, `G2::rand`, then `nv` scalars.
pub fn real_setup(nv: usize, rng: &mut Rng) -> Result<RealSetup, String> {
    let mut replay = rng.clone();
    let pp = guarded(|| ML::setup(nv, rng))?;
    let g = G1Projective::rand(&mut replay);
    let h = G2Projective::rand(&mut replay);
    let t: Vec<Fr> = (0..nv).map(|_| Fr::rand(&mut replay)).collect();
    if g.into_affine() != pp.g || h.into_affine() != pp.h {
        return Err("replayed generators differ from the published g / h (order of draws changed?)".into());
    }
    Ok(RealSetup { pp, t })
}

/// Every element of library-made parameters against the recovered trapdoor; returns the list of
/// discrepancies (empty = well-formed).
pub fn verify_params(rs: &RealSetup) -> Vec<String> {
    let mut bad = vec![];
    let pp = &rs.pp;
    let nv = rs.t.len();
    if pp.num_vars != nv {
        bad.push(format!("num_vars = {} for a setup with {} variables", pp.num_vars, nv));
    }
    let g = pp.g.into_group();
    let h = pp.h.into_group();
    if pp.g_mask != g.batch_mul(&rs.t) {
        bad.push("g_mask != t·g".into());
    }
    let tabs = eq_tables(&rs.t);
    if pp.powers_of_g.len() != nv || pp.powers_of_h.len() != nv {
        bad.push(format!(
            "{} G1 tables and {} G2 tables for {} variables",
            pp.powers_of_g.len(),
            pp.powers_of_h.len(),
            nv
        ));
        return bad;
    }
    for i in 0..nv {
        if pp.powers_of_g[i].len() != 1 << (nv - i) || pp.powers_of_h[i].len() != 1 << (nv - i) {
            bad.push(format!("table {} has {} / {} entries, expected {}", i, pp.powers_of_g[i].len(), pp.powers_of_h[i].len(), 1 << (nv - i)));
            continue;
        }
        if pp.powers_of_g[i] != g.batch_mul(&tabs[i]) {
            bad.push(format!("powers_of_g[{}] != eqTable(t[{}..])·g", i, i));
        }
        if pp.powers_of_h[i] != h.batch_mul(&tabs[i]) {
            bad.push(format!("powers_of_h[{}] != eqTable(t[{}..])·h", i, i));
        }
    }
    bad
}

/// Pairing relations between published elements (no trapdoor involved), on `samples` random entries
/// per table: `e(Pg[i][x], h) = e(g, Ph[i][x])`, `e(Pg[i][2b+1], h) = e(g_mask[i], Ph[i+1][b])`,
/// `e(Pg[i][2b] + Pg[i][2b+1], h) = e(g, Ph[i+1][b])`; last table: `Pg[nv-1] = [g − g_mask, g_mask]`.
pub fn pairing_relations(pp: &PP, rng: &mut Rng, samples: usize) -> Vec<String> {
    let mut bad = vec![];
    let nv = pp.num_vars;
    let e = |a: G1Affine, b: G2Affine| Bls12_381::pairing(a, b);
    for i in 0..nv {
        let len = pp.powers_of_g[i].len();
        for _ in 0..samples.min(len) {
            let x = range(rng, 0, len - 1);
            if e(pp.powers_of_g[i][x], pp.h) != e(pp.g, pp.powers_of_h[i][x]) {
                bad.push(format!("e(Pg[{}][{}], h) != e(g, Ph[{}][{}])", i, x, i, x));
            }
            if i + 1 < nv {
                let b = x / 2;
                if e(pp.powers_of_g[i][2 * b + 1], pp.h) != e(pp.g_mask[i], pp.powers_of_h[i + 1][b]) {
                    bad.push(format!("e(Pg[{}][{}], h) != e(g_mask[{}], Ph[{}][{}])", i, 2 * b + 1, i, i + 1, b));
                }
                let sum = (pp.powers_of_g[i][2 * b].into_group() + pp.powers_of_g[i][2 * b + 1]).into_affine();
                if e(sum, pp.h) != e(pp.g, pp.powers_of_h[i + 1][b]) {
                    bad.push(format!("e(Pg[{}][{}]+Pg[{}][{}], h) != e(g, Ph[{}][{}])", i, 2 * b, i, 2 * b + 1, i + 1, b));
                }
            }
        }
    }
    if nv >= 1 && pp.powers_of_g[nv - 1].len() == 2 {
        let last = &pp.powers_of_g[nv - 1];
        if last[1] != pp.g_mask[nv - 1] || (last[0].into_group() + last[1]).into_affine() != pp.g {
            bad.push("last G1 table is not [g − g_mask, g_mask]".into());
        }
    }
    bad
}
