//! Model-backed runs for the sonic scheme (SonicKZG10, trapdoor mode): `run(ctx, prop)` is called for
//! every property; handle the properties this scheme takes part in and return for the others.
#[path = "sonic.rs"]
pub mod sonic;

use crate::common::*;
use crate::wire;
use crate::Ctx;
use ark_bls12_381::Fr;
use ark_ec::{AffineRepr, CurveGroup};
use ark_ff::{UniformRand, Zero};
use ark_poly::{DenseUVPolynomial, Polynomial};
use ark_poly_commit::{LabeledPolynomial, PCCommitterKey, PolynomialCommitment};
use sonic::*;
use std::ops::Mul;

pub fn run(ctx: &mut Ctx, prop: &str) {
    match prop {
        "C01" => c01(ctx),
        "C02" => c02(ctx),
        "C03" => c03(ctx),
        "C04" => c04(ctx),
        "C05" => c05(ctx),
        "C06" => c06(ctx),
        "C11" => c11(ctx),
        "C08" => c08(ctx),
        "C09" => c09(ctx),
        "C10" => c10(ctx),
        _ => {}
    }
}

fn replay(c: &Case, id: &str, seed: u64, extra: &str) -> String {
    format!(
        "# scheme: sonic\n# case: {}\n# seed: {}\n# {}\n# trapdoor beta={} g={} gamma={} h={}\n# {}\n# rerun: .build/cargo/debug/pcv-harness {} --seed {} --only {}\n",
        id, seed, c.desc(),
        wire::fe(&c.trap.beta), wire::fe(&c.trap.g), wire::fe(&c.trap.gamma), wire::fe(&c.trap.h),
        extra, id.split('/').next().unwrap_or(""), seed, id
    )
}

fn new_case(ctx: &mut Ctx, rng: &mut Rng, id: &str, npoly: usize) -> Option<Case> {
    let max_d = if ctx.thorough { 48 } else { 20 };
    match guarded(|| gen_case(rng, max_d, npoly, true, true)) {
        Ok(Ok(c)) => Some(c),
        Ok(Err(e)) | Err(e) => {
            ctx.rep.expect_fail(id, "sonic/in-domain-setup-refused", &format!("trim/commit refused an in-domain request: {}", e),
                format!("# scheme: sonic\n# case: {}\n# seed: {}\n# {}\n# rerun: .build/cargo/debug/pcv-harness {} --seed {} --only {}\n", id, ctx.seed, e, id.split('/').next().unwrap_or(""), ctx.seed, id));
            None
        }
    }
}

fn counts(ctx: &mut Ctx, c: &Case) {
    for k in &c.kinds { ctx.rep.count(&format!("sonic/poly-{}", k)); }
    ctx.rep.count(&format!("sonic/bounded-{}", c.polys.iter().filter(|p| p.degree_bound().is_some()).count()));
    ctx.rep.count(&format!("sonic/hiding-{}", c.polys.iter().filter(|p| p.hiding_bound().is_some()).count()));
}

// ------------------------------------------------------------------------------------------------
// C01: honest trim / commit / open / check / batch_open / batch_check, all outputs equal the model
// ------------------------------------------------------------------------------------------------
fn c01(ctx: &mut Ctx) {
    let n = ctx.n(25, 300);
    for i in 0..n {
        let id = format!("C01/sonic-model/{}", i);
        if !ctx.selected(&id) { continue; }
        let mut rng = rng_for(ctx.seed, "C01/sonic-model", i as u64);
        let npoly = range(&mut rng, 1, 4);
        let c = match new_case(ctx, &mut rng, &id, npoly) { Some(c) => c, None => continue };
        ask_trim_commit(ctx, &id, &c);
        let (cs, vks) = match (c.comm_scalars(), c.vk_scalars()) {
            (Some(x), Some(y)) => (x, y),
            _ => {
                ctx.rep.expect_fail(&id, "sonic/commitment-not-key-defined", "commitment differs from beta^(D-d)*(g*p(beta)+gamma*r(beta)), or a key element from its trapdoor value", replay(&c, &id, ctx.seed, ""));
                continue;
            }
        };
        match open_all(ctx, &mut rng, &id, &c) {
            Ok(o) => {
                if g1(o.w_s) != o.proof.w {
                    ctx.rep.expect_fail(&id, "sonic/witness-not-key-defined", "witness differs from the trapdoor-defined value", replay(&c, &id, ctx.seed, ""));
                } else {
                    let out = check_scalar(ctx, &id, &c, &vks, &vks, &cs, o.z, &o.values, o.w_s, o.proof.random_v);
                    if out != Outcome3::Accept {
                        ctx.rep.expect_fail(&id, "sonic/honest-rejected", &format!("honest proof not accepted: {:?}", out), replay(&c, &id, ctx.seed, "check(honest)"));
                    }
                }
            }
            Err(e) => ctx.rep.expect_fail(&id, "sonic/honest-open-refused", &format!("open refused: {}", e), replay(&c, &id, ctx.seed, "")),
        }
        // trait-default batch_open + Sonic batch_check
        let nl = range(&mut rng, 1, 3);
        let (qs, ev) = gen_queries(&mut rng, &c, nl);
        match batch_open(ctx, &mut rng, &id, &c, &qs) {
            Ok((proofs, ws)) => {
                if ws.len() == proofs.len() && ws.iter().zip(&proofs).all(|(w, p)| g1(*w) == p.w) {
                    let rvs: Vec<Option<Fr>> = proofs.iter().map(|p| p.random_v).collect();
                    let out = batch_check_scalar(ctx, &mut rng, &id, &c, &cs, &qs, &ev, &ws, &rvs);
                    if out != Outcome3::Accept {
                        ctx.rep.expect_fail(&id, "sonic/honest-batch-rejected", &format!("honest batch not accepted: {:?}", out), replay(&c, &id, ctx.seed, "batch_check(honest)"));
                    }
                } else {
                    ctx.rep.expect_fail(&id, "sonic/witness-not-key-defined", "batch witness differs from the trapdoor-defined value", replay(&c, &id, ctx.seed, ""));
                }
            }
            Err(e) => ctx.rep.expect_fail(&id, "sonic/honest-open-refused", &format!("batch_open refused: {}", e), replay(&c, &id, ctx.seed, "")),
        }
        counts(ctx, &c);
        ctx.rep.case(&c.desc(), Some(format!("sonic/{}/{}/{}", npoly, c.polys.iter().filter(|p| p.degree_bound().is_some()).count(), c.polys.iter().filter(|p| p.hiding_bound().is_some()).count())));
    }
    ctx.flush_model("C01-sonic");
}

// ------------------------------------------------------------------------------------------------
// mutation catalogue
// ------------------------------------------------------------------------------------------------
#[derive(Clone, Copy, Debug, PartialEq, Eq)]
pub enum M {
    Value, Point, Comm, CommOtherPoly,
    BoundRelabel, BoundDrop, BoundAdd, BoundRelabelUnenforced,
    Witness, RandomV, RandomVToggle,
    VkG, VkGamma, VkH, VkBetaH, VkNegH,
}
pub const STATEMENT: &[M] = &[M::Value, M::Point, M::Comm, M::CommOtherPoly];
pub const BOUNDS: &[M] = &[M::BoundRelabel, M::BoundDrop, M::BoundAdd, M::BoundRelabelUnenforced];
pub const PROOF: &[M] = &[M::Witness, M::RandomV, M::RandomVToggle];
pub const KEY: &[M] = &[M::VkG, M::VkGamma, M::VkH, M::VkBetaH, M::VkNegH];

/// a degree bound the key was not trimmed for, by category: below the smallest enforced bound, in a
/// gap between two enforced bounds, above the largest (up to D + 1); `None` if no such bound exists
pub fn unenforced_bound(rng: &mut Rng, enforced: &[usize], big_d: usize) -> Option<(usize, &'static str)> {
    let mut cats: Vec<(Vec<usize>, &'static str)> = vec![];
    if enforced.is_empty() {
        cats.push(((0..=big_d + 1).collect(), "no-bounds"));
    } else {
        let lo = enforced[0];
        let hi = *enforced.last().unwrap();
        let below: Vec<usize> = (0..lo).collect();
        let between: Vec<usize> = (lo..hi).filter(|d| !enforced.contains(d)).collect();
        let above: Vec<usize> = (hi + 1..=big_d + 1).collect();
        if !below.is_empty() { cats.push((below, "below")); }
        if !between.is_empty() { cats.push((between, "between")); }
        if !above.is_empty() { cats.push((above, "above")); }
    }
    if cats.is_empty() { return None; }
    // gaps first when there are any: they are the rarest category
    let k = if cats.iter().any(|c| c.1 == "between") && coin(rng) { cats.iter().position(|c| c.1 == "between").unwrap() } else { range(rng, 0, cats.len() - 1) };
    let (v, name) = &cats[k];
    Some((v[range(rng, 0, v.len() - 1)], name))
}

/// Apply one mutation to an honest single-point transcript; returns (outcome, must_refuse).
/// Every mutation is applied in scalar space, so the model decides the very same statement.
pub fn mutate(ctx: &mut Ctx, rng: &mut Rng, id: &str, c: &Case, cs0: &[CommS], vks: &VkS, o: &Opened, m: M) -> Option<(Outcome3, bool)> {
    let mut cs = cs0.to_vec();
    let mut vs = o.values.clone();
    let mut z = o.z;
    let mut w = o.w_s;
    let mut rv = o.proof.random_v;
    let mut vk = vks.clone();
    let j = range(rng, 0, cs.len() - 1);
    let bounded: Vec<usize> = (0..cs.len()).filter(|&i| cs[i].bound.is_some()).collect();
    let enforced: Vec<usize> = c.ck.enforced_degree_bounds.clone().unwrap_or_default();
    let big_d = c.trap.max_degree;
    let must;
    match m {
        // defect = -g*h*xi_j*delta
        M::Value => { vs[j] += rand_nonzero(rng); must = true; }
        // defect = h*W*dz; W vanishes only when every p_j and r_j is constant, and then the claim stays true
        M::Point => { z += rand_nonzero(rng); must = c.polys.iter().zip(&vs).any(|(p, v)| p.evaluate(&z) != *v); }
        // defect = xi_j*delta*shift(b_j)
        M::Comm => { cs[j].c += rand_nonzero(rng); must = true; }
        M::CommOtherPoly => {
            let hi = cs[j].bound.unwrap_or(c.supported);
            let q = UniPoly::rand(range(rng, 0, hi), rng);
            let newc = c.shift(cs[j].bound) * c.trap.g * q.evaluate(&c.trap.beta);
            must = newc != cs[j].c;
            cs[j].c = newc;
        }
        // accepted iff xi*C*(beta^-(D-d') - beta^-(D-d))*h = 0
        M::BoundRelabel => {
            let i = *bounded.get(range(rng, 0, bounded.len().max(1) - 1))?;
            let other: Vec<usize> = enforced.iter().cloned().filter(|d| Some(*d) != cs[i].bound).collect();
            if other.is_empty() { return None; }
            cs[i].bound = Some(other[range(rng, 0, other.len() - 1)]);
            must = !cs[i].c.is_zero();
        }
        // the bound D itself has shift beta^0: dropping it does not change the statement
        M::BoundDrop => {
            let i = *bounded.get(range(rng, 0, bounded.len().max(1) - 1))?;
            let d = cs[i].bound?;
            cs[i].bound = None;
            must = !cs[i].c.is_zero() && d != big_d;
        }
        M::BoundAdd => {
            let i = (0..cs.len()).find(|&i| cs[i].bound.is_none())?;
            if enforced.is_empty() { return None; }
            let d = enforced[range(rng, 0, enforced.len() - 1)];
            cs[i].bound = Some(d);
            must = !cs[i].c.is_zero() && d != big_d;
        }
        // a bound the keys were NOT trimmed for — below the smallest enforced bound, in a gap between
        // two enforced bounds, or above the largest: refused with UnsupportedDegreeBound
        M::BoundRelabelUnenforced => {
            let i = if bounded.is_empty() { j } else { bounded[range(rng, 0, bounded.len() - 1)] };
            let (d, cat) = unenforced_bound(rng, &enforced, big_d)?;
            cs[i].bound = Some(d);
            ctx.rep.count(&format!("sonic/unenforced-{}", cat));
            must = true;
        }
        M::Witness => { w = Fr::rand(rng); must = false; }
        M::RandomV => { rv = Some(Fr::rand(rng)); must = false; }
        M::RandomVToggle => { rv = match rv { Some(_) => None, None => Some(rand_nonzero(rng)) }; must = false; }
        M::VkG => { vk.g = rand_nonzero(rng); must = false; }
        M::VkGamma => { vk.gamma_g = rand_nonzero(rng); must = false; }
        M::VkH => { vk.h = rand_nonzero(rng); must = false; }
        M::VkBetaH => { vk.beta_h = rand_nonzero(rng); must = false; }
        M::VkNegH => {
            let l = vk.neg_h.as_mut()?;
            if l.is_empty() { return None; }
            let k = range(rng, 0, l.len() - 1);
            l[k].1 = rand_nonzero(rng);
            must = false;
        }
    }
    let out = check_scalar(ctx, id, c, vks, &vk, &cs, z, &vs, w, rv);
    Some((out, must))
}

fn mutation_run(ctx: &mut Ctx, prop: &str, muts: &[M], n: usize) {
    for i in 0..n {
        let id0 = format!("{}/sonic-model/{}", prop, i);
        if !ctx.selected(&id0) { continue; }
        let mut rng = rng_for(ctx.seed, &format!("{}/sonic-model", prop), i as u64);
        let npoly = range(&mut rng, 1, 3);
        let c = match new_case(ctx, &mut rng, &id0, npoly) { Some(c) => c, None => continue };
        let (cs, vks) = match (c.comm_scalars(), c.vk_scalars()) { (Some(x), Some(y)) => (x, y), _ => continue };
        let o = match open_all(ctx, &mut rng, &id0, &c) { Ok(o) => o, Err(_) => continue };
        if g1(o.w_s) != o.proof.w { continue; }
        for m in muts {
            let id = format!("{}/{:?}", id0, m);
            if let Some((out, must)) = mutate(ctx, &mut rng, &id, &c, &cs, &vks, &o, *m) {
                ctx.rep.count(&format!("sonic/mut-{:?}", m));
                if must && out == Outcome3::Accept {
                    ctx.rep.expect_fail(&id, &format!("sonic/false-claim-accepted/{:?}", m), "verifier accepted a changed statement", replay(&c, &id, ctx.seed, &format!("mutation {:?}", m)));
                }
                ctx.rep.case(&format!("{} mutation={:?} out={:?}", c.desc(), m, out), Some(format!("sonic/{:?}/{}/{}", m, npoly, c.polys.iter().filter(|p| p.degree_bound().is_some()).count())));
            }
        }
    }
    ctx.flush_model(&format!("{}-sonic", prop));
}

fn c02(ctx: &mut Ctx) {
    let n = ctx.n(20, 300);
    mutation_run(ctx, "C02", STATEMENT, n);
    let n = ctx.n(8, 150);
    batch_mutations(ctx, "C02", n);
}
fn c03(ctx: &mut Ctx) {
    let n = ctx.n(15, 200);
    mutation_run(ctx, "C03", PROOF, n);
    let n = ctx.n(15, 200);
    forged(ctx, "C03", n);
    let n = ctx.n(6, 100);
    batch_mutations(ctx, "C03", n);
}
fn c04(ctx: &mut Ctx) {
    let n = ctx.n(30, 400);
    mutation_run(ctx, "C04", BOUNDS, n);
    let n = ctx.n(6, 100);
    batch_mutations(ctx, "C04", n);
    let n = ctx.n(60, 600);
    admission(ctx, n);
    let n = ctx.n(25, 300);
    lc_bounds(ctx, "C04", n);
}
fn c05(ctx: &mut Ctx) {
    let n = ctx.n(14, 200);
    batch_mutations(ctx, "C05", n);
}
fn c10(ctx: &mut Ctx) {
    let n = ctx.n(15, 250);
    let all: Vec<M> = STATEMENT.iter().chain(BOUNDS).chain(PROOF).chain(KEY).cloned().collect();
    mutation_run(ctx, "C10", &all, n);
    let n = ctx.n(5, 80);
    batch_mutations(ctx, "C10", n);
    let n = ctx.n(10, 150);
    lc_bounds(ctx, "C10", n);
}

// ------------------------------------------------------------------------------------------------
// degree-bound labels through `open_combinations` / `check_combinations` (expectation only here; the
// model-backed run of the linear-combination entry points is `c06` below): honest single-term LCs are
// accepted; the same transcript with the commitment presented under a bound the keys were not trimmed
// for, or an unbounded commitment presented under an enforced bound, must not be
// ------------------------------------------------------------------------------------------------
fn lc_bounds(ctx: &mut Ctx, prop: &str, n: usize) {
    use ark_poly_commit::{Evaluations, LabeledCommitment, LinearCombination, QuerySet};
    for i in 0..n {
        let id = format!("{}/sonic-model-lc/{}", prop, i);
        if !ctx.selected(&id) { continue; }
        let mut rng = rng_for(ctx.seed, &format!("{}/sonic-model-lc", prop), i as u64);
        let npoly = range(&mut rng, 1, 3);
        let c = match new_case(ctx, &mut rng, &id, npoly) { Some(c) => c, None => continue };
        let enforced: Vec<usize> = c.ck.enforced_degree_bounds.clone().unwrap_or_default();
        let bounded: Vec<usize> = (0..c.polys.len()).filter(|&k| c.polys[k].degree_bound().is_some()).collect();
        let k = if !bounded.is_empty() && range(&mut rng, 0, 3) != 0 { bounded[range(&mut rng, 0, bounded.len() - 1)] } else { range(&mut rng, 0, c.polys.len() - 1) };
        let pk = &c.polys[k];
        // the only LC shape that may carry a degree bound: one term, coefficient one
        let lcs = vec![LinearCombination::new("lc0".to_string(), vec![(Fr::from(1u64), pk.label().clone())])];
        let z = Fr::rand(&mut rng);
        let mut qs = QuerySet::new();
        qs.insert(("lc0".to_string(), ("pt".to_string(), z)));
        let mut ev = Evaluations::new();
        ev.insert(("lc0".to_string(), z), pk.evaluate(&z));
        let mut sp = LogSponge::fresh();
        let proof = match guarded(|| PC::open_combinations(&c.ck, &lcs, &c.polys, &c.comms, &qs, &mut sp, &c.rands, Some(&mut rng.clone()))) {
            Ok(Ok(p)) => p,
            other => {
                ctx.rep.expect_fail(&id, "sonic/lc-honest-refused", &format!("open_combinations refused a single-term LC: {:?}", other.map(|r| r.map(|_| ()).map_err(|e| err_kind(&e)))), replay(&c, &id, ctx.seed, "open_combinations"));
                continue;
            }
        };
        let run = |comms: &[LC], rng: &mut Rng| -> Outcome3 {
            let mut vs = LogSponge::fresh();
            match guarded(|| PC::check_combinations(&c.vk, &lcs, comms, &qs, &ev, &proof, &mut vs, rng)) {
                Ok(Ok(true)) => Outcome3::Accept,
                Ok(Ok(false)) => Outcome3::Reject,
                _ => Outcome3::Refuse,
            }
        };
        let honest = run(&c.comms, &mut rng);
        if honest != Outcome3::Accept {
            ctx.rep.expect_fail(&id, "sonic/lc-honest-rejected", &format!("honest single-term LC not accepted: {:?}", honest), replay(&c, &id, ctx.seed, "check_combinations(honest)"));
        }
        ctx.rep.case(&format!("{} lc honest term={} out={:?}", c.desc(), pk.label(), honest), Some(format!("sonic-lc/honest/{:?}", pk.degree_bound().is_some())));
        let relabel = |d: Option<usize>| -> Vec<LC> {
            c.comms.iter().enumerate().map(|(j, x)| if j == k { LabeledCommitment::new(x.label().clone(), x.commitment().clone(), d) } else { x.clone() }).collect()
        };
        let nonzero = c.comms[k].commitment().0 != g1(Fr::from(0u64));
        // (a) a bound the keys were not trimmed for
        if let Some((d, cat)) = unenforced_bound(&mut rng, &enforced, c.trap.max_degree) {
            let out = run(&relabel(Some(d)), &mut rng);
            if out == Outcome3::Accept {
                ctx.rep.expect_fail(&format!("{}/unenforced", id), "sonic/false-claim-accepted/lc-BoundRelabelUnenforced", "check_combinations accepted a commitment presented under a bound the keys were not trimmed for", replay(&c, &id, ctx.seed, &format!("bound relabelled to {} ({})", d, cat)));
            }
            ctx.rep.count(&format!("sonic/lc-unenforced-{}", cat));
            ctx.rep.case(&format!("{} lc relabel-unenforced {} ({}) out={:?}", c.desc(), d, cat, out), Some(format!("sonic-lc/unenforced-{}/{:?}", cat, pk.degree_bound().is_some())));
        }
        // (b) another enforced bound / an enforced bound on an unbounded commitment / the bound dropped
        let others: Vec<usize> = enforced.iter().cloned().filter(|d| Some(*d) != pk.degree_bound()).collect();
        if !others.is_empty() {
            let d = others[range(&mut rng, 0, others.len() - 1)];
            let out = run(&relabel(Some(d)), &mut rng);
            let kind = if pk.degree_bound().is_some() { "BoundRelabel" } else { "BoundAdd" };
            // the bound D has the shift beta^0, the same G2 element as "no bound"
            let must = nonzero && !(pk.degree_bound().is_none() && d == c.trap.max_degree);
            if must && out == Outcome3::Accept {
                ctx.rep.expect_fail(&format!("{}/{}", id, kind), &format!("sonic/false-claim-accepted/lc-{}", kind), "check_combinations accepted a commitment presented under another degree bound", replay(&c, &id, ctx.seed, &format!("bound {:?} presented as {}", pk.degree_bound(), d)));
            }
            ctx.rep.count(&format!("sonic/lc-{}", kind));
            ctx.rep.case(&format!("{} lc {} -> {} out={:?}", c.desc(), kind, d, out), Some(format!("sonic-lc/{}", kind)));
        }
        if let Some(d0) = pk.degree_bound() {
            let out = run(&relabel(None), &mut rng);
            if nonzero && d0 != c.trap.max_degree && out == Outcome3::Accept {
                ctx.rep.expect_fail(&format!("{}/BoundDrop", id), "sonic/false-claim-accepted/lc-BoundDrop", "check_combinations accepted a bounded commitment presented without its bound", replay(&c, &id, ctx.seed, "bound dropped"));
            }
            ctx.rep.count("sonic/lc-BoundDrop");
            ctx.rep.case(&format!("{} lc BoundDrop out={:?}", c.desc(), out), Some("sonic-lc/BoundDrop".to_string()));
        }
    }
}

/// forged proofs together with a false value: honest prover on another polynomial; proof for another point
fn forged(ctx: &mut Ctx, prop: &str, n: usize) {
    for i in 0..n {
        let id = format!("{}/sonic-model-forge/{}", prop, i);
        if !ctx.selected(&id) { continue; }
        let mut rng = rng_for(ctx.seed, &format!("{}/sonic-model-forge", prop), i as u64);
        let c = match new_case(ctx, &mut rng, &id, 1) { Some(c) => c, None => continue };
        let (cs, vks) = match (c.comm_scalars(), c.vk_scalars()) { (Some(x), Some(y)) => (x, y), _ => continue };
        let p0 = &c.polys[0];
        // prover run on q (same bound / state) against commitment(p), claiming q(z)
        let hi = p0.degree_bound().unwrap_or(c.supported);
        let q = UniPoly::rand(p0.degree().max(1).min(hi), &mut rng);
        let lq = LabeledPolynomial::new(p0.label().clone(), q.clone(), p0.degree_bound(), p0.hiding_bound());
        let z = Fr::rand(&mut rng);
        if let Ok(o) = open_at(ctx, &mut rng, &format!("{}/other-polynomial", id), &c, &[lq.clone()], &c.comms, &c.rands, z) {
            let v = q.evaluate(&z);
            if v != p0.evaluate(&z) && g1(o.w_s) == o.proof.w {
                let out = check_scalar(ctx, &format!("{}/other-polynomial", id), &c, &vks, &vks, &cs, z, &[v], o.w_s, o.proof.random_v);
                if out == Outcome3::Accept {
                    ctx.rep.expect_fail(&id, "sonic/forged-proof-accepted/other-polynomial", "proof made from another polynomial accepted for a false value", replay(&c, &id, ctx.seed, "prover run on q against commitment(p)"));
                }
                ctx.rep.count("sonic/forge-other-polynomial");
                ctx.rep.case(&format!("{} forge=other-polynomial", c.desc()), Some(format!("sonic/forge/otherpoly/{}", p0.degree())));
            }
        }
        // proof for (p, z') presented at z with the value p(z')
        let z2 = Fr::rand(&mut rng);
        if let Ok(o) = open_at(ctx, &mut rng, &format!("{}/other-point", id), &c, &c.polys, &c.comms, &c.rands, z2) {
            let v = p0.evaluate(&z2);
            if v != p0.evaluate(&z) && g1(o.w_s) == o.proof.w {
                let out = check_scalar(ctx, &format!("{}/other-point", id), &c, &vks, &vks, &cs, z, &[v], o.w_s, o.proof.random_v);
                if out == Outcome3::Accept {
                    ctx.rep.expect_fail(&id, "sonic/forged-proof-accepted/other-point", "proof for another point accepted", replay(&c, &id, ctx.seed, "replayed proof"));
                }
                ctx.rep.count("sonic/forge-other-point");
                ctx.rep.case(&format!("{} forge=other-point", c.desc()), Some(format!("sonic/forge/otherpoint/{}", p0.degree())));
            }
        }
    }
    ctx.flush_model(&format!("{}-sonic-forge", prop));
}

/// batches: false claims at every position, cancelling errors, proof-list shapes, commitment changes
fn batch_mutations(ctx: &mut Ctx, prop: &str, n: usize) {
    for i in 0..n {
        let id0 = format!("{}/sonic-model-batch/{}", prop, i);
        if !ctx.selected(&id0) { continue; }
        let mut rng = rng_for(ctx.seed, &format!("{}/sonic-model-batch", prop), i as u64);
        let npoly = range(&mut rng, 2, 4);
        let c = match new_case(ctx, &mut rng, &id0, npoly) { Some(c) => c, None => continue };
        let cs = match c.comm_scalars() { Some(x) => x, None => continue };
        let nl = range(&mut rng, 2, 3);
        let (mut qs, mut ev) = gen_queries(&mut rng, &c, nl);
        if i % 3 == 1 {
            // two point labels carrying ONE point value, disjoint polynomials under them (+ a third label elsewhere)
            qs = QuerySet::new();
            ev = Evaluations::new();
            let z = Fr::rand(&mut rng);
            let z2 = Fr::rand(&mut rng);
            for (j, p) in c.polys.iter().enumerate() {
                // the two equal point values sit under labels (pt0, pt1), (pt0, pt2) or (pt1, pt2) in turn
                let (pl, pt) = match ((i / 3) % 3, j) {
                    (0, 0) => ("pt0", z), (0, 1) => ("pt1", z), (0, _) => ("pt2", z2),
                    (1, 0) => ("pt0", z), (1, 1) => ("pt2", z), (1, _) => ("pt1", z2),
                    (_, 0) => ("pt1", z), (_, 1) => ("pt2", z), (_, _) => ("pt0", z2),
                };
                qs.insert((p.label().clone(), (pl.to_string(), pt)));
                ev.insert((p.label().clone(), pt), p.evaluate(&pt));
            }
            ctx.rep.count("sonic/batch-equal-point-values");
        }
        let (proofs, ws) = match batch_open(ctx, &mut rng, &id0, &c, &qs) { Ok(x) => x, Err(_) => continue };
        if ws.len() != proofs.len() || !ws.iter().zip(&proofs).all(|(w, p)| g1(*w) == p.w) { continue; }
        let rvs: Vec<Option<Fr>> = proofs.iter().map(|p| p.random_v).collect();
        let keys: Vec<(String, Fr)> = ev.keys().cloned().collect();
        // all-true: accepted for several verifier RNG states (different randomizer lists)
        for s in 0..2 {
            let mut vr = rng_for(ctx.seed ^ 0x5eed, &id0, s);
            let honest = batch_check_scalar(ctx, &mut vr, &format!("{}/honest{}", id0, s), &c, &cs, &qs, &ev, &ws, &rvs);
            if honest != Outcome3::Accept {
                ctx.rep.expect_fail(&id0, "sonic/honest-batch-rejected", "honest batch rejected", replay(&c, &id0, ctx.seed, ""));
            }
        }
        ctx.rep.case(&format!("{} batch honest", c.desc()), Some(format!("sonic-batch/{}/{}/honest", npoly, nl)));
        for k in 0..keys.len() {
            let id = format!("{}/value@{}", id0, k);
            let mut ev2 = ev.clone();
            *ev2.get_mut(&keys[k]).unwrap() += rand_nonzero(&mut rng);
            let out = batch_check_scalar(ctx, &mut rng, &id, &c, &cs, &qs, &ev2, &ws, &rvs);
            if out == Outcome3::Accept {
                ctx.rep.expect_fail(&id, "sonic/false-claim-accepted/batch-value", "batch with one false value accepted", replay(&c, &id, ctx.seed, &format!("value at {:?} perturbed", keys[k].0)));
            }
            ctx.rep.count("sonic/batch-value");
            ctx.rep.case(&format!("{} batch value@{} out={:?}", c.desc(), k, out), Some(format!("sonic-batch/{}/{}/value{}", npoly, nl, k)));
        }
        if keys.len() >= 2 {
            // cancelling errors within one point (two polynomials at the same point) when available
            let mut pair = None;
            for a in 0..keys.len() { for b in a + 1..keys.len() { if keys[a].1 == keys[b].1 && pair.is_none() { pair = Some((a, b)); } } }
            let (a, b) = pair.unwrap_or((0, 1));
            let id = format!("{}/cancel@{},{}", id0, a, b);
            let d = rand_nonzero(&mut rng);
            let mut ev2 = ev.clone();
            *ev2.get_mut(&keys[a]).unwrap() += d;
            *ev2.get_mut(&keys[b]).unwrap() -= d;
            let out = batch_check_scalar(ctx, &mut rng, &id, &c, &cs, &qs, &ev2, &ws, &rvs);
            if out == Outcome3::Accept {
                ctx.rep.expect_fail(&id, "sonic/false-claim-accepted/batch-cancelling", "cancelling errors accepted", replay(&c, &id, ctx.seed, "cancelling errors"));
            }
            ctx.rep.count(if pair.is_some() { "sonic/batch-cancel-same-point" } else { "sonic/batch-cancel-across-points" });
            ctx.rep.case(&format!("{} batch cancel out={:?}", c.desc(), out), Some(format!("sonic-batch/{}/{}/cancel{}", npoly, nl, pair.is_some())));
        }
        {
            // challenge-weighted cancelling errors across two point labels: e_a = D/xi_a at one label,
            // e_b = -D/xi_b at another: the two per-point defects are +-g*h*D and the batch defect is
            // g*h*D*(rho_1 - 1) != 0: must be rejected
            let groups = crate::generic::group(&qs);
            if groups.len() >= 2 {
                let (_, pt0, l0) = &groups[0];
                let (_, pt1, l1) = &groups[1];
                let ka = (l0[0].clone(), *pt0);
                let kb = (l1[0].clone(), *pt1);
                let xis = fresh_challenges(qs.len() + groups.len() + 2);
                let (xa, xb) = (xis[0], xis[1 + l0.len()]);
                if ka != kb && !xa.is_zero() && !xb.is_zero() {
                    let id = format!("{}/weighted-cancel", id0);
                    let dd = rand_nonzero(&mut rng);
                    let mut ev2 = ev.clone();
                    *ev2.get_mut(&ka).unwrap() += dd * ark_ff::Field::inverse(&xa).unwrap();
                    *ev2.get_mut(&kb).unwrap() -= dd * ark_ff::Field::inverse(&xb).unwrap();
                    let out = batch_check_scalar(ctx, &mut rng, &id, &c, &cs, &qs, &ev2, &ws, &rvs);
                    if out == Outcome3::Accept {
                        ctx.rep.expect_fail(&id, "sonic/false-claim-accepted/batch-weighted-cancelling", "errors cancelling under the challenge weights across two point labels accepted", replay(&c, &id, ctx.seed, "challenge-weighted cancelling errors"));
                    }
                    ctx.rep.count("sonic/batch-weighted-cancel");
                    ctx.rep.case(&format!("{} batch weighted-cancel out={:?}", c.desc(), out), Some(format!("sonic-batch/{}/{}/wcancel", npoly, nl)));
                }
            }
            // a queried commitment presented under a bound the keys were not trimmed for: refused
            let enforced: Vec<usize> = c.ck.enforced_degree_bounds.clone().unwrap_or_default();
            let queried: Vec<usize> = (0..cs.len()).filter(|&i| qs.iter().any(|q| q.0 == cs[i].label)).collect();
            let queried_bounded: Vec<usize> = queried.iter().cloned().filter(|&i| cs[i].bound.is_some()).collect();
            let pool = if queried_bounded.is_empty() { &queried } else { &queried_bounded };
            if let (Some(&i), Some((d, cat))) = (pool.get(range(&mut rng, 0, pool.len().max(1) - 1)), unenforced_bound(&mut rng, &enforced, c.trap.max_degree)) {
                let id = format!("{}/relabel-unenforced@{}", id0, i);
                let mut cs2 = cs.clone();
                cs2[i].bound = Some(d);
                let out = batch_check_scalar(ctx, &mut rng, &id, &c, &cs2, &qs, &ev, &ws, &rvs);
                if out == Outcome3::Accept {
                    ctx.rep.expect_fail(&id, "sonic/false-claim-accepted/batch-BoundRelabelUnenforced", "batch accepted a commitment presented under a bound the keys were not trimmed for", replay(&c, &id, ctx.seed, &format!("bound relabelled to {} ({})", d, cat)));
                }
                ctx.rep.count(&format!("sonic/batch-unenforced-{}", cat));
                ctx.rep.case(&format!("{} batch relabel-unenforced {} ({}) out={:?}", c.desc(), d, cat, out), Some(format!("sonic-batch/{}/{}/unenforced-{}", npoly, nl, cat)));
            }
        }
        {
            // value errors at two point labels that cancel EXACTLY under the challenges and the
            // randomizer the verifier is about to draw (delta_1 = -xi_a*delta_0/(rho_1*xi_b)): the
            // exceptional set of C05's `sum rho_k*Delta_k = 0`.  Outside the property's quantifier (the
            // randomizer is sampled after the statement), so only `equals-model` is asserted: it pins
            // down which randomizer scales which point label and which challenge meets which value.
            let groups = crate::generic::group(&qs);
            if groups.len() >= 2 {
                let (_, pt0, l0) = &groups[0];
                let (_, pt1, l1) = &groups[1];
                let ka = (l0[0].clone(), *pt0);
                let kb = (l1[0].clone(), *pt1);
                if pt0 != pt1 {
                    let xis = fresh_challenges(qs.len() + groups.len() + 2);
                    let rho1 = crate::kzg::replay_u128(&rng, 1)[0];
                    let (xa, xb) = (xis[0], xis[1 + l0.len()]);
                    if let Some(inv) = ark_ff::Field::inverse(&(rho1 * xb)) {
                        let d0 = rand_nonzero(&mut rng.clone());
                        let d1 = -(xa * d0) * inv;
                        let id = format!("{}/crafted-cancel", id0);
                        let mut ev2 = ev.clone();
                        *ev2.get_mut(&ka).unwrap() += d0;
                        *ev2.get_mut(&kb).unwrap() += d1;
                        let out = batch_check_scalar(ctx, &mut rng, &id, &c, &cs, &qs, &ev2, &ws, &rvs);
                        ctx.rep.count(&format!("sonic/batch-crafted-cancel-{:?}", out));
                        ctx.rep.case(&format!("{} batch crafted-cancel out={:?}", c.desc(), out), Some(format!("sonic-batch/{}/{}/crafted", npoly, nl)));
                    }
                }
            }
        }
        {
            // one commitment changed / one witness changed (single-fault neighbourhood of the batch)
            let queried: Vec<usize> = (0..cs.len()).filter(|&i| qs.iter().any(|q| q.0 == cs[i].label)).collect();
            if let Some(&j) = queried.get(range(&mut rng, 0, queried.len().max(1) - 1)) {
                let id = format!("{}/comm@{}", id0, j);
                let mut cs2 = cs.clone();
                cs2[j].c += rand_nonzero(&mut rng);
                let out = batch_check_scalar(ctx, &mut rng, &id, &c, &cs2, &qs, &ev, &ws, &rvs);
                if out == Outcome3::Accept {
                    ctx.rep.expect_fail(&id, "sonic/false-claim-accepted/batch-commitment", "batch with a changed commitment accepted", replay(&c, &id, ctx.seed, "commitment changed"));
                }
                ctx.rep.count("sonic/batch-comm");
                ctx.rep.case(&format!("{} batch comm@{} out={:?}", c.desc(), j, out), Some(format!("sonic-batch/{}/{}/comm", npoly, nl)));
            }
            let k = range(&mut rng, 0, ws.len() - 1);
            let id = format!("{}/witness@{}", id0, k);
            let mut ws2 = ws.clone();
            ws2[k] = Fr::rand(&mut rng);
            let out = batch_check_scalar(ctx, &mut rng, &id, &c, &cs, &qs, &ev, &ws2, &rvs);
            ctx.rep.count("sonic/batch-witness");
            ctx.rep.case(&format!("{} batch witness@{} out={:?}", c.desc(), k, out), Some(format!("sonic-batch/{}/{}/witness", npoly, nl)));
        }
        if prop == "C05" || prop == "C03" {
            // proof-list shapes with a false claim planted
            let mut ev2 = ev.clone();
            *ev2.get_mut(&keys[0]).unwrap() += rand_nonzero(&mut rng);
            let mut shapes: Vec<(&str, Vec<Fr>, Vec<Option<Fr>>)> = vec![("empty", vec![], vec![])];
            shapes.push(("truncated", ws[..ws.len() - 1].to_vec(), rvs[..rvs.len() - 1].to_vec()));
            let mut e = ws.clone(); e.push(ws[0]); let mut er = rvs.clone(); er.push(rvs[0]);
            shapes.push(("extended", e, er));
            if ws.len() >= 2 {
                let mut p = ws.clone(); p.swap(0, 1); let mut pr = rvs.clone(); pr.swap(0, 1);
                shapes.push(("swapped", p, pr));
            }
            for (sname, w2, r2) in shapes {
                let id = format!("{}/shape-{}", id0, sname);
                let out = batch_check_scalar(ctx, &mut rng, &id, &c, &cs, &qs, &ev2, &w2, &r2);
                if out == Outcome3::Accept {
                    ctx.rep.expect_fail(&id, &format!("sonic/false-claim-accepted/shape-{}", sname), "false claim accepted with a malformed proof list", replay(&c, &id, ctx.seed, sname));
                }
                ctx.rep.count(&format!("sonic/shape-{}", sname));
                ctx.rep.case(&format!("{} shape={} out={:?}", c.desc(), sname, out), Some(format!("sonic-batch/{}/shape-{}", npoly, sname)));
            }
            // a queried label without commitment / without evaluation: refused
            let id = format!("{}/missing-comm", id0);
            let gone = keys[0].0.clone();
            let cs2: Vec<CommS> = cs.iter().filter(|x| x.label != gone).cloned().collect();
            let out = batch_check_scalar(ctx, &mut rng, &id, &c, &cs2, &qs, &ev2, &ws, &rvs);
            if out == Outcome3::Accept {
                ctx.rep.expect_fail(&id, "sonic/false-claim-accepted/missing-commitment", "batch accepted although a queried commitment is missing", replay(&c, &id, ctx.seed, "missing commitment"));
            }
            let id = format!("{}/missing-eval", id0);
            let mut ev3 = ev2.clone();
            ev3.remove(&keys[0]);
            let out2 = batch_check_scalar(ctx, &mut rng, &id, &c, &cs, &qs, &ev3, &ws, &rvs);
            if out2 == Outcome3::Accept {
                ctx.rep.expect_fail(&id, "sonic/false-claim-accepted/missing-evaluation", "batch accepted although a queried evaluation is missing", replay(&c, &id, ctx.seed, "missing evaluation"));
            }
            ctx.rep.count("sonic/shape-missing");
            ctx.rep.case(&format!("{} missing comm/eval out={:?}/{:?}", c.desc(), out, out2), Some(format!("sonic-batch/{}/missing", npoly)));
        }
    }
    ctx.flush_model(&format!("{}-sonic-batch", prop));
}

// ------------------------------------------------------------------------------------------------
// C04(a): admission at trim / commit / open around every boundary
// ------------------------------------------------------------------------------------------------
fn admission(ctx: &mut Ctx, n: usize) {
    for i in 0..n {
        let id = format!("C04/sonic-model-admission/{}", i);
        if !ctx.selected(&id) { continue; }
        let mut rng = rng_for(ctx.seed, "C04/sonic-model-admission", i as u64);
        let max_degree = range(&mut rng, 3, 16);
        let trap = crate::kzg::Trap::random(&mut rng, max_degree);
        let pp = trap.params(true);
        let supported = if range(&mut rng, 0, 4) == 0 { max_degree } else { range(&mut rng, 1, max_degree) };
        let shb = range(&mut rng, 0, 3);
        // enforced bounds: None / empty / unsorted with duplicates; sometimes beyond `supported`
        let tb: Option<Vec<usize>> = match range(&mut rng, 0, 4) {
            0 => None,
            1 => Some(vec![]),
            _ => {
                let k = range(&mut rng, 1, 3);
                let hi = if range(&mut rng, 0, 5) == 0 { (supported + 1).min(max_degree + 1) } else { supported };
                let mut v: Vec<usize> = (0..k).map(|_| range(&mut rng, 1, hi)).collect();
                if coin(&mut rng) { v.push(v[0]); }
                Some(v)
            }
        };
        let r = guarded(|| PC::trim(&pp, supported, shb, tb.as_deref()));
        let trim_ok = tb.as_ref().map(|v| v.iter().all(|b| *b <= supported)).unwrap_or(true);
        let answered = matches!(r, Ok(Ok(_)));
        if answered != trim_ok {
            ctx.rep.expect_fail(&id, if answered { "sonic/trim-bound-beyond-supported-answered" } else { "sonic/trim-admissible-refused" },
                &format!("trim: admissible={} answered={} (supported {} bounds {:?})", trim_ok, answered, supported, tb),
                format!("# scheme: sonic\n# case: {}\n# seed: {}\n# rerun: .build/cargo/debug/pcv-harness C04 --seed {} --only {}\n", id, ctx.seed, ctx.seed, id));
        }
        let (ck, vk) = match r {
            Ok(Ok(k)) => k,
            Ok(Err(e)) => { ctx.ses.ask(&id, base_req("sonic.trim", &trap, true, supported, shb, &tb), ImplOutcome::Refuse(err_kind(&e))); ctx.rep.count("sonic/trim-refused"); ctx.rep.case(&format!("sonic trim refused D={} s={} B={:?}", max_degree, supported, tb), Some(format!("sonic/adm/trim-refused/{:?}", tb.as_ref().map(|v| v.len())))); continue; }
            Err(a) => { ctx.ses.ask(&id, base_req("sonic.trim", &trap, true, supported, shb, &tb), ImplOutcome::Refuse(a)); ctx.rep.count("sonic/trim-refused"); continue; }
        };
        let degs = [0usize, 1, supported.saturating_sub(1), supported, supported + 1];
        let deg = degs[range(&mut rng, 0, degs.len() - 1)].min(max_degree);
        let p = UniPoly::rand(deg, &mut rng);
        let cands: Vec<Option<usize>> = vec![None, None, Some(deg.max(1)), Some(deg.saturating_sub(1).max(1)), Some(supported), Some(supported + 1), Some(max_degree), Some(max_degree + 1),
            tb.as_ref().and_then(|v| v.first().cloned()), tb.as_ref().and_then(|v| v.last().cloned()),
            tb.as_ref().and_then(|v| v.iter().cloned().filter(|b| *b >= deg).min()), tb.as_ref().and_then(|v| v.iter().cloned().filter(|b| *b >= deg).max())];
        let bound = cands[range(&mut rng, 0, cands.len() - 1)];
        // hiding around the window min(shb, bound)
        let hbs: Vec<Option<usize>> = vec![None, None, None, Some(0), Some(shb), Some(shb + 1), bound.map(|b| b.min(shb)), bound.map(|b| b), bound.map(|b| b + 1)];
        let hb = hbs[range(&mut rng, 0, hbs.len() - 1)];
        let with_rng = range(&mut rng, 0, 7) != 0;
        let lp = LabeledPolynomial::new("p".to_string(), p.clone(), bound, hb);
        let mut replay_rng = rng.clone();
        let draws: Vec<Fr> = (0..max_degree + 8).map(|_| Fr::rand(&mut replay_rng)).collect();
        let mut crng = rng.clone();
        let r = guarded(|| if with_rng { PC::commit(&ck, [&lp], Some(&mut crng)) } else { PC::commit(&ck, [&lp], None) });
        let enforced: Vec<usize> = ck.enforced_degree_bounds.clone().unwrap_or_default();
        let bound_ok = match bound { None => deg <= supported, Some(b) => enforced.contains(&b) && b >= deg };
        let hiding_ok = match hb { None => true, Some(h) => with_rng && h <= shb && bound.map(|b| h <= b).unwrap_or(true) };
        let admissible = bound_ok && hiding_ok;
        let answered = matches!(r, Ok(Ok(_)));
        if answered != admissible {
            ctx.rep.expect_fail(&id, if answered { "sonic/inadmissible-request-committed" } else { "sonic/admissible-refused" },
                &format!("commit: admissible={} answered={} (deg {} bound {:?} hb {:?} rng {} enforced {:?} supported {} shb {} max {})", admissible, answered, deg, bound, hb, with_rng, enforced, supported, shb, max_degree),
                format!("# scheme: sonic\n# case: {}\n# seed: {}\n# rerun: .build/cargo/debug/pcv-harness C04 --seed {} --only {}\n", id, ctx.seed, ctx.seed, id));
        }
        let c = Case { trap, supported, shb, tbounds: tb.clone(), ck, vk, polys: vec![lp.clone()], kinds: vec!["dense"], comms: vec![], rands: vec![] };
        let req = polys_args(c.base("sonic.commit"), &c.polys).arg("rng", wire::boolean(with_rng)).arg("draws", wire::fes(&draws));
        let out = match &r {
            Ok(Ok((cm, rd))) => ImplOutcome::Ok(vec![
                ("cs".into(), Expect::G1s(cm.iter().map(|x| x.commitment().0).collect())),
                ("rands".into(), Expect::Raw(wire::Val::L(rd.iter().map(|x| wire::fes(&x.blinding_polynomial.coeffs)).collect()))),
            ]),
            Ok(Err(e)) => ImplOutcome::Refuse(err_kind(e)),
            Err(a) => ImplOutcome::Refuse(a.clone()),
        };
        ctx.ses.ask(&id, req, out);
        // open follows the same admission (degree bound part)
        if hb.is_none() {
            let z = Fr::rand(&mut rng);
            let mut sp = LogSponge::fresh();
            let empty = Rand::empty_like();
            let ro = guarded(|| PC::open(&c.ck, [&lp], &[] as &[LC], &z, &mut sp, [&empty], None));
            let o_answered = matches!(ro, Ok(Ok(_)));
            if o_answered != bound_ok {
                ctx.rep.expect_fail(&id, if o_answered { "sonic/inadmissible-request-opened" } else { "sonic/admissible-open-refused" },
                    &format!("open: admissible={} answered={} (deg {} bound {:?} enforced {:?} supported {})", bound_ok, o_answered, deg, bound, enforced, supported),
                    format!("# scheme: sonic\n# case: {}\n# seed: {}\n", id, ctx.seed));
            }
            let mut xis = sp.challenges();
            let mut extra = rng_for(3, &id, 79);
            while xis.len() < 2 { xis.push(Fr::rand(&mut extra)); }
            let req = rands_args(polys_args(c.base("sonic.open"), &c.polys), &[empty.clone()]).arg("z", wire::fe(&z)).arg("xis", wire::fes(&xis));
            ctx.ses.ask(&id, req, match ro {
                Ok(Ok(pr)) => ImplOutcome::Ok(vec![("w".into(), Expect::G1(pr.w)), ("rv".into(), Expect::OptFe(pr.random_v))]),
                Ok(Err(e)) => ImplOutcome::Refuse(err_kind(&e)),
                Err(a) => ImplOutcome::Refuse(a),
            });
        }
        ctx.rep.count(&format!("sonic/admissible-{}", admissible));
        ctx.rep.case(&format!("sonic admission D={} s={} shb={} B={:?} deg={} bound={:?} hb={:?} rng={} -> {}", max_degree, supported, shb, tb, deg, bound, hb, with_rng, answered),
            Some(format!("sonic/adm/{}/{:?}/{:?}/{}", deg as i64 - supported as i64, bound.map(|b| (b as i64 - deg as i64).signum()), hb.map(|h| (h as i64 - shb as i64).signum()), admissible)));
    }
    ctx.flush_model("C04-sonic-admission");
}

trait EmptyLike {
    fn empty_like() -> Self;
}
impl EmptyLike for Rand {
    fn empty_like() -> Self {
        use ark_poly_commit::PCCommitmentState;
        Rand::empty()
    }
}

// ------------------------------------------------------------------------------------------------
// C08: commitments are the key-defined linear map (naive sum over the PUBLISHED key points)
// ------------------------------------------------------------------------------------------------
fn c08(ctx: &mut Ctx) {
    use crate::props_c08::naive_sum;
    let n = ctx.n(25, 300);
    for i in 0..n {
        let id = format!("C08/sonic-model/{}", i);
        if !ctx.selected(&id) { continue; }
        let mut rng = rng_for(ctx.seed, "C08/sonic-model", i as u64);
        let npoly = range(&mut rng, 1, 3);
        let c = match new_case(ctx, &mut rng, &id, npoly) { Some(c) => c, None => continue };
        ask_trim_commit(ctx, &id, &c);
        for ((p, cm), r) in c.polys.iter().zip(&c.comms).zip(&c.rands) {
            // the published key points this polynomial is committed under
            let (pg, pgg): (Vec<_>, Vec<_>) = match p.degree_bound() {
                None => (c.ck.powers_of_g.clone(), c.ck.powers_of_gamma_g.clone()),
                Some(d) => {
                    let sp = c.ck.shifted_powers_of_g.as_ref().unwrap();
                    let maxb = *c.ck.enforced_degree_bounds.as_ref().unwrap().last().unwrap();
                    (sp[maxb - d..].to_vec(), c.ck.shifted_powers_of_gamma_g.as_ref().unwrap()[&d].clone())
                }
            };
            let spec = naive_sum(&pg, &p.polynomial().coeffs) + naive_sum(&pgg, &r.blinding_polynomial.coeffs);
            if spec.into_affine() != cm.commitment().0 {
                ctx.rep.expect_fail(&id, "sonic/commit-not-key-defined", "commitment differs from the naive sum over the published key points",
                    replay(&c, &id, ctx.seed, &format!("polynomial {}", p.label())));
            }
            if let Some(d) = p.degree_bound() {
                if pg.len() != d + 1 {
                    ctx.rep.expect_fail(&id, "sonic/shifted-window-size", &format!("shifted window for bound {} has {} elements", d, pg.len()), replay(&c, &id, ctx.seed, ""));
                }
            }
        }
        if c.comm_scalars().is_none() {
            ctx.rep.expect_fail(&id, "sonic/commitment-not-key-defined", "commitment differs from beta^(D-d)*(g*p(beta)+gamma*r(beta))", replay(&c, &id, ctx.seed, ""));
        }
        // homomorphism on the implementation, per bound (non-hiding)
        let p0 = &c.polys[0];
        let bound = p0.degree_bound();
        let hi = bound.unwrap_or(c.supported);
        let q = UniPoly::rand(range(&mut rng, 0, hi), &mut rng);
        let a = Fr::rand(&mut rng);
        let b = Fr::rand(&mut rng);
        let lin = &(p0.polynomial() * a) + &(&q * b);
        let mk = |poly: UniPoly| LabeledPolynomial::new("x".to_string(), poly, bound, None);
        let r3 = guarded(|| PC::commit(&c.ck, [&mk(p0.polynomial().clone()), &mk(q.clone()), &mk(lin.clone()), &mk(UniPoly::from_coefficients_vec(vec![Fr::zero(); 3]))], None));
        match r3 {
            Ok(Ok((cm, _))) => {
                if (cm[0].commitment().0.mul(a) + cm[1].commitment().0.mul(b)).into_affine() != cm[2].commitment().0 {
                    ctx.rep.expect_fail(&id, "sonic/not-homomorphic", "commit(a p + b q) != a commit(p) + b commit(q)", replay(&c, &id, ctx.seed, &format!("bound {:?}", bound)));
                }
                if !cm[3].commitment().0.is_zero() {
                    ctx.rep.expect_fail(&id, "sonic/zero-not-identity", "zero polynomial does not commit to the identity", replay(&c, &id, ctx.seed, ""));
                }
            }
            other => ctx.rep.expect_fail(&id, "sonic/in-domain-commit-refused", &format!("non-hiding commit refused: {:?}", other.map(|r| r.map(|_| ()).map_err(|e| err_kind(&e)))), replay(&c, &id, ctx.seed, "")),
        }
        counts(ctx, &c);
        ctx.rep.case(&format!("{} c08", c.desc()), Some(format!("sonic/c08/{}/{:?}", npoly, bound.map(|d| c.trap.max_degree - d))));
    }
    ctx.flush_model("C08-sonic");
}

// ------------------------------------------------------------------------------------------------
// C09: trim = the stated sub-lists / windows / per-bound G2 elements; truthful degree reports;
// out-of-range requests refused
// ------------------------------------------------------------------------------------------------
fn c09(ctx: &mut Ctx) {
    let n = ctx.n(60, 600);
    for i in 0..n {
        let id = format!("C09/sonic-model/{}", i);
        if !ctx.selected(&id) { continue; }
        let mut rng = rng_for(ctx.seed, "C09/sonic-model", i as u64);
        let max_degree = range(&mut rng, 1, if ctx.thorough { 40 } else { 18 });
        let trap = crate::kzg::Trap::random(&mut rng, max_degree);
        let g2_powers = range(&mut rng, 0, 9) != 0;
        let pp = trap.params(g2_powers);
        let supported = match range(&mut rng, 0, 5) { 0 => max_degree, 1 => max_degree + 1, 2 => 0, _ => range(&mut rng, 1, max_degree) };
        let shb = match range(&mut rng, 0, 6) { 0 => max_degree, 1 => max_degree + 1, 2 => 0, _ => range(&mut rng, 0, max_degree) };
        let tb: Option<Vec<usize>> = match range(&mut rng, 0, 5) {
            0 => None,
            1 => Some(vec![]),
            _ => {
                let k = range(&mut rng, 1, 4);
                let hi = match range(&mut rng, 0, 7) { 0 => supported + 1, 1 => max_degree + 1, _ => supported.max(1) };
                let lo = if coin(&mut rng) { 0 } else { 1 };
                let mut v: Vec<usize> = (0..k).map(|_| range(&mut rng, lo, hi.max(lo))).collect();
                if coin(&mut rng) { v.push(v[0]); }
                if coin(&mut rng) { v.push(supported.min(max_degree)); }
                for a in (1..v.len()).rev() { let b = range(&mut rng, 0, a); v.swap(a, b); }
                Some(v)
            }
        };
        let r = guarded(|| PC::trim(&pp, supported, shb, tb.as_deref()));
        let has_bounds = tb.as_ref().map(|v| !v.is_empty()).unwrap_or(false);
        let in_range = supported <= max_degree && shb + 2 <= max_degree + 2
            && tb.as_ref().map(|v| v.iter().all(|b| *b <= supported)).unwrap_or(true)
            && (g2_powers || !has_bounds);
        let answered = matches!(r, Ok(Ok(_)));
        if answered != in_range {
            ctx.rep.expect_fail(&id, if answered { "sonic/out-of-range-trim-answered" } else { "sonic/in-range-trim-refused" },
                &format!("trim: in_range={} answered={} (D {} supported {} shb {} bounds {:?} g2 {})", in_range, answered, max_degree, supported, shb, tb, g2_powers),
                format!("# scheme: sonic\n# case: {}\n# seed: {}\n# rerun: .build/cargo/debug/pcv-harness C09 --seed {} --only {}\n", id, ctx.seed, ctx.seed, id));
        }
        let req = base_req("sonic.trim", &trap, g2_powers, supported, shb, &tb);
        match r {
            Ok(Ok((ck, vk))) => {
                // truthful reports and the stated shapes, directly on the implementation
                let sorted = tb.clone().map(|mut v| { v.sort(); v.dedup(); v });
                let shape_ok = ck.supported_degree() == supported && ck.powers_of_g.len() == supported + 1
                    && ck.powers_of_gamma_g.len() == shb + 2 && ck.enforced_degree_bounds == sorted
                    && ck.powers_of_g[..] == pp.powers_of_g[..=supported]
                    && match (&ck.shifted_powers_of_g, has_bounds) {
                        (Some(sp), true) => { let b = *sorted.as_ref().unwrap().last().unwrap(); sp[..] == pp.powers_of_g[max_degree - b..] }
                        (None, false) => true,
                        _ => false,
                    }
                    && match (&vk.degree_bounds_and_neg_powers_of_h, has_bounds) {
                        (Some(v), true) => v.iter().map(|x| x.0).collect::<Vec<_>>() == *sorted.as_ref().unwrap() && v.iter().all(|(d, e)| *e == pp.neg_powers_of_h[&(max_degree - d)]),
                        (None, false) => true,
                        _ => false,
                    }
                    && match (&ck.shifted_powers_of_gamma_g, has_bounds) {
                        (Some(m), true) => m.iter().all(|(d, w)| w.len() == (shb + 2).min(d + 2) && w.iter().enumerate().all(|(k, e)| *e == pp.powers_of_gamma_g[&(max_degree - d + k)])),
                        (None, false) => true,
                        _ => false,
                    };
                if !shape_ok {
                    ctx.rep.expect_fail(&id, "sonic/trim-not-the-stated-sublists", "trimmed keys are not the stated sub-lists / windows / G2 elements, or a degree report is untruthful",
                        format!("# scheme: sonic\n# case: {}\n# seed: {}\n# D {} supported {} shb {} bounds {:?}\n# rerun: .build/cargo/debug/pcv-harness C09 --seed {} --only {}\n", id, ctx.seed, max_degree, supported, shb, tb, ctx.seed, id));
                }
                ctx.ses.ask(&id, req, ImplOutcome::Ok(trim_expect(&ck, &vk)));
                // commit at degree = supported succeeds, at supported + 1 errs
                let lp = LabeledPolynomial::new("p".to_string(), UniPoly::rand(supported, &mut rng), None, None);
                if !matches!(guarded(|| PC::commit(&ck, [&lp], None)), Ok(Ok(_))) {
                    ctx.rep.expect_fail(&id, "sonic/commit-at-supported-refused", "commit at degree = supported refused", format!("# scheme: sonic\n# case: {}\n# seed: {}\n", id, ctx.seed));
                }
                let lp = LabeledPolynomial::new("p".to_string(), UniPoly::rand(supported + 1, &mut rng), None, None);
                if matches!(guarded(|| PC::commit(&ck, [&lp], None)), Ok(Ok(_))) {
                    ctx.rep.expect_fail(&id, "sonic/commit-beyond-supported-answered", "commit at degree = supported + 1 answered", format!("# scheme: sonic\n# case: {}\n# seed: {}\n", id, ctx.seed));
                }
            }
            Ok(Err(e)) => ctx.ses.ask(&id, req, ImplOutcome::Refuse(err_kind(&e))),
            Err(a) => ctx.ses.ask(&id, req, ImplOutcome::Refuse(a)),
        }
        ctx.rep.count(&format!("sonic/trim-in-range-{}", in_range));
        ctx.rep.count(&format!("sonic/trim-bounds-{}", match &tb { None => "none", Some(v) if v.is_empty() => "empty", _ => "list" }));
        ctx.rep.case(&format!("sonic trim D={} s={} shb={} B={:?} g2={} -> {}", max_degree, supported, shb, tb, g2_powers, answered),
            Some(format!("sonic/trim/{}/{}/{:?}/{}", (supported as i64 - max_degree as i64).signum(), (shb as i64 - max_degree as i64).signum(), tb.as_ref().map(|v| v.len()), in_range)));
    }
    ctx.flush_model("C09-sonic");
}

// ------------------------------------------------------------------------------------------------
// C06 (model-backed): SonicKZG10's OWN open_combinations / check_combinations against
// PCV/Model/SonicLC.lean — combined commitments, proofs, decisions, refusal kinds
// ------------------------------------------------------------------------------------------------
use ark_poly_commit::{BatchLCProof, Evaluations, LCTerm, LinearCombination, QuerySet};

type LinComb = LinearCombination<Fr>;

fn lcs_args(r: wire::Req, lcs: &[LinComb]) -> wire::Req {
    use crate::wire::Val;
    r.arg("lclabels", Val::L(lcs.iter().map(|l| wire::label(l.label())).collect()))
        .arg("lccoeffs", Val::L(lcs.iter().map(|l| wire::fes(&l.iter().map(|t| t.0).collect::<Vec<_>>())).collect()))
        .arg("lcone", Val::L(lcs.iter().map(|l| Val::L(l.iter().map(|t| wire::nat(t.1.is_one() as usize)).collect())).collect()))
        .arg("lcterms", Val::L(lcs.iter().map(|l| Val::L(l.iter().map(|t| match &t.1 { LCTerm::One => wire::label(""), LCTerm::PolyLabel(s) => wire::label(s) }).collect())).collect()))
}

fn lc_terms(lc: &LinComb) -> Vec<(Fr, LCTerm)> {
    lc.iter().cloned().collect()
}

/// the value of a combination at a point: sum of coeff * p(z) over polynomial terms + constants
fn lc_true_value(c: &Case, lc: &LinComb, z: &Fr) -> Fr {
    let mut v = Fr::zero();
    for (co, t) in lc.iter() {
        match t {
            LCTerm::One => v += *co,
            LCTerm::PolyLabel(s) => {
                if let Some(p) = c.polys.iter().rev().find(|p| p.label() == s) {
                    v += *co * p.evaluate(z);
                }
            }
        }
    }
    v
}

/// the combinations as (labelled polynomial, blinding polynomial) the way `open_combinations` forms
/// them (constants skipped; a bound only for a single term naming a bounded polynomial)
fn lc_combined(c: &Case, lcs: &[LinComb]) -> Option<(Vec<LP>, Vec<Rand>)> {
    use ark_poly_commit::PCCommitmentState;
    let mut polys = vec![];
    let mut rands = vec![];
    for lc in lcs {
        let mut poly = UniPoly::from_coefficients_vec(vec![]);
        let mut rand = Rand::empty();
        let mut bound = None;
        for (coeff, t) in lc.iter() {
            if let LCTerm::PolyLabel(l) = t {
                let i = c.polys.iter().rposition(|p| p.label() == l)?;
                if lc.len() == 1 && c.polys[i].degree_bound().is_some() {
                    bound = c.polys[i].degree_bound();
                }
                poly += (*coeff, c.polys[i].polynomial());
                rand += (*coeff, &c.rands[i]);
            }
        }
        polys.push(LabeledPolynomial::new(lc.label().clone(), poly, bound, None));
        rands.push(rand);
    }
    Some((polys, rands))
}

/// the combined commitments as group elements, from the library's commitments: sum coeff * C
fn lc_combined_comms(c: &Case, lcs: &[LinComb]) -> Option<Vec<ark_bls12_381::G1Affine>> {
    let mut out = vec![];
    for lc in lcs {
        let mut acc = ark_bls12_381::G1Projective::zero();
        for (coeff, t) in lc.iter() {
            if let LCTerm::PolyLabel(l) = t {
                let i = c.polys.iter().rposition(|p| p.label() == l)?;
                acc += c.comms[i].commitment().0.mul(*coeff);
            }
        }
        out.push(acc.into_affine());
    }
    Some(out)
}

/// witness scalars of a combination batch proof, one per point label (last combination with a label wins)
fn lc_witness_scalars(c: &Case, polys: &[LP], rands: &[Rand], qs: &QuerySet<Fr>, xis: &[Fr]) -> Vec<Fr> {
    let mut ws = vec![];
    let mut k = 0;
    for (_, pt, labels) in crate::generic::group(qs) {
        let sub: Vec<usize> = labels.iter().filter_map(|l| polys.iter().rposition(|p| p.label() == l)).collect();
        let ps: Vec<LP> = sub.iter().map(|&i| polys[i].clone()).collect();
        let rs: Vec<Rand> = sub.iter().map(|&i| rands[i].clone()).collect();
        let need = 1 + ps.len();
        if k + need > xis.len() { break; }
        ws.push(witness_scalar(&c.trap, &ps, &rs, &pt, &xis[k..k + need]));
        k += need;
    }
    ws
}

fn kind_of<T>(r: &Result<Result<T, ark_poly_commit::Error>, String>) -> String {
    match r {
        Ok(Ok(_)) => "answered".to_string(),
        Ok(Err(e)) => err_kind(e),
        Err(_) => "abort".to_string(),
    }
}

fn pad_xis(xis: &[Fr], n: usize, id: &str, salt: u64) -> Vec<Fr> {
    let mut x = xis.to_vec();
    let mut e = rng_for(salt, id, 6);
    while x.len() < n { x.push(Fr::rand(&mut e)); }
    x
}

/// run the library's `open_combinations`, queue the model request (+ the outcome-kind request)
fn lc_open(ctx: &mut Ctx, rng: &mut Rng, id: &str, c: &Case, cs: &[CommS], lcs: &[LinComb], qs: &QuerySet<Fr>, sp: &mut LogSponge)
    -> (Result<Result<BatchLCProof<Fr, Vec<Proof>>, ark_poly_commit::Error>, String>, Vec<Fr>) {
    let before = sp.challenges().len();
    let r = guarded(|| PC::open_combinations(&c.ck, lcs, &c.polys, &c.comms, qs, sp, &c.rands, Some(&mut rng.clone())));
    let xis: Vec<Fr> = sp.challenges()[before..].to_vec();
    let ngroups = crate::generic::group(qs).len();
    // always more challenges than needed: `used` then pins the consumption from both sides
    let full = pad_xis(&xis, if matches!(r, Ok(Ok(_))) { xis.len() + 2 } else { qs.len() + ngroups + 2 }, id, 3);
    let mk = |op: &str| queries_args(lcs_args(comms_args(rands_args(polys_args(c.base(op), &c.polys), &c.rands), cs), lcs), qs).arg("xis", wire::fes(&full));
    match &r {
        Ok(Ok(p)) => {
            let mut exp = vec![
                ("ws".into(), Expect::G1s(p.proof.iter().map(|x| x.w).collect())),
                ("rvs".into(), Expect::Raw(wire::Val::L(p.proof.iter().map(|x| wire::opt_fe(&x.random_v)).collect()))),
                ("used".into(), Expect::Nat(xis.len())),
            ];
            if let Some(cc) = lc_combined_comms(c, lcs) {
                exp.push(("lccs".into(), Expect::G1s(cc)));
            }
            // a combined commitment carries a bound only as a single term naming a bounded polynomial
            if let Some((lp, _)) = lc_combined(c, lcs) {
                exp.push(("lcbounds".into(), Expect::Raw(wire::Val::L(lp.iter().map(|p| wire::opt_nat(p.degree_bound())).collect()))));
            }
            ctx.ses.ask(id, mk("sonic.open_combinations"), ImplOutcome::Ok(exp));
        }
        Ok(Err(e)) => ctx.ses.ask(id, mk("sonic.open_combinations"), ImplOutcome::Refuse(err_kind(e))),
        Err(a) => ctx.ses.ask(id, mk("sonic.open_combinations"), ImplOutcome::Refuse(a.clone())),
    }
    ctx.ses.ask(&format!("{}/kind", id), mk("sonic.open_combinations_kind"), ImplOutcome::Ok(vec![("kind".into(), Expect::Raw(wire::label(&kind_of(&r))))]));
    (r, xis)
}

/// run the library's `check_combinations` on a statement in scalar form, queue the model request
/// (+ the outcome-kind request); returns the outcome and the challenges the verifier squeezed
fn lc_check(ctx: &mut Ctx, rng: &mut Rng, id: &str, c: &Case, cs: &[CommS], lcs: &[LinComb], qs: &QuerySet<Fr>, ev: &Evaluations<Fr, Fr>,
    ws: &[Fr], rvs: &[Option<Fr>], vs: &mut LogSponge, want_lccs: bool) -> (Outcome3, String, Vec<Fr>) {
    let comms = comms_from(cs);
    let proof = BatchLCProof { proof: ws.iter().zip(rvs).map(|(w, rv)| Proof { w: g1(*w), random_v: *rv }).collect::<Vec<Proof>>(), evals: None };
    let ngroups = crate::generic::group(qs).len();
    let rs = crate::kzg::replay_u128(rng, ws.len().max(ngroups) + 1);
    let before = vs.challenges().len();
    let r = guarded(|| PC::check_combinations(&c.vk, lcs, &comms, qs, ev, &proof, vs, rng));
    let xis: Vec<Fr> = vs.challenges()[before..].to_vec();
    let full = pad_xis(&xis, if matches!(r, Ok(Ok(_))) { xis.len() + 2 } else { qs.len() + ngroups + 2 }, id, 4);
    let mk = |op: &str| evals_args(queries_args(lcs_args(comms_args(c.base(op), cs), lcs), qs), ev)
        .arg("ws", wire::fes(ws))
        .arg("rvs", wire::Val::L(rvs.iter().map(|x| wire::opt_fe(x)).collect()))
        .arg("xis", wire::fes(&full))
        .arg("rs", wire::fes(&rs));
    let o3 = match &r {
        Ok(Ok(b)) => {
            let mut exp = vec![("b".into(), Expect::Bool(*b)), ("used".into(), Expect::Nat(xis.len()))];
            if want_lccs {
                // the verifier's combined commitments, recomputed from the presented commitments
                let mut cc = vec![];
                let mut okc = true;
                for lc in lcs {
                    let mut acc = Fr::zero();
                    for (coeff, t) in lc.iter() {
                        if let LCTerm::PolyLabel(l) = t {
                            match cs.iter().rposition(|x| &x.label == l) { Some(i) => acc += *coeff * cs[i].c, None => okc = false }
                        }
                    }
                    cc.push(acc);
                }
                if okc {
                    exp.push(("lccs".into(), Expect::Fes(cc)));
                    let bs: Vec<wire::Val> = lcs.iter().map(|lc| {
                        let t = lc_terms(lc);
                        match (t.len(), t.first()) {
                            (1, Some((_, LCTerm::PolyLabel(l)))) => wire::opt_nat(cs.iter().rev().find(|x| &x.label == l).and_then(|x| x.bound)),
                            _ => wire::opt_nat(None),
                        }
                    }).collect();
                    exp.push(("lcbounds".into(), Expect::Raw(wire::Val::L(bs))));
                }
            }
            ctx.ses.ask(id, mk("sonic.check_combinations"), ImplOutcome::Ok(exp));
            if *b { Outcome3::Accept } else { Outcome3::Reject }
        }
        Ok(Err(e)) => { ctx.ses.ask(id, mk("sonic.check_combinations"), ImplOutcome::Refuse(err_kind(e))); Outcome3::Refuse }
        Err(a) => { ctx.ses.ask(id, mk("sonic.check_combinations"), ImplOutcome::Refuse(a.clone())); Outcome3::Refuse }
    };
    let kind = kind_of(&r);
    ctx.ses.ask(&format!("{}/kind", id), mk("sonic.check_combinations_kind"), ImplOutcome::Ok(vec![("kind".into(), Expect::Raw(wire::label(&kind)))]));
    (o3, kind, xis)
}

/// generated combination lists as in `props_marlin::c06` / `generic::gen_lcs`: coefficients 0, 1, -1,
/// random; repeated labels; constant terms (at least one polynomial term); degree-bounded polynomials
/// only alone with coefficient one
fn gen_sonic_lcs(rng: &mut Rng, c: &Case, nlc: usize, prefix: &str) -> Vec<LinComb> {
    let npoly = c.polys.len();
    let unbounded: Vec<usize> = (0..npoly).filter(|&k| c.polys[k].degree_bound().is_none()).collect();
    let bounded: Vec<usize> = (0..npoly).filter(|&k| c.polys[k].degree_bound().is_some()).collect();
    let mut lcs = vec![];
    for j in 0..nlc {
        let mut lc = LinearCombination::empty(format!("{}{}", prefix, j));
        if !bounded.is_empty() && (unbounded.is_empty() || range(rng, 0, 3) == 0) {
            let i = bounded[range(rng, 0, bounded.len() - 1)];
            lc.push((Fr::from(1u64), LCTerm::PolyLabel(c.polys[i].label().clone())));
        } else {
            let nt = range(rng, 1, 6);
            for _ in 0..nt {
                let coeff = match range(rng, 0, 4) { 0 => Fr::zero(), 1 => Fr::from(1u64), 2 => -Fr::from(1u64), _ => Fr::rand(rng) };
                if range(rng, 0, 3) == 0 { lc.push((coeff, LCTerm::One)); }
                else { lc.push((coeff, LCTerm::PolyLabel(c.polys[unbounded[range(rng, 0, unbounded.len() - 1)]].label().clone()))); }
            }
            if lc.iter().all(|(_, t)| t.is_one()) {
                lc.push((Fr::rand(rng), LCTerm::PolyLabel(c.polys[unbounded[range(rng, 0, unbounded.len() - 1)]].label().clone())));
            }
        }
        lcs.push(lc);
    }
    lcs
}

/// a query set over the combinations: 1..3 point labels (labels may share a point value), several
/// equations per point; claimed values are the true combination values
fn gen_lc_queries(rng: &mut Rng, c: &Case, lcs: &[LinComb], nl: usize) -> (QuerySet<Fr>, Evaluations<Fr, Fr>) {
    let mut qs: QuerySet<Fr> = QuerySet::new();
    let mut ev: Evaluations<Fr, Fr> = Evaluations::new();
    let mut pts: Vec<Fr> = vec![];
    for l in 0..nl {
        let pt = if l > 0 && coin(rng) { pts[range(rng, 0, pts.len() - 1)] } else { Fr::rand(rng) };
        pts.push(pt);
        let mut any = false;
        for (k, lc) in lcs.iter().enumerate() {
            if range(rng, 0, 2) != 0 || (!any && k + 1 == lcs.len()) {
                any = true;
                qs.insert((lc.label().clone(), (format!("pt{}", l), pt)));
                ev.insert((lc.label().clone(), pt), lc_true_value(c, lc, &pt));
            }
        }
    }
    (qs, ev)
}

fn c06(ctx: &mut Ctx) {
    let n = ctx.n(14, 220);
    for i in 0..n {
        let id0 = format!("C06/sonic-model/{}", i);
        if !ctx.selected(&id0) { continue; }
        let mut rng = rng_for(ctx.seed, "C06/sonic-model", i as u64);
        let npoly = range(&mut rng, 2, 4);
        let c = match new_case(ctx, &mut rng, &id0, npoly) { Some(c) => c, None => continue };
        let cs = match c.comm_scalars() { Some(x) => x, None => continue };
        let bounded: Vec<usize> = (0..npoly).filter(|&k| c.polys[k].degree_bound().is_some()).collect();

        // ---- (A) refused mixtures / scaled bounded terms / unknown labels: prover AND verifier ----
        {
            let mut variants: Vec<(&str, Vec<(Fr, LCTerm)>, &str)> = vec![];
            let pl = |k: usize| LCTerm::PolyLabel(c.polys[k].label().clone());
            if let Some(&b) = bounded.get(range(&mut rng, 0, bounded.len().max(1) - 1)) {
                let o = (b + 1) % npoly;
                let one = Fr::from(1u64);
                variants.push(("mixed", vec![(one, pl(b)), (Fr::rand(&mut rng), pl(o))], "equationHasDegreeBounds"));
                variants.push(("mixed-rev", vec![(Fr::rand(&mut rng), pl(o)), (one, pl(b))], "equationHasDegreeBounds"));
                variants.push(("with-constant", vec![(one, pl(b)), (Fr::rand(&mut rng), LCTerm::One)], "equationHasDegreeBounds"));
                variants.push(("constant-first", vec![(Fr::rand(&mut rng), LCTerm::One), (one, pl(b))], "equationHasDegreeBounds"));
                variants.push(("zero-constant", vec![(one, pl(b)), (Fr::zero(), LCTerm::One)], "equationHasDegreeBounds"));
                variants.push(("twice", vec![(one, pl(b)), (one, pl(b))], "equationHasDegreeBounds"));
                variants.push(("zero-coefficient-other", vec![(one, pl(b)), (Fr::zero(), pl(o))], "equationHasDegreeBounds"));
                variants.push(("scaled", vec![(Fr::from(2u64), pl(b))], "abort"));
                variants.push(("scaled-zero", vec![(Fr::zero(), pl(b))], "abort"));
                variants.push(("scaled-minus-one", vec![(-one, pl(b))], "abort"));
            }
            variants.push(("unknown-label", vec![(Fr::rand(&mut rng), LCTerm::PolyLabel("nosuch".to_string()))], "missingPolynomial"));
            variants.push(("unknown-label-after-known", vec![(Fr::rand(&mut rng), pl(0)), (Fr::rand(&mut rng), LCTerm::PolyLabel("nosuch".to_string()))],
                if c.polys[0].degree_bound().is_some() { "equationHasDegreeBounds" } else { "missingPolynomial" }));
            for (vname, terms, want) in variants {
                let id = format!("{}/refused-{}", id0, vname);
                // the bad combination sits after an in-policy one, so the loop over combinations matters
                let mut lcs = if coin(&mut rng) { gen_sonic_lcs(&mut rng, &c, 1, "ok") } else { vec![] };
                lcs.push(LinearCombination::new("bad".to_string(), terms));
                let z = Fr::rand(&mut rng);
                let mut qs: QuerySet<Fr> = QuerySet::new();
                let mut ev: Evaluations<Fr, Fr> = Evaluations::new();
                for lc in &lcs {
                    qs.insert((lc.label().clone(), ("pt".to_string(), z)));
                    ev.insert((lc.label().clone(), z), lc_true_value(&c, lc, &z));
                }
                let mut sp = LogSponge::fresh();
                let (r, _) = lc_open(ctx, &mut rng, &format!("{}/prover", id), &c, &cs, &lcs, &qs, &mut sp);
                let pk = kind_of(&r);
                if pk == "answered" {
                    ctx.rep.expect_fail(&id, &format!("sonic/lc-bound-dropped/{}", vname), "open_combinations answered a combination it must refuse", replay(&c, &id, ctx.seed, vname));
                }
                let mut vs = LogSponge::fresh();
                let (o, vk_kind, _) = lc_check(ctx, &mut rng, &format!("{}/verifier", id), &c, &cs, &lcs, &qs, &ev, &[Fr::zero()], &[None], &mut vs, false);
                if o == Outcome3::Accept {
                    ctx.rep.expect_fail(&id, &format!("sonic/lc-false-accepted/refused-{}", vname), "check_combinations accepted a combination it must refuse", replay(&c, &id, ctx.seed, vname));
                }
                // the property names the error of a mixture: both sides must return it
                if want == "equationHasDegreeBounds" && (pk != want || vk_kind != want) {
                    ctx.rep.expect_fail(&id, &format!("sonic/lc-mixture-error/{}", vname), &format!("a degree-bounded polynomial mixed with other terms: prover {} verifier {} (EquationHasDegreeBounds expected)", pk, vk_kind), replay(&c, &id, ctx.seed, vname));
                }
                ctx.rep.count(&format!("sonic/lc-refused-{}/{}/{}", vname, pk, vk_kind));
                ctx.rep.case(&format!("{} lc refused {} prover={} verifier={}", c.desc(), vname, pk, vk_kind), Some(format!("sonic-lc/refused/{}/{}", vname, pk)));
            }
        }

        // ---- (C) two combinations under ONE label (no canonical "true value": model equality only).  The
        // batch prover opens the LAST combination with the label, the verifier subtracts the constants of
        // BOTH from the claim: the claim `last(z) + all constants` is the one the model's completeness
        // theorem covers ----
        {
            let unb: Vec<usize> = (0..npoly).filter(|&k| c.polys[k].degree_bound().is_none()).collect();
            if !unb.is_empty() && i % 2 == 0 {
                let id = format!("{}/duplicate-label", id0);
                let mut lcs = gen_sonic_lcs(&mut rng, &c, 2, "x");
                for lc in lcs.iter_mut() {
                    // keep them over unbounded polynomials, with a constant each
                    let mut t: Vec<(Fr, LCTerm)> = lc_terms(lc).into_iter().filter(|t| match &t.1 { LCTerm::PolyLabel(l) => c.polys.iter().any(|p| p.label() == l && p.degree_bound().is_none()), _ => true }).collect();
                    t.push((Fr::rand(&mut rng), LCTerm::PolyLabel(c.polys[unb[0]].label().clone())));
                    t.push((Fr::rand(&mut rng), LCTerm::One));
                    *lc = LinearCombination::new("dup".to_string(), t);
                }
                let z = Fr::rand(&mut rng);
                let mut qs: QuerySet<Fr> = QuerySet::new();
                qs.insert(("dup".to_string(), ("pt".to_string(), z)));
                let consts: Fr = lcs.iter().flat_map(|l| l.iter()).filter(|t| t.1.is_one()).map(|t| t.0).sum();
                let last_poly: Fr = lcs[1].iter().map(|(co, t)| match t { LCTerm::PolyLabel(s) => *co * c.polys.iter().find(|p| p.label() == s).map(|p| p.evaluate(&z)).unwrap_or(Fr::zero()), _ => Fr::zero() }).sum();
                let mut ev: Evaluations<Fr, Fr> = Evaluations::new();
                ev.insert(("dup".to_string(), z), last_poly + consts);
                let mut sp = LogSponge::fresh();
                let (r, xis) = lc_open(ctx, &mut rng, &format!("{}/prover", id), &c, &cs, &lcs, &qs, &mut sp);
                if let (Ok(Ok(p)), Some((lp, lr))) = (r, lc_combined(&c, &lcs)) {
                    let ws = lc_witness_scalars(&c, &lp, &lr, &qs, &xis);
                    if ws.len() == p.proof.len() && ws.iter().zip(p.proof.iter()).all(|(w, q)| g1(*w) == q.w) {
                        let rvs: Vec<Option<Fr>> = p.proof.iter().map(|x| x.random_v).collect();
                        let mut vs = LogSponge::fresh();
                        let (o, _, _) = lc_check(ctx, &mut rng, &format!("{}/verifier", id), &c, &cs, &lcs, &qs, &ev, &ws, &rvs, &mut vs, true);
                        ctx.rep.count(&format!("sonic/lc-duplicate-label-{:?}", o));
                        // the claim `last(z) + its own constants` is then a different statement
                        let mut e2 = ev.clone();
                        let own: Fr = lcs[1].iter().filter(|t| t.1.is_one()).map(|t| t.0).sum();
                        *e2.get_mut(&("dup".to_string(), z)).unwrap() = last_poly + own;
                        let mut vs = LogSponge::fresh();
                        let (o2, _, _) = lc_check(ctx, &mut rng, &format!("{}/verifier-own-constants", id), &c, &cs, &lcs, &qs, &e2, &ws, &rvs, &mut vs, false);
                        ctx.rep.count(&format!("sonic/lc-duplicate-label-own-constants-{:?}", o2));
                        ctx.rep.case(&format!("{} lc duplicate label out={:?}/{:?}", c.desc(), o, o2), Some(format!("sonic-lc/dup/{:?}/{:?}", o, o2)));
                    }
                }
            }
        }

        // ---- (B) in-policy combinations: honest accept, model agreement, perturbations at every position ----
        let nlc = range(&mut rng, 1, if ctx.thorough { 4 } else { 3 });
        let mut lcs = gen_sonic_lcs(&mut rng, &c, nlc, "lc");
        // now and then two combinations with the same terms under different labels, and one label used twice
        if lcs.len() >= 2 && range(&mut rng, 0, 5) == 0 {
            let t = lc_terms(&lcs[0]);
            let l = lcs[1].label().clone();
            lcs[1] = LinearCombination::new(l, t);
        }
        let nl = range(&mut rng, 1, 3);
        let (qs, ev) = gen_lc_queries(&mut rng, &c, &lcs, nl);
        let groups = crate::generic::group(&qs);
        let shared_points = { let pts: std::collections::BTreeSet<_> = qs.iter().map(|q| (q.1).1).collect(); pts.len() < groups.len() };
        let multi_eq = groups.iter().any(|g| g.2.len() >= 2);
        let desc = format!("{} lcs=[{}] queries={} labels={} shared={} multi={}", c.desc(),
            lcs.iter().map(|l| format!("{}:{}t{}c", l.label(), l.len(), l.iter().filter(|t| t.1.is_one()).count())).collect::<Vec<_>>().join(","), qs.len(), groups.len(), shared_points, multi_eq);
        let mut sp = LogSponge::fresh();
        let (r, xis) = lc_open(ctx, &mut rng, &id0, &c, &cs, &lcs, &qs, &mut sp);
        let proof = match r {
            Ok(Ok(p)) => p,
            other => {
                ctx.rep.expect_fail(&id0, "sonic/lc-honest-refused", &format!("open_combinations refused an in-policy request: {}", kind_of(&other)), replay(&c, &id0, ctx.seed, &desc));
                ctx.rep.case(&format!("{} lc open refused", desc), None);
                continue;
            }
        };
        let (lp, lr) = match lc_combined(&c, &lcs) { Some(x) => x, None => continue };
        let ws = lc_witness_scalars(&c, &lp, &lr, &qs, &xis);
        if ws.len() != proof.proof.len() || !ws.iter().zip(proof.proof.iter()).all(|(w, p)| g1(*w) == p.w) {
            ctx.rep.expect_fail(&id0, "sonic/witness-not-key-defined", "combination witness differs from the trapdoor-defined value", replay(&c, &id0, ctx.seed, &desc));
            continue;
        }
        if proof.evals.is_some() {
            ctx.rep.expect_fail(&id0, "sonic/lc-proof-carries-evals", "Sonic's combination proof carries evaluations", replay(&c, &id0, ctx.seed, &desc));
        }
        let rvs: Vec<Option<Fr>> = proof.proof.iter().map(|p| p.random_v).collect();
        ctx.rep.count(&format!("sonic/lc-shared-point-{}", shared_points));
        ctx.rep.count(&format!("sonic/lc-multi-equation-{}", multi_eq));
        ctx.rep.count(&format!("sonic/lc-labels-{}", groups.len()));
        ctx.rep.case(&desc, Some(format!("sonic-lc/{}/{}/{}/{}", lcs.len(), groups.len(), shared_points, multi_eq)));
        // honest, for two verifier RNG states
        let mut honest_ok = true;
        for s in 0..2 {
            let mut vr = rng_for(ctx.seed ^ 0x5eed, &id0, s);
            let mut vs = LogSponge::fresh();
            let id = format!("{}/honest{}", id0, s);
            let (o, _, vx) = lc_check(ctx, &mut vr, &id, &c, &cs, &lcs, &qs, &ev, &ws, &rvs, &mut vs, true);
            if o != Outcome3::Accept {
                honest_ok = false;
                ctx.rep.expect_fail(&id, "sonic/lc-honest-rejected", &format!("honest combination proof not accepted: {:?}", o), replay(&c, &id, ctx.seed, &desc));
            }
            if vx != xis || sp.probe() != vs.probe() {
                ctx.rep.expect_fail(&id, "sonic/sponge-diverged/lc", "prover and verifier squeezed different challenges", replay(&c, &id, ctx.seed, &desc));
            }
            ctx.rep.count("sonic/lc-check-honest");
        }
        if !honest_ok { continue; }
        let neg = |ctx: &mut Ctx, rng: &mut Rng, id: &str, vname: &str, l2: &[LinComb], cs2: &[CommS], e2: &Evaluations<Fr, Fr>, must_reject: Option<bool>| {
            let mut vs = LogSponge::fresh();
            let (o, _, _) = lc_check(ctx, rng, id, &c, cs2, l2, &qs, e2, &ws, &rvs, &mut vs, false);
            match must_reject {
                Some(true) if o == Outcome3::Accept => ctx.rep.expect_fail(id, &format!("sonic/lc-false-accepted/{}", vname), "changed combination statement accepted", replay(&c, id, ctx.seed, &format!("{} | {}", vname, desc))),
                Some(false) if o != Outcome3::Accept => ctx.rep.expect_fail(id, &format!("sonic/lc-true-rejected/{}", vname), &format!("unchanged combination statement not accepted: {:?}", o), replay(&c, id, ctx.seed, &format!("{} | {}", vname, desc))),
                _ => {}
            }
            ctx.rep.count(&format!("sonic/lc-check-{}", vname));
            ctx.rep.case(&format!("sonic lc {} out={:?}", vname, o), Some(format!("sonic-lc-check/{}/{}", vname, i % 6)));
            o
        };
        let keys: Vec<(String, Fr)> = ev.keys().cloned().collect();
        // (0) the query set names a combination that does not exist (at the last point label, so that
        // earlier point labels have been processed): both sides refuse
        {
            let g = groups.last().unwrap();
            let mut q2 = qs.clone();
            let mut e2 = ev.clone();
            q2.insert(("nolc".to_string(), (g.0.clone(), g.1)));
            e2.insert(("nolc".to_string(), g.1), Fr::rand(&mut rng));
            let id = format!("{}/unknown-combination", id0);
            let mut sp2 = LogSponge::fresh();
            let (r2, _) = lc_open(ctx, &mut rng, &format!("{}/prover", id), &c, &cs, &lcs, &q2, &mut sp2);
            if matches!(r2, Ok(Ok(_))) {
                ctx.rep.expect_fail(&id, "sonic/lc-unknown-combination-opened", "open_combinations answered a query naming a combination that does not exist", replay(&c, &id, ctx.seed, &desc));
            }
            let mut vs2 = LogSponge::fresh();
            let (o, k2, _) = lc_check(ctx, &mut rng, &format!("{}/verifier", id), &c, &cs, &lcs, &q2, &e2, &ws, &rvs, &mut vs2, false);
            if o == Outcome3::Accept {
                ctx.rep.expect_fail(&id, "sonic/lc-false-accepted/unknown-combination", "check_combinations accepted a query naming a combination that does not exist", replay(&c, &id, ctx.seed, &desc));
            }
            ctx.rep.count(&format!("sonic/lc-unknown-combination/{}/{}", kind_of(&r2), k2));
            ctx.rep.case(&format!("sonic lc unknown-combination prover={} verifier={}", kind_of(&r2), k2), Some(format!("sonic-lc/unknown-combination/{}", groups.len())));
        }
        // (1) claimed value changed, at every claim position
        for k in 0..keys.len() {
            let mut e2 = ev.clone();
            *e2.get_mut(&keys[k]).unwrap() += rand_nonzero(&mut rng);
            neg(ctx, &mut rng, &format!("{}/value@{}", id0, k), "value", &lcs, &cs, &e2, Some(true));
        }
        // (2) coefficient / (3) constant changed on the verifier's side, at every term of every queried combination
        for (li, lc) in lcs.iter().enumerate() {
            // duplicate labels: the last combination with the label is the one opened
            if lcs.iter().rposition(|l| l.label() == lc.label()) != Some(li) { continue; }
            if !qs.iter().any(|q| &q.0 == lc.label()) { continue; }
            let terms = lc_terms(lc);
            for pos in 0..terms.len() {
                let mut t2 = terms.clone();
                t2[pos].0 += rand_nonzero(&mut rng);
                let mut l2 = lcs.clone();
                l2[li] = LinearCombination::new(lc.label().clone(), t2);
                match &terms[pos].1 {
                    LCTerm::One => { neg(ctx, &mut rng, &format!("{}/constant@{}.{}", id0, li, pos), "constant", &l2, &cs, &ev, Some(true)); }
                    LCTerm::PolyLabel(l) => {
                        // the combined commitment moves by delta * C_l: no change when C_l is the identity
                        let cl = cs.iter().rev().find(|x| &x.label == l).map(|x| x.c).unwrap_or(Fr::zero());
                        let must = if cl.is_zero() { None } else { Some(true) };
                        neg(ctx, &mut rng, &format!("{}/coefficient@{}.{}", id0, li, pos), "coefficient", &l2, &cs, &ev, must);
                    }
                }
            }
            // a constant term added to / dropped from the combination
            {
                let mut t2 = terms.clone();
                t2.push((rand_nonzero(&mut rng), LCTerm::One));
                let mut l2 = lcs.clone();
                l2[li] = LinearCombination::new(lc.label().clone(), t2);
                neg(ctx, &mut rng, &format!("{}/constant-added@{}", id0, li), "constant-added", &l2, &cs, &ev, Some(true));
            }
            // claimed value and constant moved together: the statement is the same one
            if let Some(pos) = terms.iter().position(|t| t.1.is_one()) {
                let d = rand_nonzero(&mut rng);
                let mut t2 = terms.clone();
                t2[pos].0 += d;
                let mut l2 = lcs.clone();
                l2[li] = LinearCombination::new(lc.label().clone(), t2);
                let mut e2 = ev.clone();
                for k in keys.iter().filter(|k| &k.0 == lc.label()) { *e2.get_mut(k).unwrap() += d; }
                neg(ctx, &mut rng, &format!("{}/value-and-constant@{}", id0, li), "value-and-constant", &l2, &cs, &e2, Some(false));
            }
        }
        // (4) an underlying commitment changed (the evaluation of a polynomial under a combination is not
        // transmitted by Sonic; what the verifier holds of it is its commitment)
        {
            let used: Vec<usize> = (0..cs.len()).filter(|&k| lcs.iter().enumerate().any(|(li, l)| lcs.iter().rposition(|m| m.label() == l.label()) == Some(li)
                && qs.iter().any(|q| &q.0 == l.label()) && { let s: Fr = l.iter().filter(|t| matches!(&t.1, LCTerm::PolyLabel(x) if x == &cs[k].label)).map(|t| t.0).sum(); !s.is_zero() })).collect();
            if let Some(&k) = used.get(range(&mut rng, 0, used.len().max(1) - 1)) {
                let mut cs2 = cs.clone();
                cs2[k].c += rand_nonzero(&mut rng);
                neg(ctx, &mut rng, &format!("{}/commitment@{}", id0, k), "commitment", &lcs, &cs2, &ev, None);
            }
            // a commitment named by a queried combination is missing: refused
            if let Some(l) = lcs.iter().flat_map(|l| l.iter()).find_map(|t| match &t.1 { LCTerm::PolyLabel(x) => Some(x.clone()), _ => None }) {
                let cs2: Vec<CommS> = cs.iter().filter(|x| x.label != l).cloned().collect();
                neg(ctx, &mut rng, &format!("{}/missing-commitment", id0), "missing-commitment", &lcs, &cs2, &ev, Some(true));
            }
        }
        // (5) cancelling perturbations across two equations, preferring two that share a point label
        if keys.len() >= 2 {
            let mut pair = None;
            for g in &groups { if g.2.len() >= 2 && pair.is_none() { pair = Some(((g.2[0].clone(), g.1), (g.2[1].clone(), g.1))); } }
            let same_group = pair.is_some();
            let (ka, kb) = pair.unwrap_or((keys[0].clone(), keys[1].clone()));
            if ka != kb {
                let d = rand_nonzero(&mut rng);
                let mut e2 = ev.clone();
                *e2.get_mut(&ka).unwrap() += d;
                *e2.get_mut(&kb).unwrap() -= d;
                neg(ctx, &mut rng, &format!("{}/cancel", id0), if same_group { "cancel-same-point" } else { "cancel-across-points" }, &lcs, &cs, &e2, Some(true));
            }
            // errors weighted so that they cancel under the challenges of their point label (the
            // exceptional set of the per-point equation): decided by the model, no expectation
            if same_group {
                let xs = fresh_challenges(qs.len() + groups.len() + 2);
                let mut off = 0;
                for g in &groups {
                    if g.2.len() >= 2 {
                        let (xa, xb) = (xs[off], xs[off + 1]);
                        if let (Some(ia), Some(ib)) = (ark_ff::Field::inverse(&xa), ark_ff::Field::inverse(&xb)) {
                            let dd = rand_nonzero(&mut rng);
                            let mut e2 = ev.clone();
                            *e2.get_mut(&(g.2[0].clone(), g.1)).unwrap() += dd * ia;
                            *e2.get_mut(&(g.2[1].clone(), g.1)).unwrap() -= dd * ib;
                            let o = neg(ctx, &mut rng, &format!("{}/crafted-cancel", id0), "crafted-cancel", &lcs, &cs, &e2, None);
                            ctx.rep.count(&format!("sonic/lc-crafted-cancel-{:?}", o));
                        }
                        break;
                    }
                    off += 1 + g.2.len();
                }
            }
        }
        // (6) proof-list shapes with a false claim planted
        {
            let mut e2 = ev.clone();
            *e2.get_mut(&keys[0]).unwrap() += rand_nonzero(&mut rng);
            for (sname, w2, r2) in [("empty", vec![], vec![]), ("truncated", ws[..ws.len() - 1].to_vec(), rvs[..rvs.len() - 1].to_vec()),
                ("extended", { let mut e = ws.clone(); e.push(ws[0]); e }, { let mut e = rvs.clone(); e.push(rvs[0]); e })] {
                let id = format!("{}/shape-{}", id0, sname);
                let mut vs = LogSponge::fresh();
                let (o, _, _) = lc_check(ctx, &mut rng, &id, &c, &cs, &lcs, &qs, &e2, &w2, &r2, &mut vs, false);
                if o == Outcome3::Accept {
                    ctx.rep.expect_fail(&id, &format!("sonic/lc-false-accepted/shape-{}", sname), "false combination claim accepted with a malformed proof list", replay(&c, &id, ctx.seed, sname));
                }
                ctx.rep.count(&format!("sonic/lc-shape-{}", sname));
            }
        }
    }
    ctx.flush_model("C06-sonic");
}

// ------------------------------------------------------------------------------------------------
// C11 (model-backed): a history of open / batch_open / open_combinations on ONE sponge; the verifier
// replays it on an identically initialised sponge.  Per operation: the challenges the two sides
// squeezed are equal and are exactly the ones the model consumes (`used`), the model reproduces proofs
// and decisions, the end states are equal; a proof verified at another position of the history is
// not accepted (non-constant polynomials), with the model deciding the same under the verifier's
// own challenges.
// ------------------------------------------------------------------------------------------------
enum HOp {
    Open { idx: Vec<usize>, z: Fr },
    Batch { qs: QuerySet<Fr>, ev: Evaluations<Fr, Fr> },
    Lc { lcs: Vec<LinComb>, qs: QuerySet<Fr>, ev: Evaluations<Fr, Fr> },
}
enum HProof {
    Open(Fr, Option<Fr>),
    Many(Vec<Fr>, Vec<Option<Fr>>),
}

fn c11(ctx: &mut Ctx) {
    let n = ctx.n(12, 160);
    for i in 0..n {
        let id0 = format!("C11/sonic-model/{}", i);
        if !ctx.selected(&id0) { continue; }
        let mut rng = rng_for(ctx.seed, "C11/sonic-model", i as u64);
        let npoly = range(&mut rng, 2, 4);
        let c = match new_case(ctx, &mut rng, &id0, npoly) { Some(c) => c, None => continue };
        let cs = match c.comm_scalars() { Some(x) => x, None => continue };
        let vks = match c.vk_scalars() { Some(x) => x, None => continue };
        let _ = &vks;
        let nonconst: Vec<usize> = (0..npoly).filter(|&k| c.polys[k].polynomial().coeffs.len() > 1).collect();
        let nops = range(&mut rng, 2, if ctx.thorough { 6 } else { 4 });
        let mut ops: Vec<HOp> = vec![];
        for _ in 0..nops {
            match range(&mut rng, 0, 2) {
                0 => {
                    let mut idx: Vec<usize> = (0..npoly).filter(|_| coin(&mut rng)).collect();
                    if idx.is_empty() { idx.push(range(&mut rng, 0, npoly - 1)); }
                    ops.push(HOp::Open { idx, z: Fr::rand(&mut rng) });
                }
                1 => { let nl = range(&mut rng, 1, 2); let (qs, ev) = gen_queries(&mut rng, &c, nl); ops.push(HOp::Batch { qs, ev }); }
                _ => {
                    let nlc = range(&mut rng, 1, 2);
                    let lcs = gen_sonic_lcs(&mut rng, &c, nlc, "lc");
                    let nl = range(&mut rng, 1, 2);
                    let (qs, ev) = gen_lc_queries(&mut rng, &c, &lcs, nl);
                    ops.push(HOp::Lc { lcs, qs, ev });
                }
            }
        }
        let mut sp = LogSponge::fresh();
        {
            use ark_crypto_primitives::sponge::CryptographicSponge;
            sp.absorb(&(ctx.seed ^ i as u64).to_le_bytes().to_vec());
            sp.log.clear();
        }
        let pre = sp.clone();
        let mut vs = sp.clone();
        let mut proofs: Vec<HProof> = vec![];
        let mut segs: Vec<Vec<Fr>> = vec![];
        let mut ok = true;
        // verify one operation against `vs`; queues the model request under the verifier's challenges
        let verify = |ctx: &mut Ctx, rng: &mut Rng, id: &str, op: &HOp, pr: &HProof, vs: &mut LogSponge| -> (Outcome3, Vec<Fr>) {
            match (op, pr) {
                (HOp::Open { idx, z }, HProof::Open(w, rv)) => {
                    let sub: Vec<CommS> = idx.iter().map(|&k| cs[k].clone()).collect();
                    let comms = comms_from(&sub);
                    let vals: Vec<Fr> = idx.iter().map(|&k| c.polys[k].evaluate(z)).collect();
                    let proof = Proof { w: g1(*w), random_v: *rv };
                    let before = vs.challenges().len();
                    let r = guarded(|| PC::check(&c.vk, &comms, z, vals.iter().cloned(), &proof, vs, None));
                    let xis: Vec<Fr> = vs.challenges()[before..].to_vec();
                    let (out, o3) = match r {
                        Ok(Ok(b)) => (ImplOutcome::Ok(vec![("b".into(), Expect::Bool(b)), ("used".into(), Expect::Nat(xis.len()))]), if b { Outcome3::Accept } else { Outcome3::Reject }),
                        Ok(Err(e)) => (ImplOutcome::Refuse(err_kind(&e)), Outcome3::Refuse),
                        Err(a) => (ImplOutcome::Refuse(a), Outcome3::Refuse),
                    };
                    let req = comms_args(c.base("sonic.check"), &sub).arg("z", wire::fe(z)).arg("vs", wire::fes(&vals)).arg("w", wire::fe(w)).arg("rv", wire::opt_fe(rv))
                        .arg("xis", wire::fes(&pad_xis(&xis, 1 + sub.len(), id, 7)));
                    ctx.ses.ask(id, req, out);
                    (o3, xis)
                }
                (HOp::Batch { qs, ev }, HProof::Many(ws, rvs)) => {
                    let comms = comms_from(&cs);
                    let proofs: Vec<Proof> = ws.iter().zip(rvs).map(|(w, rv)| Proof { w: g1(*w), random_v: *rv }).collect();
                    let ngroups = crate::generic::group(qs).len();
                    let rs = crate::kzg::replay_u128(rng, ws.len().max(ngroups) + 1);
                    let before = vs.challenges().len();
                    let r = guarded(|| PC::batch_check(&c.vk, &comms, qs, ev, &proofs, vs, rng));
                    let xis: Vec<Fr> = vs.challenges()[before..].to_vec();
                    let (out, o3) = match r {
                        Ok(Ok(b)) => (ImplOutcome::Ok(vec![("b".into(), Expect::Bool(b)), ("used".into(), Expect::Nat(xis.len()))]), if b { Outcome3::Accept } else { Outcome3::Reject }),
                        Ok(Err(e)) => (ImplOutcome::Refuse(err_kind(&e)), Outcome3::Refuse),
                        Err(a) => (ImplOutcome::Refuse(a), Outcome3::Refuse),
                    };
                    let req = evals_args(queries_args(comms_args(c.base("sonic.batch_check"), &cs), qs), ev)
                        .arg("ws", wire::fes(ws)).arg("rvs", wire::Val::L(rvs.iter().map(|x| wire::opt_fe(x)).collect()))
                        .arg("xis", wire::fes(&pad_xis(&xis, qs.len() + ngroups + 2, id, 8))).arg("rs", wire::fes(&rs));
                    ctx.ses.ask(id, req, out);
                    (o3, xis)
                }
                (HOp::Lc { lcs, qs, ev }, HProof::Many(ws, rvs)) => {
                    let (o, _, xis) = lc_check(ctx, rng, id, &c, &cs, lcs, qs, ev, ws, rvs, vs, false);
                    (o, xis)
                }
                _ => (Outcome3::Refuse, vec![]),
            }
        };
        for (k, op) in ops.iter().enumerate() {
            let id = format!("{}/op{}", id0, k);
            let before = sp.challenges().len();
            let (kind, pr): (&str, Option<HProof>) = match op {
                HOp::Open { idx, z } => {
                    let ps: Vec<LP> = idx.iter().map(|&k| c.polys[k].clone()).collect();
                    let cm: Vec<LC> = idx.iter().map(|&k| c.comms[k].clone()).collect();
                    let rd: Vec<Rand> = idx.iter().map(|&k| c.rands[k].clone()).collect();
                    match guarded(|| PC::open(&c.ck, &ps, &cm, z, &mut sp, &rd, Some(&mut rng))) {
                        Ok(Ok(p)) => {
                            let xis: Vec<Fr> = sp.challenges()[before..].to_vec();
                            let req = rands_args(polys_args(c.base("sonic.open"), &ps), &rd).arg("z", wire::fe(z)).arg("xis", wire::fes(&xis));
                            ctx.ses.ask(&format!("{}/prover", id), req, ImplOutcome::Ok(vec![("w".into(), Expect::G1(p.w)), ("rv".into(), Expect::OptFe(p.random_v)), ("used".into(), Expect::Nat(xis.len()))]));
                            let w = witness_scalar(&c.trap, &ps, &rd, z, &xis);
                            if g1(w) != p.w { ("open", None) } else { ("open", Some(HProof::Open(w, p.random_v))) }
                        }
                        _ => ("open", None),
                    }
                }
                HOp::Batch { qs, .. } => {
                    match guarded(|| PC::batch_open(&c.ck, &c.polys, &c.comms, qs, &mut sp, &c.rands, Some(&mut rng))) {
                        Ok(Ok(p)) => {
                            let xis: Vec<Fr> = sp.challenges()[before..].to_vec();
                            let req = queries_args(rands_args(polys_args(c.base("sonic.batch_open"), &c.polys), &c.rands), qs).arg("xis", wire::fes(&xis));
                            ctx.ses.ask(&format!("{}/prover", id), req, ImplOutcome::Ok(vec![
                                ("ws".into(), Expect::G1s(p.iter().map(|x| x.w).collect())),
                                ("rvs".into(), Expect::Raw(wire::Val::L(p.iter().map(|x| wire::opt_fe(&x.random_v)).collect()))),
                                ("used".into(), Expect::Nat(xis.len()))]));
                            let ws = lc_witness_scalars(&c, &c.polys, &c.rands, qs, &xis);
                            if ws.len() != p.len() || !ws.iter().zip(&p).all(|(w, q)| g1(*w) == q.w) { ("batch", None) } else { ("batch", Some(HProof::Many(ws, p.iter().map(|x| x.random_v).collect()))) }
                        }
                        _ => ("batch", None),
                    }
                }
                HOp::Lc { lcs, qs, .. } => {
                    let (r, xis) = lc_open(ctx, &mut rng, &format!("{}/prover", id), &c, &cs, lcs, qs, &mut sp);
                    match (r, lc_combined(&c, lcs)) {
                        (Ok(Ok(p)), Some((lp, lr))) => {
                            let ws = lc_witness_scalars(&c, &lp, &lr, qs, &xis);
                            if ws.len() != p.proof.len() || !ws.iter().zip(&p.proof).all(|(w, q)| g1(*w) == q.w) { ("lc", None) } else { ("lc", Some(HProof::Many(ws, p.proof.iter().map(|x| x.random_v).collect()))) }
                        }
                        _ => ("lc", None),
                    }
                }
            };
            let pr = match pr {
                Some(p) => p,
                None => {
                    ctx.rep.expect_fail(&id, &format!("sonic/history-open-refused/{}", kind), &format!("op {} ({}) refused, or its witness is not the key-defined one", k, kind), replay(&c, &id, ctx.seed, kind));
                    ok = false; break;
                }
            };
            let seg: Vec<Fr> = sp.challenges()[before..].to_vec();
            let (o, vx) = verify(ctx, &mut rng, &format!("{}/verifier", id), op, &pr, &mut vs);
            if o != Outcome3::Accept {
                ctx.rep.expect_fail(&id, &format!("sonic/history-rejected/{}", kind), &format!("honest proof of op {} ({}) in a history not accepted: {:?}", k, kind, o), replay(&c, &id, ctx.seed, kind));
                ok = false; break;
            }
            if vx != seg || sp.log != vs.log || sp.probe() != vs.probe() {
                ctx.rep.expect_fail(&id, &format!("sonic/sponge-diverged/{}", kind), &format!("prover and verifier transcripts differ after op {} ({}): prover [{}] verifier [{}]", k, kind, sp.shape(), vs.shape()), replay(&c, &id, ctx.seed, kind));
                ok = false; break;
            }
            ctx.rep.count(&format!("sonic-model/op-{}", kind));
            proofs.push(pr);
            segs.push(seg);
        }
        ctx.rep.case(&format!("{} history ops={} challenges={}", c.desc(), nops, segs.iter().map(|s| s.len().to_string()).collect::<Vec<_>>().join("+")), Some(format!("sonic-model/hist/{}/{}", nops, segs.iter().map(|s| s.len()).sum::<usize>())));
        if !ok || proofs.len() < 2 { continue; }
        // a proof moved to another position: op k (k >= 1) verified first, on the pre-state.  The model
        // decides under the verifier's own challenges; for non-constant polynomials it must not be accepted.
        for k in 1..ops.len() {
            let id = format!("{}/displaced{}", id0, k);
            let mut vs2 = pre.clone();
            let (o, vx) = verify(ctx, &mut rng, &id, &ops[k], &proofs[k], &mut vs2);
            let nonconstant = match &ops[k] {
                HOp::Open { idx, .. } => idx.iter().all(|j| nonconst.contains(j)),
                HOp::Batch { qs, .. } => qs.iter().all(|q| c.polys.iter().any(|p| p.label() == &q.0 && p.polynomial().coeffs.len() > 1)),
                // a combination may cancel to a constant: no expectation
                HOp::Lc { .. } => false,
            };
            // same challenges at the two positions (possible only if no challenge was squeezed before): same statement
            let moved = vx.iter().zip(&segs[k]).any(|(a, b)| a != b);
            if nonconstant && moved && o == Outcome3::Accept {
                ctx.rep.expect_fail(&id, "sonic/accepted-on-other-transcript/displaced", "proof accepted at another position of the history", replay(&c, &id, ctx.seed, &format!("proof of op {} verified first", k)));
            }
            ctx.rep.count(&format!("sonic-model/displaced-{:?}", o));
            ctx.rep.case(&format!("sonic displaced op{} out={:?}", k, o), Some(format!("sonic-model/disp/{}/{:?}", k, o)));
        }
    }
    ctx.flush_model("C11-sonic");
}
