//! Property runs for plain KZG10 (model-backed, trapdoor mode).
use crate::common::*;
use crate::kzg::*;
use crate::wire::{self, Req};
use crate::Ctx;
use ark_bls12_381::{Bls12_381, Fr};
use ark_ff::{UniformRand, Zero};
use ark_poly::Polynomial;
use ark_poly_commit::kzg10::{Commitment, Proof};

fn replay_of(t: &Transcript, extra: &str) -> String {
    format!(
        "# scheme: kzg10\n# {}\n# trapdoor beta={} g={} gamma={} h={}\n# p={}\n# blind={}\n# z={} v={}\n# {}\n",
        t.desc(),
        wire::fe(&t.trap.beta),
        wire::fe(&t.trap.g),
        wire::fe(&t.trap.gamma),
        wire::fe(&t.trap.h),
        wire::fes(&t.p.coeffs),
        wire::fes(&t.rand.blinding_polynomial.coeffs),
        wire::fe(&t.z),
        wire::fe(&t.v),
        extra
    )
}

pub fn c01(ctx: &mut Ctx) {
    let n = ctx.n(40, 600);
    let max_d = if ctx.thorough { 64 } else { 32 };
    for i in 0..n {
        let mut rng = rng_for(ctx.seed, "C01/kzg10", i as u64);
        let t = honest(&mut rng, max_d);
        let id = format!("C01/kzg10/{}", i);
        ctx.rep.count(&format!("kzg10/poly-{}", t.kind));
        ctx.rep.count(&format!(
            "kzg10/hiding-{}",
            match t.hb {
                None => "none",
                Some(0) => "zero",
                Some(_) => "some",
            }
        ));
        ask_commit_open(ctx, &id, &t);
        let out = check_impl(&t.vk, &t.comm, t.z, t.v, &t.proof);
        let acc = accepted(&out);
        if let Some((c_s, w_s)) = scalars(&t) {
            ask_check(ctx, &id, &t, vk_scalars(&t), c_s, t.z, t.v, w_s, t.proof.random_v, out);
        } else {
            ctx.rep.expect_fail(
                &id,
                "kzg10/commitment-not-key-defined",
                "commitment or witness differs from the trapdoor-defined value",
                replay_of(&t, "commitment != g*p(beta)+gamma*r(beta) or witness mismatch"),
            );
        }
        if !acc {
            ctx.rep.expect_fail(
                &id,
                "kzg10/honest-rejected",
                "honest proof of a true claim was not accepted",
                replay_of(&t, "KZG10::check(honest) != Ok(true)"),
            );
        }
        ctx.rep.case(
            &t.desc(),
            Some(format!("kzg10/{}/{}/{:?}", t.p.degree(), t.kind, t.hb.is_some())),
        );
    }
    // batches
    let nb = ctx.n(10, 100);
    for i in 0..nb {
        let mut rng = rng_for(ctx.seed, "C01/kzg10-batch", i as u64);
        let k = range(&mut rng, 1, 5);
        let b = honest_batch(&mut rng, max_d, k);
        let id = format!("C01/kzg10-batch/{}", i);
        batch_case(ctx, &mut rng, &id, &b, &[], true);
    }
    ctx.flush_model("C01-kzg10");
}

/// Run `KZG10::batch_check` on the batch with `false_at` positions perturbed by value+delta;
/// compare with the model and with the conjunction of individual checks.
pub fn batch_case(
    ctx: &mut Ctx,
    rng: &mut Rng,
    id: &str,
    b: &Batch,
    false_at: &[usize],
    must_accept: bool,
) {
    batch_case_deltas(ctx, rng, id, b, false_at, None, must_accept)
}

/// as `batch_case`; `deltas` (aligned with `false_at`) gives the value errors explicitly, e.g. a
/// pair `(+d, -d)` of cancelling errors at two query points
pub fn batch_case_deltas(
    ctx: &mut Ctx,
    rng: &mut Rng,
    id: &str,
    b: &Batch,
    false_at: &[usize],
    deltas: Option<&[Fr]>,
    must_accept: bool,
) {
    let vk = b.items[0].vk.clone();
    let cs: Vec<Commitment<Bls12_381>> = b.items.iter().map(|t| t.comm).collect();
    let zs: Vec<Fr> = b.items.iter().map(|t| t.z).collect();
    let mut vs: Vec<Fr> = b.items.iter().map(|t| t.v).collect();
    for (j, &i) in false_at.iter().enumerate() {
        vs[i] += match deltas { Some(d) => d[j], None => rand_nonzero(rng) };
    }
    let ps: Vec<Proof<Bls12_381>> = b.items.iter().map(|t| t.proof).collect();
    let rs = replay_u128(rng, ps.len());
    let out = batch_check_impl(&vk, &cs, &zs, &vs, &ps, rng);
    let acc = accepted(&out);
    // individual decisions
    let mut all = true;
    for (j, t) in b.items.iter().enumerate() {
        let o = check_impl(&vk, &cs[j], zs[j], vs[j], &t.proof);
        all &= accepted(&o);
    }
    let t0 = &b.items[0];
    let mut ok_scalars = true;
    let mut c_ss = vec![];
    let mut w_ss = vec![];
    for t in &b.items {
        match scalars(t) {
            Some((c, w)) => {
                c_ss.push(c);
                w_ss.push(w)
            }
            None => ok_scalars = false,
        }
    }
    if ok_scalars {
        let req = t0
            .vk_args(Req::new("kzg.batch_check"))
            .arg("cs", wire::fes(&c_ss))
            .arg("zs", wire::fes(&zs))
            .arg("vs", wire::fes(&vs))
            .arg("ws", wire::fes(&w_ss))
            .arg(
                "rvs",
                wire::Val::L(ps.iter().map(|p| wire::opt_fe(&p.random_v)).collect()),
            )
            .arg("rs", wire::fes(&rs));
        ctx.ses.ask(id, req, out);
    }
    let desc = format!(
        "kzg10 batch k={} false_at={:?} D={} s={}",
        b.items.len(),
        false_at,
        b.trap.max_degree,
        b.supported
    );
    if acc != all {
        ctx.rep.expect_fail(
            id,
            "kzg10/batch-differs-from-individual",
            &format!("batch_check={} but AND(check_i)={}", acc, all),
            format!("# scheme: kzg10 batch_check\n# {}\n# seed-case: {}\n", desc, id),
        );
    }
    if must_accept && !acc {
        ctx.rep.expect_fail(
            id,
            "kzg10/batch-honest-rejected",
            "all-true batch rejected",
            format!("# scheme: kzg10 batch_check\n# {}\n# seed-case: {}\n", desc, id),
        );
    }
    if !false_at.is_empty() && acc {
        ctx.rep.expect_fail(
            id,
            "kzg10/batch-false-accepted",
            "batch with a false claim accepted",
            format!("# scheme: kzg10 batch_check\n# {}\n# seed-case: {}\n", desc, id),
        );
    }
    ctx.rep.count(&format!("kzg10/batch-k{}", b.items.len()));
    ctx.rep.case(
        &desc,
        if b.items.len() >= 2 {
            Some(format!("kzg10-batch/{}/{:?}", b.items.len(), false_at))
        } else {
            None
        },
    );
}

fn mutation_run(ctx: &mut Ctx, prop: &str, muts: &[Mutation], n: usize, must_refuse_false: bool) {
    let max_d = if ctx.thorough { 64 } else { 24 };
    for i in 0..n {
        let mut rng = rng_for(ctx.seed, &format!("{}/kzg10", prop), i as u64);
        let t = honest(&mut rng, max_d);
        for m in muts {
            let id = format!("{}/kzg10/{}/{:?}", prop, i, m);
            if let Some((acc, claim_false)) = mutate_and_check(ctx, &mut rng, &id, &t, *m) {
                ctx.rep.count(&format!("kzg10/mut-{:?}", m));
                let desc = format!("{} mutation={:?} accepted={}", t.desc(), m, acc);
                if must_refuse_false && claim_false && acc {
                    ctx.rep.expect_fail(
                        &id,
                        &format!("kzg10/false-claim-accepted/{:?}", m),
                        "verifier accepted a changed statement / false claim",
                        replay_of(&t, &format!("mutation {:?} accepted", m)),
                    );
                }
                ctx.rep.case(
                    &desc,
                    Some(format!("kzg10/{:?}/{}/{}", m, t.p.degree(), t.hb.is_some())),
                );
            }
        }
    }
}

pub fn c02(ctx: &mut Ctx) {
    let n = ctx.n(30, 500);
    mutation_run(
        ctx,
        "C02",
        &[Mutation::Value, Mutation::Point, Mutation::CommOtherPoly, Mutation::CommRandom],
        n,
        true,
    );
    // every position of a batch
    let nb = ctx.n(10, 150);
    for i in 0..nb {
        let mut rng = rng_for(ctx.seed, "C02/kzg10-batch", i as u64);
        let k = range(&mut rng, 2, 5);
        let b = honest_batch(&mut rng, 24, k);
        for pos in 0..k {
            let id = format!("C02/kzg10-batch/{}/{}", i, pos);
            batch_case(ctx, &mut rng, &id, &b, &[pos], false);
        }
    }
    ctx.flush_model("C02-kzg10");
}

pub fn c03(ctx: &mut Ctx) {
    let n = ctx.n(30, 500);
    mutation_run(
        ctx,
        "C03",
        &[
            Mutation::ProofOfOtherPoly,
            Mutation::ProofOtherPoint,
        ],
        n,
        true,
    );
    // component replacement together with a false value: never accepted for a random component
    let max_d = 24;
    for i in 0..n {
        let mut rng = rng_for(ctx.seed, "C03/kzg10-forge", i as u64);
        let t = honest(&mut rng, max_d);
        if let Some((c_s, w_s)) = scalars(&t) {
            let v = t.v + rand_nonzero(&mut rng);
            let (w, rv, what) = match range(&mut rng, 0, 2) {
                0 => (Fr::rand(&mut rng), t.proof.random_v, "witness-random"),
                1 => (w_s, Some(Fr::rand(&mut rng)), "random_v-random"),
                _ => (Fr::zero(), None, "identity-witness"),
            };
            let id = format!("C03/kzg10-forge/{}/{}", i, what);
            let proof = Proof::<Bls12_381> {
                w: g1(w),
                random_v: rv,
            };
            let out = check_impl(&t.vk, &t.comm, t.z, v, &proof);
            let acc = accepted(&out);
            ask_check(ctx, &id, &t, vk_scalars(&t), c_s, t.z, v, w, rv, out);
            if acc {
                ctx.rep.expect_fail(
                    &id,
                    &format!("kzg10/forged-proof-accepted/{}", what),
                    "false value accepted with a crafted proof",
                    replay_of(&t, what),
                );
            }
            ctx.rep.count(&format!("kzg10/forge-{}", what));
            ctx.rep.case(
                &format!("{} forge={}", t.desc(), what),
                Some(format!("kzg10/forge/{}/{}", what, t.p.degree())),
            );
        }
    }
    ctx.flush_model("C03-kzg10");
    let n = ctx.n(6, 60);
    batch_shapes(ctx, "C03", n);
    real_setup_compensation(ctx);
}

/// Keys from the LIBRARY's own `setup` (not trapdoor-made): an honest hiding proof with the value raised by δ and
/// `random_v` lowered by δ is accepted iff `δ·(g − γg) = 0` (C03.kzg10_value_and_rv) — i.e. only if the hiding
/// generator coincides with the plain one. Also through MarlinKZG10 and SonicKZG10 (`random_v` lowered by ξ·δ).
fn real_setup_compensation(ctx: &mut Ctx) {
    use ark_crypto_primitives::sponge::CryptographicSponge;
    use ark_poly_commit::{LabeledPolynomial, PolynomialCommitment, CHALLENGE_SIZE};
    for i in 0..ctx.n(5, 30) {
        let id = format!("C03/kzg10-real-setup/{}", i);
        if !ctx.selected(&id) {
            continue;
        }
        let mut rng = rng_for(ctx.seed, "C03/kzg10-real-setup", i as u64);
        let d = range(&mut rng, 2, 12);
        let pp = match guarded(|| Kzg::setup(d, false, &mut rng)) { Ok(Ok(p)) => p, _ => continue };
        let (powers, vk) = trim(&pp, d);
        let pd = range(&mut rng, 1, d);
        let p = <UniPoly as ark_poly::DenseUVPolynomial<Fr>>::rand(pd, &mut rng);
        let hb = range(&mut rng, 1, d - 1);
        let (c, r) = match guarded(|| Kzg::commit(&powers, &p, Some(hb), Some(&mut rng))) { Ok(Ok(x)) => x, _ => continue };
        let z = Fr::rand(&mut rng);
        let v = p.evaluate(&z);
        let proof = match guarded(|| Kzg::open(&powers, &p, z, &r)) { Ok(Ok(x)) => x, _ => continue };
        let delta = rand_nonzero(&mut rng);
        let honest_ok = matches!(guarded(|| Kzg::check(&vk, &c, z, v, &proof)), Ok(Ok(true)));
        let forged = Proof::<Bls12_381> { w: proof.w, random_v: proof.random_v.map(|x| x - delta) };
        let forged_ok = matches!(guarded(|| Kzg::check(&vk, &c, z, v + delta, &forged)), Ok(Ok(true)));
        let mut bad = vec![];
        if !honest_ok { bad.push("honest hiding proof rejected".to_string()); }
        if forged_ok { bad.push("KZG10::check accepted value+δ with random_v−δ".to_string()); }
        // the same through the two KZG-based trait schemes (first opening challenge ξ scales the compensation)
        macro_rules! via_trait {
            ($pc:ty, $name:expr) => {{
                type PC = $pc;
                if let Ok(Ok((ck, tvk))) = guarded(|| <PC as PolynomialCommitment<Fr, UniPoly>>::trim(&pp, d, hb, None)) {
                    let lp = LabeledPolynomial::new("p".to_string(), p.clone(), None, Some(hb));
                    if let Ok(Ok((cs, sts))) = guarded(|| <PC as PolynomialCommitment<Fr, UniPoly>>::commit(&ck, [&lp], Some(&mut rng.clone()))) {
                        let mut sp = crate::generic::fresh_sponge();
                        if let Ok(Ok(pr)) = guarded(|| <PC as PolynomialCommitment<Fr, UniPoly>>::open(&ck, [&lp], &cs, &z, &mut sp, &sts, Some(&mut rng.clone()))) {
                            let xi: Fr = crate::generic::fresh_sponge().squeeze_field_elements_with_sizes(&[CHALLENGE_SIZE])[0];
                            let mut f = pr.clone();
                            f.random_v = f.random_v.map(|x| x - xi * delta);
                            let ok_h = matches!(guarded(|| <PC as PolynomialCommitment<Fr, UniPoly>>::check(&tvk, &cs, &z, [v], &pr, &mut crate::generic::fresh_sponge(), None)), Ok(Ok(true)));
                            let ok_f = matches!(guarded(|| <PC as PolynomialCommitment<Fr, UniPoly>>::check(&tvk, &cs, &z, [v + delta], &f, &mut crate::generic::fresh_sponge(), None)), Ok(Ok(true)));
                            if !ok_h { bad.push(format!("{}: honest hiding proof rejected", $name)); }
                            if ok_f { bad.push(format!("{}: check accepted value+δ with random_v−ξ·δ", $name)); }
                        }
                    }
                }
            }};
        }
        via_trait!(crate::generic::MarlinPC, "marlin");
        via_trait!(crate::generic::SonicPC, "sonic");
        if !bad.is_empty() {
            ctx.rep.expect_fail(&id, "kzg10/forged-proof-accepted/value-compensated-by-random_v",
                &format!("keys from the library's setup: {}", bad.join("; ")),
                format!("# scheme: kzg10 / marlin / sonic on KZG10::setup({})\n# case: {}\n# seed: {}\n# hiding bound {} point {} delta {}\n# rerun: .build/cargo/debug/pcv-harness C03 --seed {} --only {}\n", d, id, ctx.seed, hb, crate::wire::fe(&z), crate::wire::fe(&delta), ctx.seed, id));
        }
        ctx.rep.case(&format!("kzg10 real setup d={} hb={} compensation forged_ok={}", d, hb, forged_ok), Some(format!("kzg10/real-setup/{}/{}", d, hb)));
    }
}

pub fn c05(ctx: &mut Ctx) {
    let nb = ctx.n(30, 400);
    for i in 0..nb {
        let mut rng = rng_for(ctx.seed, "C05/kzg10", i as u64);
        let k = range(&mut rng, 2, 6);
        let b = honest_batch(&mut rng, 24, k);
        // all true
        batch_case(ctx, &mut rng, &format!("C05/kzg10/{}/true", i), &b, &[], true);
        // a random subset false
        let mut sub = vec![];
        for j in 0..k {
            if coin(&mut rng) {
                sub.push(j);
            }
        }
        if sub.is_empty() {
            sub.push(range(&mut rng, 0, k - 1));
        }
        batch_case(ctx, &mut rng, &format!("C05/kzg10/{}/subset", i), &b, &sub, false);
        // cancelling errors (+d, -d) on every ordered pair of query points
        for a in 0..k {
            for c in 0..k {
                if a == c { continue; }
                let d = rand_nonzero(&mut rng);
                batch_case_deltas(ctx, &mut rng, &format!("C05/kzg10/{}/cancel{}-{}", i, a, c), &b, &[a, c], Some(&[d, -d]), false);
            }
        }
        // every subset for small k
        if k <= 3 {
            for mask in 1..(1usize << k) {
                let s: Vec<usize> = (0..k).filter(|j| mask >> j & 1 == 1).collect();
                batch_case(ctx, &mut rng, &format!("C05/kzg10/{}/mask{}", i, mask), &b, &s, false);
            }
        }
    }
    ctx.flush_model("C05-kzg10");
    let n = ctx.n(10, 100);
    batch_shapes(ctx, "C05", n);
}

/// `KZG10::batch_check` with slices of different lengths and a false claim among the claims that
/// have no proof (or a surplus proof): must be refused; equals the model
pub fn batch_shapes(ctx: &mut Ctx, prop: &str, n: usize) {
    for i in 0..n {
        let mut rng = rng_for(ctx.seed, &format!("{}/kzg10-shape", prop), i as u64);
        let k = range(&mut rng, 2, 5);
        let b = honest_batch(&mut rng, 16, k);
        let vk = b.items[0].vk.clone();
        let cs: Vec<Commitment<Bls12_381>> = b.items.iter().map(|t| t.comm).collect();
        let zs: Vec<Fr> = b.items.iter().map(|t| t.z).collect();
        let mut vs: Vec<Fr> = b.items.iter().map(|t| t.v).collect();
        // the false claim sits at the last position
        vs[k - 1] += rand_nonzero(&mut rng);
        let ps: Vec<Proof<Bls12_381>> = b.items.iter().map(|t| t.proof).collect();
        let mut c_ss = vec![];
        let mut w_ss = vec![];
        for t in &b.items {
            if let Some((c, w)) = scalars(t) { c_ss.push(c); w_ss.push(w); }
        }
        if c_ss.len() != k { continue; }
        let shapes: Vec<(&str, usize, usize, usize, usize)> = vec![
            ("proofs-truncated", k, k, k, k - 1),
            ("proofs-empty", k, k, k, 0),
            ("values-truncated", k, k, k - 1, k),
            ("points-truncated", k, k - 1, k, k),
            ("commitments-truncated", k - 1, k, k, k),
        ];
        for (name, nc, nz, nv, np) in shapes {
            let id = format!("{}/kzg10-shape/{}/{}", prop, i, name);
            if !ctx.selected(&id) { continue; }
            let rs = replay_u128(&rng, k + 1);
            let out = batch_check_impl(&vk, &cs[..nc], &zs[..nz], &vs[..nv], &ps[..np], &mut rng.clone());
            let acc = accepted(&out);
            let t0 = &b.items[0];
            let req = t0
                .vk_args(Req::new("kzg.batch_check"))
                .arg("cs", wire::fes(&c_ss[..nc]))
                .arg("zs", wire::fes(&zs[..nz]))
                .arg("vs", wire::fes(&vs[..nv]))
                .arg("ws", wire::fes(&w_ss[..np]))
                .arg("rvs", wire::Val::L(ps[..np].iter().map(|p| wire::opt_fe(&p.random_v)).collect()))
                .arg("rs", wire::fes(&rs));
            ctx.ses.ask(&id, req, out);
            if acc {
                ctx.rep.expect_fail(&id, &format!("kzg10/false-claim-accepted/shape-{}", name),
                    "batch_check accepted slices of different lengths although a claim is false",
                    format!("# scheme: kzg10 batch_check\n# case: {}\n# seed: {}\n# k={} shape={} (false claim at the last position)\n", id, ctx.seed, k, name));
            }
            ctx.rep.count(&format!("kzg10/shape-{}", name));
            ctx.rep.case(&format!("kzg10 batch shape {} k={} accepted={}", name, k, acc), Some(format!("kzg10-shape/{}/{}", k, name)));
        }
    }
    ctx.flush_model(&format!("{}-kzg10-shape", prop));
}

pub fn c10(ctx: &mut Ctx) {
    let n = ctx.n(30, 600);
    mutation_run(ctx, "C10", ALL_MUTATIONS, n, false);
    ctx.flush_model("C10-kzg10");
}
