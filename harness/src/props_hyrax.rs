//! Model-backed runs for the hyrax scheme: `run(ctx, prop)` is called for every property; handle the
//! properties this scheme takes part in and return immediately for the others.
//! Trapdoor mode (see `hyrax.rs`): every case id starts with `<prop>/hyrax-model/`.
#[path = "hyrax.rs"]
pub mod hyrax;

use crate::common::*;
use crate::wire::{self, Req, Val};
use crate::Ctx;
use ark_bls12_381::{Fr, G1Affine};
use ark_ec::{AffineRepr, CurveGroup};
use ark_ff::{Field, UniformRand, Zero};
use ark_poly::Polynomial;
use ark_poly_commit::LabeledPolynomial;
use ark_serialize::CanonicalSerialize;
use hyrax::*;

pub fn run(ctx: &mut Ctx, prop: &str) {
    match prop {
        "C01" => c01(ctx),
        "C02" => c02(ctx),
        "C03" => {
            c03(ctx);
            // what enters the challenge of the dot-product argument (6 absorbs per polynomial, incl. com_eval) is
            // part of evaluation binding: the transcript events are compared with the model here as well
            c11_p(ctx, "C03", 3);
        }
        "C08" => c08(ctx),
        "C09" => c09(ctx),
        "C10" => c10(ctx),
        "C11" => {
            let n = ctx.n(9, 90);
            c11_p(ctx, "C11", n)
        }
        "C19" => c19(ctx),
        _ => {}
    }
}

fn nv_for(ctx: &Ctx, rng: &mut Rng, i: usize) -> usize {
    if ctx.thorough {
        match i % 12 {
            11 => 10,
            _ => [2, 4, 6, 8][range(rng, 0, 3)],
        }
    } else {
        [2, 4, 6][i % 3]
    }
}

/// an honest case (commitments of `k` polynomials) opened at a random point; failures of in-domain
/// requests are expectation failures
fn base(ctx: &mut Ctx, rng: &mut Rng, id: &str, nv: usize, kinds: &[usize]) -> Option<(Case, Opened)> {
    let c = match gen_case_with(rng, nv, kinds) {
        Ok(c) => c,
        Err(e) => {
            ctx.rep.expect_fail(
                id,
                &format!("hyrax/honest-commit-failed/{}", e.split(':').next().unwrap_or("")),
                &format!("in-domain commit refused or not key-defined: {}", e),
                format!("# scheme: hyrax\n# case: {}\n# seed: {}\n# nv={} kinds={:?}\n# {}\n", id, ctx.seed, nv, kinds, e),
            );
            return None;
        }
    };
    let (point, _) = rand_point(rng, nv);
    match open_lib(&c.trap, &c.polys, &c.coms, &c.states, &point, rng) {
        Ok(o) => Some((c, o)),
        Err(e) => {
            ctx.rep.expect_fail(
                id,
                &format!("hyrax/honest-open-failed/{}", e.split(':').next().unwrap_or("")),
                &format!("in-domain open refused or not key-defined: {}", e),
                c.replay(id, ctx.seed, &format!("point={} : {}", wire::fes(&point), e)),
            );
            None
        }
    }
}

fn kinds_for(rng: &mut Rng, i: usize, k: usize) -> Vec<usize> {
    // the first polynomial cycles through zero / constant / sparse / counting / random
    let mut v = vec![[0usize, 1, 2, 3, 4][i % 5]];
    for _ in 1..k {
        v.push(range(rng, 0, 7));
    }
    v
}

fn stmt_text(st: &Stmt) -> String {
    format!(
        "ks={} h={} coms={} point={} values={} com_eval={} com_d={} com_b={} zs={} z_d={} z_b={} r_eval={}",
        wire::fes(&st.ks),
        wire::fe(&st.h),
        wire::fess(&st.coms),
        wire::fes(&st.point),
        wire::fes(&st.values),
        wire::fes(&st.proofs.iter().map(|p| p.ce).collect::<Vec<_>>()),
        wire::fes(&st.proofs.iter().map(|p| p.cd).collect::<Vec<_>>()),
        wire::fes(&st.proofs.iter().map(|p| p.cb).collect::<Vec<_>>()),
        wire::fess(&st.proofs.iter().map(|p| p.z.clone()).collect::<Vec<_>>()),
        wire::fes(&st.proofs.iter().map(|p| p.z_d).collect::<Vec<_>>()),
        wire::fes(&st.proofs.iter().map(|p| p.z_b).collect::<Vec<_>>()),
        wire::fes(&st.proofs.iter().map(|p| p.r_eval).collect::<Vec<_>>()),
    )
}

// ------------------------------------------------------------------------------------------------
// C01
// ------------------------------------------------------------------------------------------------

fn c01(ctx: &mut Ctx) {
    let n = ctx.n(18, 240);
    for i in 0..n {
        let id = format!("C01/hyrax-model/{}", i);
        if !ctx.selected(&id) {
            continue;
        }
        let mut rng = rng_for(ctx.seed, "C01/hyrax-model", i as u64);
        let nv = nv_for(ctx, &mut rng, i);
        let k = 1 + (i / 3) % 3;
        let kinds = kinds_for(&mut rng, i, k);
        let (c, o) = match base(ctx, &mut rng, &id, nv, &kinds) {
            Some(x) => x,
            None => continue,
        };
        ask_commit(ctx, &id, &c);
        // the helper functions of the model against the crate's own
        let (l, r) = tensors(&o.point);
        let rev: Vec<Fr> = o.point.iter().rev().cloned().collect();
        ctx.ses.ask(
            &id,
            Req::new("hyrax.tensor_prime").arg("values", wire::fes(&rev[nv / 2..])),
            ImplOutcome::Ok(vec![("t".into(), Expect::Fes(l.clone()))]),
        );
        ctx.ses.ask(
            &id,
            Req::new("hyrax.tensor_prime").arg("values", wire::fes(&rev[..nv / 2])),
            ImplOutcome::Ok(vec![("t".into(), Expect::Fes(r.clone()))]),
        );
        let values: Vec<Fr> = c.polys.iter().map(|p| p.polynomial().evaluate(&o.point)).collect();
        for (j, v) in values.iter().enumerate() {
            // the specification of the claimed value: ark-poly's `evaluate`
            ctx.ses.ask(
                &id,
                Req::new("hyrax.mle_eval").arg("evals", wire::fes(&c.evals(j))).arg("point", wire::fes(&o.point)),
                ImplOutcome::Ok(vec![("v".into(), Expect::Fe(*v))]),
            );
        }
        ask_open(ctx, &id, &c.trap, &c.labels(), &c.labels(), &vec![nv; k], &c.mirrors, &o);
        let st = honest_stmt(&c, &o);
        let ch = run_check(ctx, &id, &st);
        if ch.dec != Dec::Accept {
            ctx.rep.expect_fail(
                &id,
                "hyrax/honest-rejected",
                &format!("honest proof of a true claim was not accepted: {}", ch.detail),
                c.replay(&id, ctx.seed, &format!("check(honest) = {} : {}", ch.detail, stmt_text(&st))),
            );
        }
        for kd in &c.kinds {
            ctx.rep.count(&format!("hyrax-model/poly-{}", kd));
        }
        ctx.rep.count(&format!("hyrax-model/nv-{}", nv));
        ctx.rep.count(&format!("hyrax-model/k-{}", k));
        ctx.rep.case(&c.desc(), Some(format!("hyrax-model/{}/{}/{}", nv, k, c.kinds[0])));
    }
    // flat_to_matrix_column_major, also non-square and with a wrong length (abort)
    for i in 0..ctx.n(6, 40) {
        let id = format!("C01/hyrax-model/flat/{}", i);
        if !ctx.selected(&id) {
            continue;
        }
        let mut rng = rng_for(ctx.seed, "C01/hyrax-model/flat", i as u64);
        let n = range(&mut rng, 1, 5);
        let m = range(&mut rng, 1, 5);
        let len = if i % 3 == 2 { n * m + 1 } else { n * m };
        let flat: Vec<Fr> = (0..len).map(|_| Fr::rand(&mut rng)).collect();
        let out = match guarded(|| ark_poly_commit::verif_hooks::flat_to_matrix_column_major(&flat, n, m)) {
            Ok(rows) => ImplOutcome::Ok(vec![("rows".into(), Expect::Raw(wire::fess(&rows)))]),
            Err(a) => ImplOutcome::Refuse(a),
        };
        ctx.ses.ask(
            &id,
            Req::new("hyrax.flat_to_matrix").arg("flat", wire::fes(&flat)).arg("n", wire::nat(n)).arg("m", wire::nat(m)),
            out,
        );
        ctx.rep.case(&format!("hyrax flat_to_matrix n={} m={} len={}", n, m, len), None);
    }
    ctx.flush_model("C01-hyrax");
}

// ------------------------------------------------------------------------------------------------
// C02: statement mutations with the honest proof
// ------------------------------------------------------------------------------------------------

fn report_false_accept(ctx: &mut Ctx, id: &str, c: &Case, what: &str, st: &Stmt, ch: &Checked, claim_false: bool) {
    if claim_false && ch.dec == Dec::Accept {
        ctx.rep.expect_fail(
            id,
            &format!("hyrax/false-claim-accepted/{}", what),
            &format!("verifier accepted a false claim ({})", what),
            c.replay(id, ctx.seed, &format!("mutation {} accepted: {}", what, stmt_text(st))),
        );
    }
}

fn c02(ctx: &mut Ctx) {
    let n = ctx.n(12, 160);
    for i in 0..n {
        let id0 = format!("C02/hyrax-model/{}", i);
        if !ctx.selected(&id0) {
            continue;
        }
        let mut rng = rng_for(ctx.seed, "C02/hyrax-model", i as u64);
        let nv = nv_for(ctx, &mut rng, i);
        let k = 1 + (i / 3) % 3;
        let kinds = kinds_for(&mut rng, i + 2, k);
        let (c, o) = match base(ctx, &mut rng, &id0, nv, &kinds) {
            Some(x) => x,
            None => continue,
        };
        let st0 = honest_stmt(&c, &o);
        for j in 0..k {
            // value + delta
            {
                let id = format!("{}/value/{}", id0, j);
                let mut st = st0.clone();
                st.values[j] += rand_nonzero(&mut rng);
                let ch = run_check(ctx, &id, &st);
                // theorem hyrax_wrong_value_rejected: delta != 0 and ks[0] != 0 => rejected
                report_false_accept(ctx, &id, &c, "value", &st, &ch, !c.trap.ks[0].is_zero());
                ctx.rep.count("hyrax-model/mut-value");
                ctx.rep.case(&format!("{} value+delta at {} -> {:?}", c.desc(), j, ch.dec), Some(format!("hyrax-model/value/{}/{}/{}", nv, k, j)));
            }
            // commitment of another polynomial at position j
            {
                let id = format!("{}/comm-other/{}", id0, j);
                let (q, _) = poly_kind(&mut rng, nv, 4);
                let lq = vec![LabeledPolynomial::new(format!("p{}", j), q.clone(), Some(1), None)];
                if let Ok((cq, sq)) = commit_lib(&c.trap, &lq, &mut rng) {
                    if let Ok(mq) = read_state(&sq[0]) {
                        let s = row_scalars(&c.trap, &mq);
                        if pts(&s) == cq[0].commitment().row_coms {
                            let mut st = st0.clone();
                            st.coms[j] = s;
                            let ch = run_check(ctx, &id, &st);
                            let claim_false = q.evaluate(&o.point) != st.values[j];
                            report_false_accept(ctx, &id, &c, "comm-other", &st, &ch, claim_false);
                            ctx.rep.count("hyrax-model/mut-comm-other");
                            ctx.rep.case(&format!("{} commitment of another polynomial at {} -> {:?}", c.desc(), j, ch.dec), Some(format!("hyrax-model/comm-other/{}/{}", nv, j)));
                        }
                    }
                }
            }
            // one row commitment replaced by a random element
            {
                let id = format!("{}/comm-row/{}", id0, j);
                let mut st = st0.clone();
                let r = range(&mut rng, 0, c.dim - 1);
                st.coms[j][r] = Fr::rand(&mut rng);
                let ch = run_check(ctx, &id, &st);
                ctx.rep.count("hyrax-model/mut-comm-row");
                ctx.rep.case(&format!("{} row commitment {} of {} replaced -> {:?}", c.desc(), r, j, ch.dec), Some(format!("hyrax-model/comm-row/{}/{}", nv, j)));
            }
        }
        // another point, value kept (a false claim unless every polynomial agrees at both points)
        {
            let id = format!("{}/point", id0);
            let mut st = st0.clone();
            let t = range(&mut rng, 0, nv - 1);
            st.point[t] += rand_nonzero(&mut rng);
            let claim_false = c.polys.iter().zip(&st.values).any(|(p, v)| p.polynomial().evaluate(&st.point) != *v);
            let ch = run_check(ctx, &id, &st);
            report_false_accept(ctx, &id, &c, "point", &st, &ch, claim_false);
            ctx.rep.count("hyrax-model/mut-point");
            ctx.rep.case(&format!("{} point coordinate {} moved -> {:?}", c.desc(), t, ch.dec), Some(format!("hyrax-model/point/{}/{}/{}", nv, k, t)));
        }
        // another point with the values of that point (a true claim with a proof for another point)
        {
            let id = format!("{}/point-true", id0);
            let mut st = st0.clone();
            let (p2, _) = rand_point(&mut rng, nv);
            st.point = p2;
            st.values = c.polys.iter().map(|p| p.polynomial().evaluate(&st.point)).collect();
            let ch = run_check(ctx, &id, &st);
            ctx.rep.count("hyrax-model/mut-point-true");
            ctx.rep.case(&format!("{} proof replayed at another point -> {:?}", c.desc(), ch.dec), Some(format!("hyrax-model/point-true/{}/{}", nv, k)));
        }
    }
    ctx.flush_model("C02-hyrax");
}

// ------------------------------------------------------------------------------------------------
// C03: crafted / malformed proofs for a FALSE value
// ------------------------------------------------------------------------------------------------

const COMPONENTS: &[&str] = &["com_eval", "com_d", "com_b", "z", "z_d", "z_b", "r_eval"];

fn replace_component(rng: &mut Rng, p: &mut ProofS, comp: &str) {
    match comp {
        "com_eval" => p.ce = Fr::rand(rng),
        "com_d" => p.cd = Fr::rand(rng),
        "com_b" => p.cb = Fr::rand(rng),
        "z" => {
            let i = range(rng, 0, p.z.len() - 1);
            p.z[i] = Fr::rand(rng)
        }
        "z_d" => p.z_d = Fr::rand(rng),
        "z_b" => p.z_b = Fr::rand(rng),
        _ => p.r_eval = Fr::rand(rng),
    }
}

const SHAPES: &[&str] = &[
    "proofs-shorter", "proofs-longer", "proofs-empty", "values-shorter", "values-longer", "coms-shorter",
    "z-stretched-zero", "z-stretched-random", "z-shortened", "z-empty", "rows-shorter", "rows-longer", "rows-empty",
];

fn apply_shape(rng: &mut Rng, st: &mut Stmt, j: usize, shape: &str) {
    match shape {
        "proofs-shorter" => {
            st.proofs.pop();
        }
        "proofs-longer" => {
            let p = st.proofs[j].clone();
            st.proofs.push(p)
        }
        "proofs-empty" => st.proofs.clear(),
        "values-shorter" => {
            st.values.pop();
        }
        "values-longer" => st.values.push(Fr::rand(rng)),
        "coms-shorter" => {
            st.coms.pop();
        }
        "z-stretched-zero" => st.proofs[j].z.push(Fr::zero()),
        "z-stretched-random" => st.proofs[j].z.push(Fr::rand(rng)),
        "z-shortened" => {
            st.proofs[j].z.pop();
        }
        "z-empty" => st.proofs[j].z.clear(),
        "rows-shorter" => {
            st.coms[j].pop();
        }
        "rows-longer" => st.coms[j].push(Fr::rand(rng)),
        _ => st.coms[j].clear(),
    }
}

fn c03(ctx: &mut Ctx) {
    let n = ctx.n(8, 100);
    for i in 0..n {
        let id0 = format!("C03/hyrax-model/{}", i);
        if !ctx.selected(&id0) {
            continue;
        }
        let mut rng = rng_for(ctx.seed, "C03/hyrax-model", i as u64);
        let nv = nv_for(ctx, &mut rng, i);
        let k = 1 + (i / 3) % 3;
        let kinds = kinds_for(&mut rng, i + 4, k);
        let (c, o) = match base(ctx, &mut rng, &id0, nv, &kinds) {
            Some(x) => x,
            None => continue,
        };
        let st0 = honest_stmt(&c, &o);
        let j = range(&mut rng, 0, k - 1);
        let delta = rand_nonzero(&mut rng);
        let mut stf = st0.clone();
        stf.values[j] += delta; // the FALSE claim every forgery below tries to prove
        // (iii) single-component replacement
        for comp in COMPONENTS {
            let id = format!("{}/replace/{}", id0, comp);
            let mut st = stf.clone();
            replace_component(&mut rng, &mut st.proofs[j], comp);
            let ch = run_check(ctx, &id, &st);
            report_false_accept(ctx, &id, &c, &format!("replace-{}", comp), &st, &ch, true);
            ctx.rep.count(&format!("hyrax-model/replace-{}", comp));
            ctx.rep.case(&format!("{} false value, {} replaced -> {:?}", c.desc(), comp, ch.dec), Some(format!("hyrax-model/replace/{}/{}/{}", comp, nv, k)));
        }
        // the one accepted r_eval for the false value (theorem hyrax_value_and_r_eval): it needs the
        // discrete log of com_key[0] w.r.t. h, i.e. it is exactly a break of the Pedersen binding;
        // the model must agree, no expectation attached
        {
            let id = format!("{}/compensated-r_eval", id0);
            let mut st = stf.clone();
            st.proofs[j].r_eval -= delta * c.trap.ks[0] * c.trap.h.inverse().unwrap();
            let ch = run_check(ctx, &id, &st);
            ctx.rep.count(&format!("hyrax-model/compensated-{:?}", ch.dec));
            ctx.rep.case(&format!("{} false value with r_eval solved from the trapdoor -> {:?}", c.desc(), ch.dec), Some(format!("hyrax-model/compensated/{}", nv)));
        }
        // (i) honest prover run on another polynomial q (own commitment and state), used against com(p)
        {
            let (q, _) = poly_kind(&mut rng, nv, 4);
            let lq = vec![LabeledPolynomial::new(format!("p{}", j), q.clone(), Some(1), None)];
            if let Ok((cq, sq)) = commit_lib(&c.trap, &lq, &mut rng) {
                if let Ok(oq) = open_lib(&c.trap, &lq, &cq, &sq, &o.point, &mut rng) {
                    let id = format!("{}/proof-of-other-poly", id0);
                    let mut st = st0.clone();
                    st.proofs[j] = oq.proofs_s[0].clone();
                    st.values[j] = q.evaluate(&o.point);
                    let claim_false = st.values[j] != st0.values[j];
                    let ch = run_check(ctx, &id, &st);
                    report_false_accept(ctx, &id, &c, "proof-of-other-poly", &st, &ch, claim_false);
                    ctx.rep.count("hyrax-model/proof-of-other-poly");
                    ctx.rep.case(&format!("{} proof of another polynomial -> {:?}", c.desc(), ch.dec), Some(format!("hyrax-model/other-poly/{}/{}", nv, k)));
                }
                // prover run on (p, com p) with the STATE of q
                let mut states: Vec<HState> = vec![];
                for (t, m) in c.mirrors.iter().enumerate() {
                    if t == j {
                        match read_state(&sq[0]).and_then(|m| make_state(&m)) {
                            Ok(s) => states.push(s),
                            Err(_) => {}
                        }
                    } else if let Ok(s) = make_state(m) {
                        states.push(s)
                    }
                }
                if states.len() == k {
                    if let Ok(os) = open_lib(&c.trap, &c.polys, &c.coms, &states, &o.point, &mut rng) {
                        let id = format!("{}/proof-from-other-state", id0);
                        let mut mirrors = c.mirrors.clone();
                        mirrors[j] = read_state(&sq[0]).unwrap();
                        ask_open(ctx, &id, &c.trap, &c.labels(), &c.labels(), &vec![nv; k], &mirrors, &os);
                        let mut st = st0.clone();
                        st.proofs = os.proofs_s.clone();
                        st.values[j] = q.evaluate(&o.point);
                        let claim_false = st.values[j] != st0.values[j];
                        let ch = run_check(ctx, &id, &st);
                        report_false_accept(ctx, &id, &c, "proof-from-other-state", &st, &ch, claim_false);
                        ctx.rep.count("hyrax-model/proof-from-other-state");
                        ctx.rep.case(&format!("{} proof made from another state -> {:?}", c.desc(), ch.dec), Some(format!("hyrax-model/other-state/{}/{}", nv, k)));
                    }
                }
            }
        }
        // (ii) proof for another point, presented at the original point with the other point's values
        {
            let (p2, _) = rand_point(&mut rng, nv);
            if let Ok(o2) = open_lib(&c.trap, &c.polys, &c.coms, &c.states, &p2, &mut rng) {
                let id = format!("{}/proof-other-point", id0);
                let mut st = st0.clone();
                st.proofs = o2.proofs_s.clone();
                st.values = c.polys.iter().map(|p| p.polynomial().evaluate(&p2)).collect();
                let claim_false = st.values != st0.values;
                let ch = run_check(ctx, &id, &st);
                report_false_accept(ctx, &id, &c, "proof-other-point", &st, &ch, claim_false);
                ctx.rep.count("hyrax-model/proof-other-point");
                ctx.rep.case(&format!("{} proof for another point -> {:?}", c.desc(), ch.dec), Some(format!("hyrax-model/other-point/{}/{}", nv, k)));
            }
        }
        // (iv) shapes, with the false value
        for shape in SHAPES {
            let id = format!("{}/shape/{}", id0, shape);
            let mut st = stf.clone();
            apply_shape(&mut rng, &mut st, j, shape);
            let ch = run_check(ctx, &id, &st);
            // an empty statement (no commitment, no value, no proof) claims nothing
            let claims_something = !(st.coms.is_empty() && st.values.is_empty() && st.proofs.is_empty());
            report_false_accept(ctx, &id, &c, &format!("shape-{}", shape), &st, &ch, claims_something);
            ctx.rep.count(&format!("hyrax-model/shape-{}-{:?}", shape, ch.dec));
            ctx.rep.case(&format!("{} false value, {} -> {:?}", c.desc(), shape, ch.dec), Some(format!("hyrax-model/shape/{}/{}/{}", shape, nv, k)));
        }
        // shapes on the trapdoor-compensated forgery (the evaluation test passes, so the later
        // shape tests are reached with a false value): only the model has a say
        for shape in SHAPES {
            let id = format!("{}/shape-comp/{}", id0, shape);
            let mut st = stf.clone();
            st.proofs[j].r_eval -= delta * c.trap.ks[0] * c.trap.h.inverse().unwrap();
            apply_shape(&mut rng, &mut st, j, shape);
            let ch = run_check(ctx, &id, &st);
            ctx.rep.count(&format!("hyrax-model/shape-comp-{}-{:?}", shape, ch.dec));
            ctx.rep.case(&format!("{} compensated false value, {} -> {:?}", c.desc(), shape, ch.dec), None);
        }
        // shapes with the TRUE value: only the model has a say
        for shape in ["proofs-empty", "z-stretched-zero", "rows-shorter"] {
            let id = format!("{}/shape-true/{}", id0, shape);
            let mut st = st0.clone();
            apply_shape(&mut rng, &mut st, j, shape);
            let ch = run_check(ctx, &id, &st);
            ctx.rep.count(&format!("hyrax-model/shape-true-{}-{:?}", shape, ch.dec));
            ctx.rep.case(&format!("{} true value, {} -> {:?}", c.desc(), shape, ch.dec), None);
        }
    }
    ctx.flush_model("C03-hyrax");
}

// ------------------------------------------------------------------------------------------------
// C10: single-fault neighbourhood of honest transcripts
// ------------------------------------------------------------------------------------------------

fn c10(ctx: &mut Ctx) {
    let n = ctx.n(10, 140);
    for i in 0..n {
        let id0 = format!("C10/hyrax-model/{}", i);
        if !ctx.selected(&id0) {
            continue;
        }
        let mut rng = rng_for(ctx.seed, "C10/hyrax-model", i as u64);
        let nv = nv_for(ctx, &mut rng, i);
        let k = 1 + (i / 3) % 3;
        let kinds = kinds_for(&mut rng, i + 1, k);
        let (c, o) = match base(ctx, &mut rng, &id0, nv, &kinds) {
            Some(x) => x,
            None => continue,
        };
        let st0 = honest_stmt(&c, &o);
        {
            let id = format!("{}/honest", id0);
            let ch = run_check(ctx, &id, &st0);
            if ch.dec != Dec::Accept {
                ctx.rep.expect_fail(&id, "hyrax/honest-rejected", &format!("honest transcript not accepted: {}", ch.detail),
                    c.replay(&id, ctx.seed, &stmt_text(&st0)));
            }
            ctx.rep.case(&format!("{} honest -> {:?}", c.desc(), ch.dec), None);
        }
        let j = range(&mut rng, 0, k - 1);
        let faults: Vec<String> = COMPONENTS
            .iter()
            .map(|s| s.to_string())
            .chain(["key-0", "key-i", "key-h", "row-com", "point", "value"].iter().map(|s| s.to_string()))
            .collect();
        for f in &faults {
            let id = format!("{}/fault/{}", id0, f);
            let mut st = st0.clone();
            let mut claim_false = false;
            match f.as_str() {
                "key-0" => st.ks[0] = rand_nonzero(&mut rng),
                "key-i" => {
                    let t = range(&mut rng, 0, st.ks.len() - 1);
                    st.ks[t] = rand_nonzero(&mut rng)
                }
                "key-h" => st.h = rand_nonzero(&mut rng),
                "row-com" => {
                    let t = range(&mut rng, 0, c.dim - 1);
                    st.coms[j][t] = Fr::rand(&mut rng)
                }
                "point" => {
                    let t = range(&mut rng, 0, nv - 1);
                    st.point[t] += rand_nonzero(&mut rng);
                    claim_false = c.polys.iter().zip(&st.values).any(|(p, v)| p.polynomial().evaluate(&st.point) != *v);
                }
                "value" => {
                    st.values[j] += rand_nonzero(&mut rng);
                    claim_false = true;
                }
                comp => replace_component(&mut rng, &mut st.proofs[j], comp),
            }
            let ch = run_check(ctx, &id, &st);
            report_false_accept(ctx, &id, &c, &format!("fault-{}", f), &st, &ch, claim_false);
            ctx.rep.count(&format!("hyrax-model/fault-{}-{:?}", f, ch.dec));
            ctx.rep.case(&format!("{} fault {} -> {:?}", c.desc(), f, ch.dec), Some(format!("hyrax-model/fault/{}/{}/{}", f, nv, k)));
        }
    }
    ctx.flush_model("C10-hyrax");
}

// ------------------------------------------------------------------------------------------------
// C08: row commitments are the key-defined linear map
// ------------------------------------------------------------------------------------------------

fn c08(ctx: &mut Ctx) {
    let n = ctx.n(12, 120);
    for i in 0..n {
        let id = format!("C08/hyrax-model/{}", i);
        if !ctx.selected(&id) {
            continue;
        }
        let mut rng = rng_for(ctx.seed, "C08/hyrax-model", i as u64);
        let nv = nv_for(ctx, &mut rng, i);
        // p, q and p + q under one key
        let dim = 1usize << (nv / 2);
        let trap = Trap::random(&mut rng, dim);
        let (p, kp) = poly_kind(&mut rng, nv, [0usize, 1, 2, 3, 4][i % 5]);
        let (q, _) = poly_kind(&mut rng, nv, 4);
        let sum = &p + &q;
        let polys = vec![
            LabeledPolynomial::new("p0".to_string(), p, Some(1), None),
            LabeledPolynomial::new("p1".to_string(), q, Some(1), None),
            LabeledPolynomial::new("p2".to_string(), sum, Some(1), None),
        ];
        let (coms, states) = match commit_lib(&trap, &polys, &mut rng) {
            Ok(x) => x,
            Err(e) => {
                ctx.rep.expect_fail(&id, "hyrax/honest-commit-failed", &format!("in-domain commit refused: {}", e),
                    format!("# scheme: hyrax\n# case: {}\n# seed: {}\n# nv={}\n", id, ctx.seed, nv));
                continue;
            }
        };
        let mirrors: Vec<StateMirror> = match states.iter().map(read_state).collect::<Result<Vec<_>, _>>() {
            Ok(m) => m,
            Err(e) => {
                ctx.rep.expect_fail(&id, "hyrax/state-layout", &e, format!("# scheme: hyrax\n# case: {}\n# {}\n", id, e));
                continue;
            }
        };
        let ck = trap.params();
        // naive double-and-add sum over the PUBLISHED key points (no MSM code shared)
        let mut key_points: Vec<G1Affine> = ck.com_key.clone();
        key_points.push(ck.h);
        let mut ok_naive = true;
        let mut ok_matrix = true;
        for (t, (cm, m)) in coms.iter().zip(&mirrors).enumerate() {
            let evals = &polys[t].polynomial().evaluations;
            for r in 0..dim {
                // the matrix entry (row, col) is evals[col * dim + row]
                let row: Vec<Fr> = (0..dim).map(|col| evals[col * dim + r]).collect();
                if row != m.mat.entries[r] {
                    ok_matrix = false;
                }
                let mut coeffs = row.clone();
                coeffs.push(m.randomness[r]);
                if crate::props_c08::naive_sum(&key_points, &coeffs).into_affine() != cm.commitment().row_coms[r] {
                    ok_naive = false;
                }
            }
        }
        if !ok_matrix {
            ctx.rep.expect_fail(&id, "hyrax/state-matrix-not-column-major", "state matrix differs from M[row][col] = evals[col*dim+row]",
                format!("# scheme: hyrax\n# case: {}\n# seed: {}\n# nv={}\n", id, ctx.seed, nv));
        }
        if !ok_naive {
            ctx.rep.expect_fail(&id, "hyrax/commit-not-key-defined", "row commitment differs from the naive sum <row, com_key> + rho*h",
                format!("# scheme: hyrax\n# case: {}\n# seed: {}\n# nv={} ks={} h={}\n", id, ctx.seed, nv, wire::fes(&trap.ks), wire::fe(&trap.h)));
        }
        // additivity with the blinding removed: rows(p+q) - rho_{p+q} h = (rows(p) - rho_p h) + (rows(q) - rho_q h)
        let unblind = |t: usize, r: usize| -> ark_bls12_381::G1Projective {
            coms[t].commitment().row_coms[r].into_group() - ck.h.into_group() * mirrors[t].randomness[r]
        };
        let mut ok_add = true;
        for r in 0..dim {
            if unblind(2, r) != unblind(0, r) + unblind(1, r) {
                ok_add = false;
            }
        }
        if !ok_add {
            ctx.rep.expect_fail(&id, "hyrax/not-additive", "rows(p+q) != rows(p) + rows(q) once the states' randomness is accounted for",
                format!("# scheme: hyrax\n# case: {}\n# seed: {}\n# nv={}\n", id, ctx.seed, nv));
        }
        // and the model
        let com_s: Vec<Vec<Fr>> = mirrors.iter().map(|m| row_scalars(&trap, m)).collect();
        let case = Case { trap, nv, dim, polys, kinds: vec![kp, "random", "sum"], coms, states, mirrors, com_s };
        ask_commit(ctx, &id, &case);
        ctx.rep.count(&format!("hyrax-model/nv-{}", nv));
        ctx.rep.case(&format!("hyrax commit p,q,p+q nv={} kind={}", nv, kp), Some(format!("hyrax-model/c08/{}/{}", nv, kp)));
    }
    // refusals of commit: odd number of variables, key too short / too long
    for (t, (nv, klen)) in [(3usize, 2usize), (4, 2), (2, 1), (4, 8), (1, 1), (8, 8)].iter().enumerate() {
        let id = format!("C08/hyrax-model/refuse/{}", t);
        if !ctx.selected(&id) {
            continue;
        }
        let mut rng = rng_for(ctx.seed, "C08/hyrax-model/refuse", t as u64);
        let trap = Trap::random(&mut rng, *klen);
        let (p, _) = poly_kind(&mut rng, *nv, 4);
        let evals = p.evaluations.clone();
        let polys = vec![LabeledPolynomial::new("p0".to_string(), p, Some(1), None)];
        let out = match commit_lib(&trap, &polys, &mut rng) {
            Ok((coms, _)) => ImplOutcome::Ok(vec![("lens".into(), Expect::Nats(coms.iter().map(|c| c.commitment().row_coms.len()).collect()))]),
            Err(e) => ImplOutcome::Refuse(e),
        };
        let dim = 1usize << (nv / 2);
        let draws: Vec<Fr> = (0..dim).map(|_| Fr::rand(&mut rng)).collect();
        ctx.ses.ask(
            &id,
            Req::new("hyrax.commit")
                .arg("ks", wire::fes(&trap.ks))
                .arg("h", wire::fe(&trap.h))
                .arg("nvs", wire::nats(&[*nv]))
                .arg("evals", wire::fess(&[evals]))
                .arg("draws", wire::fes(&draws)),
            out,
        );
        ctx.rep.case(&format!("hyrax commit nv={} key length {}", nv, klen), Some(format!("hyrax-model/c08-refuse/{}/{}", nv, klen)));
    }
    ctx.flush_model("C08-hyrax");
}

// ------------------------------------------------------------------------------------------------
// C11: prover and verifier absorb the same byte strings and squeeze the same challenges
// ------------------------------------------------------------------------------------------------

/// the model's event log of one operation against the recorded one (`hyrax.transcript`)
fn ask_transcript(ctx: &mut Ctx, id: &str, req: Req, log: &LogSponge, dict: &Dict, mut extra: Vec<(String, Expect)>, refuse: Option<String>) {
    let req = req.arg("sq", squeezed(log));
    let out = match refuse {
        Some(k) => ImplOutcome::Refuse(k),
        None => {
            extra.push(("log".into(), Expect::Raw(decode_log(&log.log, dict))));
            ImplOutcome::Ok(extra)
        }
    };
    ctx.ses.ask(id, req, out);
}

fn lockstep_expect(ctx: &mut Ctx, id: &str, c: &Case, what: &str, p: &LogSponge, v: &LogSponge, accepted: bool, detail: &str) {
    if !accepted {
        ctx.rep.expect_fail(id, &format!("hyrax/history-rejected/{}", what), &format!("honest {} proof not accepted on the prover's transcript: {}", what, detail),
            c.replay(id, ctx.seed, &format!("{}: honest proof rejected", what)));
    } else if p.log != v.log || p.probe() != v.probe() {
        ctx.rep.expect_fail(id, &format!("hyrax/transcript-not-lockstep/{}", what),
            &format!("prover events [{}] differ from verifier events [{}] (or the next squeeze differs)", p.shape(), v.shape()),
            c.replay(id, ctx.seed, &format!("{}: prover and verifier sponge logs differ", what)));
    }
}

fn c11_p(ctx: &mut Ctx, prop: &str, n: usize) {
    use ark_crypto_primitives::sponge::CryptographicSponge;
    use ark_poly_commit::{Evaluations, PolynomialCommitment, QuerySet};
    use ark_std::rand::RngCore;
    for i in 0..n {
        let id = format!("{}/hyrax-model/{}", prop, i);
        if !ctx.selected(&id) {
            continue;
        }
        let mut rng = rng_for(ctx.seed, "C11/hyrax-model", i as u64);
        let nv = nv_for(ctx, &mut rng, i);
        let k = 1 + (i / 3) % 3;
        let kinds = kinds_for(&mut rng, i, k);
        let c = match gen_case_with(&mut rng, nv, &kinds) {
            Ok(c) => c,
            Err(e) => {
                ctx.rep.expect_fail(&id, &format!("hyrax/honest-commit-failed/{}", e.split(':').next().unwrap_or("")),
                    &format!("in-domain commit refused or not key-defined: {}", e),
                    format!("# scheme: hyrax\n# case: {}\n# seed: {}\n# nv={} kinds={:?}\n# {}\n", id, ctx.seed, nv, kinds, e));
                continue;
            }
        };
        let (point, _) = rand_point(&mut rng, nv);
        // a sponge pre-seeded with arbitrary absorbed data (every second case); the log starts here
        let mut pre = LogSponge::fresh();
        if i % 2 == 1 {
            pre.absorb(&Fr::rand(&mut rng));
        }
        pre.log.clear();
        let mut dict = Dict::new();
        dict.add(&c.trap.ks);
        dict.add(&[c.trap.h]);
        for s in &c.com_s {
            dict.add(s);
        }
        let labels = c.labels();
        let nvs = vec![nv; k];

        // ---- operation 1: `open` of all k polynomials at one point, `check` of the proofs
        let o = match open_lib_on(&c.trap, &c.polys, &c.coms, &c.states, &point, &mut rng, pre.clone()) {
            Ok(o) => o,
            Err(e) => {
                ctx.rep.expect_fail(&id, &format!("hyrax/honest-open-failed/{}", e.split(':').next().unwrap_or("")),
                    &format!("in-domain open refused or not key-defined: {}", e), c.replay(&id, ctx.seed, &e));
                continue;
            }
        };
        for p in &o.proofs_s {
            dict.add(&[p.ce, p.cd, p.cb]);
        }
        let req = state_args(
            Req::new("hyrax.transcript")
                .arg("side", wire::nat(0))
                .arg("ks", wire::fes(&c.trap.ks))
                .arg("h", wire::fe(&c.trap.h))
                .arg("plabels", labels_val(&labels))
                .arg("clabels", labels_val(&labels))
                .arg("nvs", wire::nats(&nvs)),
            &c.mirrors,
        )
        .arg("coms", wire::fess(&c.com_s))
        .arg("point", wire::fes(&point))
        .arg("draws", wire::fes(&o.draws));
        ask_transcript(ctx, &format!("{}/open", id), req, &o.sponge, &dict,
            vec![("k".into(), Expect::Nat(k)), ("used".into(), Expect::Nat(o.draws.len())),
                 ("com_eval".into(), Expect::G1s(o.proofs.iter().map(|p| p.com_eval).collect())),
                 ("z_d".into(), Expect::Fes(o.proofs.iter().map(|p| p.z_d).collect()))], None);
        let st = honest_stmt(&c, &o);
        let ch = run_check_on(ctx, &format!("{}/check", id), &st, pre.clone());
        let vreq = |st: &Stmt| {
            proof_args(
                Req::new("hyrax.transcript")
                    .arg("side", wire::nat(1))
                    .arg("ks", wire::fes(&st.ks))
                    .arg("h", wire::fe(&st.h))
                    .arg("coms", wire::fess(&st.coms))
                    .arg("point", wire::fes(&st.point))
                    .arg("values", wire::fes(&st.values)),
                &st.proofs,
            )
        };
        ask_transcript(ctx, &format!("{}/check-log", id), vreq(&st), &ch.sponge, &dict,
            vec![("b".into(), Expect::Bool(ch.dec == Dec::Accept))], if ch.dec == Dec::Refuse { Some(ch.detail.clone()) } else { None });
        lockstep_expect(ctx, &id, &c, "open", &o.sponge, &ch.sponge, ch.dec == Dec::Accept, &ch.detail);
        // 6 absorbs and one squeeze per polynomial
        let expected: Vec<String> = (0..k).flat_map(|_| vec!["a"; 6].into_iter().map(String::from).chain(std::iter::once("sf1".to_string()))).collect();
        let got: Vec<String> = o.sponge.shape().split(',').map(|s| if s.starts_with('a') { "a".to_string() } else { s.to_string() }).collect();
        if got != expected {
            ctx.rep.expect_fail(&id, "hyrax/transcript-shape", &format!("event shape {}", o.sponge.shape()),
                c.replay(&id, ctx.seed, "expected 6 absorbs + 1 squeeze per polynomial"));
        }

        // ---- the same proof checked on a sponge with another pre-state (displaced)
        let mut other = LogSponge::fresh();
        other.absorb(&Fr::from(1000 + i as u64));
        other.log.clear();
        let chd = run_check_on(ctx, &format!("{}/displaced", id), &st, other);
        ask_transcript(ctx, &format!("{}/displaced-log", id), vreq(&st), &chd.sponge, &dict,
            vec![("b".into(), Expect::Bool(chd.dec == Dec::Accept))], if chd.dec == Dec::Refuse { Some(chd.detail.clone()) } else { None });
        if chd.dec == Dec::Accept {
            ctx.rep.expect_fail(&id, "hyrax/accepted-on-other-transcript/pre-state", "proof accepted against a sponge with different prior absorbs",
                c.replay(&id, ctx.seed, "displaced proof accepted"));
        }

        // ---- operation 2 on the SAME sponges: default batch_open / batch_check over two point labels
        let (z2, _) = rand_point(&mut rng, nv);
        let mut qs: QuerySet<Vec<Fr>> = QuerySet::new();
        let mut evs: Evaluations<Vec<Fr>, Fr> = Evaluations::new();
        let mut qs_val = vec![];
        let mut ev_val = vec![];
        // (point label, point, polynomial index) in the order the default iterates: point labels
        // sorted, polynomial labels sorted inside
        let mut order: Vec<(String, Vec<Fr>, usize)> = vec![];
        for (j, lp) in c.polys.iter().enumerate() {
            let mut add = |pl: &str, z: &Vec<Fr>| {
                qs.insert((lp.label().clone(), (pl.to_string(), z.clone())));
                let v = lp.polynomial().evaluate(z);
                evs.insert((lp.label().clone(), z.clone()), v);
                qs_val.push(Val::L(vec![wire::label(lp.label()), wire::label(pl), wire::fes(z)]));
                ev_val.push(Val::L(vec![wire::label(lp.label()), wire::fes(z), wire::fe(&v)]));
                order.push((pl.to_string(), z.clone(), j));
            };
            add("a", &point);
            if j == 0 || j + 1 == k {
                add("b", &z2);
            }
        }
        order.sort_by(|x, y| (x.0.clone(), labels[x.2].clone()).cmp(&(y.0.clone(), labels[y.2].clone())));
        let ck = c.trap.params();
        let mut sp_p = o.sponge.clone();
        sp_p.log.clear();
        let mut sp_v = ch.sponge.clone();
        sp_v.log.clear();
        let mut replay = rng.clone();
        let bproof = match guarded(|| Hx::batch_open(&ck, c.polys.iter(), c.coms.iter(), &qs, &mut sp_p, c.states.iter(), Some(&mut rng as &mut dyn RngCore))) {
            Ok(Ok(p)) => p,
            Ok(Err(e)) => {
                ctx.rep.expect_fail(&id, "hyrax/honest-batch-open-failed", &format!("in-domain batch_open refused: {}", err_kind(&e)), c.replay(&id, ctx.seed, "batch_open"));
                continue;
            }
            Err(a) => {
                ctx.rep.expect_fail(&id, "hyrax/honest-batch-open-failed", &format!("in-domain batch_open aborted: {}", a), c.replay(&id, ctx.seed, "batch_open"));
                continue;
            }
        };
        let flat: Vec<_> = bproof.iter().flatten().cloned().collect();
        let dim = c.dim;
        let bdraws: Vec<Fr> = (0..flat.len() * (dim + 3)).map(|_| Fr::rand(&mut replay)).collect();
        let mut flat_s = vec![];
        let mut bad = replay.clone().next_u64() != rng.clone().next_u64() || flat.len() != order.len();
        if !bad {
            for (t, p) in flat.iter().enumerate() {
                match scalar_proof(&c.trap, &c.mirrors[order[t].2], &order[t].1, &bdraws[t * (dim + 3)..(t + 1) * (dim + 3)], p) {
                    Ok(ps) => flat_s.push(ps),
                    Err(_) => {
                        bad = true;
                        break;
                    }
                }
            }
        }
        if bad {
            ctx.rep.expect_fail(&id, "hyrax/batch-proofs-not-key-defined", "the proofs of batch_open are not the per-point-label proofs of `open` in map order on the caller's RNG",
                c.replay(&id, ctx.seed, "batch_open proofs / RNG draws"));
            continue;
        }
        for p in &flat_s {
            dict.add(&[p.ce, p.cd, p.cb]);
        }
        let req = state_args(
            Req::new("hyrax.transcript")
                .arg("side", wire::nat(2))
                .arg("ks", wire::fes(&c.trap.ks))
                .arg("h", wire::fe(&c.trap.h))
                .arg("labels", labels_val(&labels))
                .arg("nvs", wire::nats(&nvs)),
            &c.mirrors,
        )
        .arg("clabels", labels_val(&labels))
        .arg("coms", wire::fess(&c.com_s))
        .arg("qs", Val::L(qs_val.clone()))
        .arg("draws", wire::fes(&bdraws));
        ask_transcript(ctx, &format!("{}/batch-open", id), req, &sp_p, &dict,
            vec![("groups".into(), Expect::Nats(bproof.iter().map(|g| g.len()).collect())),
                 ("used".into(), Expect::Nat(bdraws.len())),
                 ("com_eval".into(), Expect::G1s(flat.iter().map(|p| p.com_eval).collect())),
                 ("com_d".into(), Expect::G1s(flat.iter().map(|p| p.com_d).collect())),
                 ("com_b".into(), Expect::G1s(flat.iter().map(|p| p.com_b).collect())),
                 ("z_b".into(), Expect::Fes(flat.iter().map(|p| p.z_b).collect()))], None);
        let mut vrng = rng.clone();
        let bres = guarded(|| Hx::batch_check(&ck, c.coms.iter(), &qs, &evs, &bproof, &mut sp_v, &mut vrng));
        let (bacc, brefuse, bdetail) = match &bres {
            Ok(Ok(b)) => (*b, None, format!("Ok({})", b)),
            Ok(Err(e)) => (false, Some(err_kind(e)), format!("Err({})", err_kind(e))),
            Err(a) => (false, Some(a.clone()), a.clone()),
        };
        let req = proof_args(
            Req::new("hyrax.transcript")
                .arg("side", wire::nat(3))
                .arg("ks", wire::fes(&c.trap.ks))
                .arg("h", wire::fe(&c.trap.h))
                .arg("clabels", labels_val(&labels))
                .arg("coms", wire::fess(&c.com_s))
                .arg("qs", Val::L(qs_val))
                .arg("evals", Val::L(ev_val))
                .arg("pk", wire::nats(&bproof.iter().map(|g| g.len()).collect::<Vec<_>>())),
            &flat_s,
        );
        ask_transcript(ctx, &format!("{}/batch-check", id), req, &sp_v, &dict, vec![("b".into(), Expect::Bool(bacc))], brefuse);
        lockstep_expect(ctx, &id, &c, "batch", &sp_p, &sp_v, bacc, &bdetail);
        ctx.rep.count(&format!("hyrax-model/c11-events-{}", o.sponge.log.len() + sp_p.log.len()));
        ctx.rep.case(&format!("{} lock-step: open + batch over 2 point labels, event logs vs model", c.desc()), Some(format!("hyrax-model/c11/{}/{}", nv, k)));
    }
    ctx.flush_model(&format!("{}-hyrax-transcript", prop));
}


// ------------------------------------------------------------------------------------------------
// C09: setup derives its generators from the protocol name; trim hands out the parameters
// ------------------------------------------------------------------------------------------------

/// the generator of counter `i`, re-derived here from the protocol name: Blake2s of `name ‖ i`,
/// `from_random_bytes`, on failure Blake2s of `name ‖ i ‖ j` for `j = 0, 1, …`, cofactor cleared
fn derive_generator(i: u64) -> G1Affine {
    use blake2::{Blake2s256, Digest};
    let name: &[u8] = b"Hyrax protocol";
    let mut bytes = name.to_vec();
    bytes.extend_from_slice(&i.to_le_bytes());
    let mut p = G1Affine::from_random_bytes(&Blake2s256::digest(&bytes));
    let mut j = 0u64;
    while p.is_none() {
        let mut b2 = bytes.clone();
        b2.extend_from_slice(&j.to_le_bytes());
        p = G1Affine::from_random_bytes(&Blake2s256::digest(&b2));
        j += 1;
    }
    p.unwrap().mul_by_cofactor_to_group().into_affine()
}

fn c09(ctx: &mut Ctx) {
    use ark_poly_commit::PolynomialCommitment;
    use ark_std::rand::RngCore;
    let mut nvs: Vec<Option<usize>> = vec![None, Some(0), Some(1), Some(2), Some(3), Some(4), Some(5), Some(6), Some(7), Some(8)];
    if ctx.thorough {
        nvs.extend([Some(9), Some(10), Some(12)]);
    }
    if ark_poly_commit::hyrax::PROTOCOL_NAME != b"Hyrax protocol" {
        ctx.rep.expect_fail("C09/hyrax-setup/name", "hyrax/protocol-name", "PROTOCOL_NAME is not the documented seed", "# PROTOCOL_NAME\n".into());
    }
    for (i, nv) in nvs.iter().enumerate() {
        let id = format!("C09/hyrax-setup/{}", i);
        if !ctx.selected(&id) {
            continue;
        }
        let mut rng = rng_for(ctx.seed, "C09/hyrax-setup", i as u64);
        let rp = |what: &str| format!("# scheme: hyrax\n# case: {}\n# seed: {}\n# setup(num_vars = {:?})\n# {}\n# rerun: .build/cargo/debug/pcv-harness C09 --seed {} --only {}\n", id, ctx.seed, nv, what, ctx.seed, id);
        let deg1 = range(&mut rng, 0, 64);
        let res = guarded(|| Hx::setup(deg1, *nv, &mut rng));
        let req = Req::new("hyrax.setup").arg("nv", wire::opt_nat(*nv));
        let in_domain = matches!(nv, Some(n) if n % 2 == 0);
        let pp = match res {
            Ok(Ok(pp)) => pp,
            Ok(Err(e)) => {
                ctx.ses.ask(&id, req, ImplOutcome::Refuse(err_kind(&e)));
                if in_domain {
                    ctx.rep.expect_fail(&id, "hyrax/in-domain-setup-refused", &format!("setup refused an even number of variables: {}", err_kind(&e)), rp("in-domain setup refused"));
                }
                ctx.rep.case(&format!("hyrax setup nv={:?} refused", nv), Some(format!("hyrax-setup/{:?}", nv)));
                continue;
            }
            Err(a) => {
                ctx.ses.ask(&id, req, ImplOutcome::Refuse(a.clone()));
                if in_domain {
                    ctx.rep.expect_fail(&id, "hyrax/in-domain-setup-aborted", &format!("setup aborted on an even number of variables: {}", a), rp("in-domain setup aborted"));
                }
                ctx.rep.case(&format!("hyrax setup nv={:?} aborted", nv), Some(format!("hyrax-setup/{:?}", nv)));
                continue;
            }
        };
        let n = nv.unwrap_or(0);
        if !in_domain {
            ctx.rep.expect_fail(&id, "hyrax/out-of-domain-setup-answered", "setup answered a missing or odd number of variables", rp("out-of-domain setup answered"));
        }
        let dim = 1usize << (n / 2);
        // the model says which counter every element is derived from; the elements must be the
        // independently derived generators of those counters
        ctx.ses.ask(&id, req, ImplOutcome::Ok(vec![
            ("n".into(), Expect::Nat(pp.com_key.len())),
            ("counters".into(), Expect::Nats((0..pp.com_key.len()).collect())),
            ("hcounter".into(), Expect::Nat(dim)),
        ]));
        let mut all = pp.com_key.clone();
        all.push(pp.h);
        let derived: Vec<G1Affine> = (0..=dim as u64).map(derive_generator).collect();
        if all != derived {
            ctx.rep.expect_fail(&id, "hyrax/generators-not-derived-from-seed", "the published generators are not the hash-to-curve points of PROTOCOL_NAME ‖ counter (counters 0..dim for com_key, dim for h)", rp("generator derivation"));
        }
        let mut seen = std::collections::HashSet::new();
        for g in &all {
            if g.is_zero() || !g.is_on_curve() || !g.is_in_correct_subgroup_assuming_on_curve() {
                ctx.rep.expect_fail(&id, "hyrax/generator-invalid", "a generator is the identity, off the curve or outside the prime-order subgroup", rp("generator validity"));
            }
            let mut b = vec![];
            g.serialize_compressed(&mut b).unwrap();
            if !seen.insert(b) {
                ctx.rep.expect_fail(&id, "hyrax/generators-coincide", "two published generators coincide", rp("generator distinctness"));
            }
        }
        // deterministic: another RNG, another degree argument, the same key
        let mut rng2 = rng_for(ctx.seed ^ 0x5555, "C09/hyrax-setup/second", i as u64);
        match guarded(|| Hx::setup(deg1 + 17, *nv, &mut rng2)) {
            Ok(Ok(pp2)) if pp2.com_key == pp.com_key && pp2.h == pp.h => {}
            _ => ctx.rep.expect_fail(&id, "hyrax/setup-not-deterministic", "two setups for the same number of variables disagree", rp("second setup")),
        }
        // trim hands out the parameters themselves, whatever it is asked
        for (d, hb, bounds) in [(0usize, 0usize, None), (deg1, 1, Some(vec![1usize, 5])), (usize::MAX, 7, Some(vec![]))] {
            match guarded(|| Hx::trim(&pp, d, hb, bounds.as_deref())) {
                Ok(Ok((ck, vk))) if ck.com_key == pp.com_key && ck.h == pp.h && vk.com_key == pp.com_key && vk.h == pp.h => {}
                _ => ctx.rep.expect_fail(&id, "hyrax/trim-not-faithful", &format!("trim({}, {}, {:?}) did not return the parameters as both keys", d, hb, bounds), rp("trim")),
            }
        }
        // the key interoperates: commit / open / check of a polynomial in `n` variables; other numbers
        // of variables are refused
        let (ck, vk) = Hx::trim(&pp, 0, 0, None).unwrap();
        for m in [n as isize - 2, n as isize, n as isize + 2] {
            if m < 0 || m > 10 {
                continue;
            }
            let m = m as usize;
            let poly = LabeledPolynomial::new("p".to_string(), <ML as ark_poly::MultilinearExtension<Fr>>::rand(m, &mut rng), Some(1), None);
            let r = guarded(|| Hx::commit(&ck, [&poly], Some(&mut rng as &mut dyn RngCore)));
            match (m == n, &r) {
                (true, Ok(Ok((coms, sts)))) => {
                    let pt: Vec<Fr> = (0..n).map(|_| Fr::rand(&mut rng)).collect();
                    let v = poly.polynomial().evaluate(&pt);
                    let mut sp = LogSponge::fresh();
                    let proof = guarded(|| Hx::open(&ck, [&poly], coms.iter(), &pt, &mut sp, sts.iter(), Some(&mut rng as &mut dyn RngCore)));
                    let ok = match proof {
                        Ok(Ok(pr)) => {
                            let mut sv = LogSponge::fresh();
                            matches!(guarded(|| Hx::check(&vk, coms.iter(), &pt, [v], &pr, &mut sv, None)), Ok(Ok(true)))
                        }
                        _ => false,
                    };
                    if !ok {
                        ctx.rep.expect_fail(&id, "hyrax/setup-key-does-not-interoperate", "commit/open/check on the keys of setup+trim did not accept an honest opening", rp("interoperation"));
                    }
                }
                (true, _) => ctx.rep.expect_fail(&id, "hyrax/setup-key-refuses-in-domain", "commit on the key of setup refused a polynomial in the key's number of variables", rp("in-domain commit")),
                (false, Ok(Ok(_))) => ctx.rep.expect_fail(&id, "hyrax/other-nv-answered", &format!("a key for {} variables committed to a polynomial in {} variables", n, m), rp("out-of-domain commit")),
                (false, _) => {}
            }
        }
        ctx.rep.count(&format!("hyrax-setup/dim-{}", dim));
        ctx.rep.case(&format!("hyrax setup nv={:?}: {} generators re-derived, distinct, valid; trim; interoperation", nv, dim + 1), Some(format!("hyrax-setup/{:?}", nv)));
    }
    ctx.flush_model("C09-hyrax");
}

// ------------------------------------------------------------------------------------------------
// C19: sizes
// ------------------------------------------------------------------------------------------------

fn c19(ctx: &mut Ctx) {
    let ladder: Vec<usize> = if ctx.thorough { vec![2, 4, 6, 8, 10, 12] } else { vec![2, 4, 6, 8] };
    for (i, nv) in ladder.iter().enumerate() {
        for k in 1..=2usize {
            let id = format!("C19/hyrax-model/{}/{}", nv, k);
            if !ctx.selected(&id) {
                continue;
            }
            let mut rng = rng_for(ctx.seed, "C19/hyrax-model", (i * 4 + k) as u64);
            let kinds = vec![4usize; k];
            let (c, o) = match base(ctx, &mut rng, &id, *nv, &kinds) {
                Some(x) => x,
                None => continue,
            };
            let dim = 1usize << (nv / 2);
            let g1_bytes = G1Affine::generator().compressed_size();
            let fr_bytes = Fr::zero().compressed_size();
            let mut ok = o.proofs.len() == k;
            for (cm, p) in c.coms.iter().zip(&o.proofs) {
                ok &= cm.commitment().row_coms.len() == dim && p.z.len() == dim;
                ok &= cm.commitment().compressed_size() == 8 + dim * g1_bytes;
                ok &= p.compressed_size() == 3 * g1_bytes + 8 + dim * fr_bytes + 3 * fr_bytes;
            }
            if !ok {
                ctx.rep.expect_fail(&id, "hyrax/size", "row_coms.len() / z.len() / serialized size differs from 2^(nv/2) shape",
                    c.replay(&id, ctx.seed, &format!("expected dim={}", dim)));
            }
            // the model's shapes
            ask_commit(ctx, &id, &c);
            ask_open(ctx, &id, &c.trap, &c.labels(), &c.labels(), &vec![*nv; k], &c.mirrors, &o);
            ctx.rep.count(&format!("hyrax-model/nv-{}", nv));
            ctx.rep.case(&format!("hyrax sizes nv={} k={} dim={}", nv, k, dim), Some(format!("hyrax-model/c19/{}/{}", nv, k)));
        }
    }
    let _ = Val::None;
    ctx.flush_model("C19-hyrax");
}
