//! Model-backed runs for the ipa scheme (trapdoor mode, Lean model PCV/Model/IPA.lean):
//! `run(ctx, prop)` is called for every property; the properties this scheme takes part in are
//! C01 C02 C03 C04 C05 C06 C08 C09 C10 C11 C17 C19.  Case ids `<prop>/ipa-model/…`.
#[path = "ipa.rs"]
pub mod ipa;

use crate::common::*;
use crate::wire;
use crate::Ctx;
use ark_bls12_381::{Fr, G1Affine, G1Projective};
use ark_ec::{AffineRepr, CurveGroup};
use ark_ff::{Field, One, UniformRand, Zero};
use ark_poly::{DenseUVPolynomial, Polynomial};
use ark_poly_commit::ipa_pc::CommitterKey;
use ark_poly_commit::{Evaluations, LabeledPolynomial, PCCommitterKey, PolynomialCommitment, QuerySet};
use ark_serialize::{CanonicalSerialize, Compress};
use ipa::*;
use std::ops::Mul;

pub fn run(ctx: &mut Ctx, prop: &str) {
    match prop {
        "C01" => c01(ctx),
        "C02" => c02(ctx),
        "C03" => c03(ctx),
        "C04" => c04(ctx),
        "C05" => c05(ctx),
        "C06" => c06(ctx),
        "C08" => c08(ctx),
        "C09" => c09(ctx),
        "C10" => c10(ctx),
        "C11" => c11(ctx),
        "C17" => c17(ctx),
        "C19" => c19(ctx),
        _ => {}
    }
}

/// Flush the queued model requests under a tag that is unique to this process: several `check`
/// runs may share one work directory, and a request file that is being rewritten by another
/// process while the driver reads it would look like a driver failure.
fn flush(ctx: &mut Ctx, tag: &str) {
    let t = format!("{}-p{}", tag, std::process::id());
    let before = ctx.rep.model_disagreements.len();
    ctx.flush_model(&t);
    if ctx.rep.model_disagreements.len() == before {
        std::fs::remove_file(format!("{}/{}.req", ctx.workdir, t)).ok();
        std::fs::remove_file(format!("{}/{}.resp", ctx.workdir, t)).ok();
    }
}

fn degrees(ctx: &Ctx) -> &'static [usize] {
    if ctx.thorough {
        DEGREES_THOROUGH
    } else {
        DEGREES_QUICK
    }
}

fn new_case(ctx: &mut Ctx, rng: &mut Rng, id: &str, req: usize, npoly: usize, bounds: bool, hiding: bool) -> Option<Case> {
    match guarded(|| gen_case(rng, req, npoly, bounds, hiding)) {
        Ok(Ok(c)) => Some(c),
        Ok(Err(e)) | Err(e) => {
            ctx.rep.expect_fail(id, "ipa/in-domain-setup-refused", &format!("trim/commit refused an in-domain request: {}", e),
                format!("# scheme: ipa\n# case: {}\n# seed: {}\n# {}\n", id, ctx.seed, e));
            None
        }
    }
}

fn scalars_or_fail(ctx: &mut Ctx, id: &str, c: &Case) -> Option<Vec<CommS>> {
    match c.comm_scalars() {
        Some(x) => Some(x),
        None => {
            ctx.rep.expect_fail(id, "ipa/commitment-not-key-defined", "commitment differs from <p,G> + rho*S (or the shifted window)", c.replay(id, ctx.seed, ""));
            None
        }
    }
}

fn open_or_fail(ctx: &mut Ctx, rng: &mut Rng, id: &str, c: &Case, cs: &[CommS], idx: &[usize], z: Fr) -> Option<Opened> {
    match open_at(ctx, rng, id, c, cs, idx, z, &c.ck, c.req) {
        Ok(o) => Some(o),
        Err(e) => {
            let sig = if e == "proof-not-key-defined" { "ipa/proof-not-key-defined" } else { "ipa/honest-open-refused" };
            let what = if e == "proof-not-key-defined" { "open: the proof returned by the library is not the key-defined one (hiding commitment / randomness / rounds / L,R differ from the scalar prover)".to_string() } else { format!("open: {}", e) };
            ctx.rep.expect_fail(id, sig, &what, c.replay(id, ctx.seed, "open(honest)"));
            None
        }
    }
}

fn vks(c: &Case) -> VkS {
    VkS { trap: c.trap.clone(), req: c.req }
}

fn counts(ctx: &mut Ctx, c: &Case) {
    for k in &c.kinds {
        ctx.rep.count(&format!("ipa/poly-{}", k));
    }
    ctx.rep.count(&format!("ipa/s-{}", c.s));
    ctx.rep.count(&format!("ipa/bounded-{}", c.polys.iter().filter(|p| p.degree_bound().is_some()).count()));
    ctx.rep.count(&format!("ipa/hiding-{}", c.polys.iter().filter(|p| p.hiding_bound().is_some()).count()));
}

// ------------------------------------------------------------------------------------------------
// C01
// ------------------------------------------------------------------------------------------------

fn c01(ctx: &mut Ctx) {
    let variants = ctx.n(4, 16);
    let mut k = 0u64;
    for &req in degrees(ctx) {
        for v in 0..variants {
            k += 1;
            let id = format!("C01/ipa-model/{}/{}", req, v);
            if !ctx.selected(&id) {
                continue;
            }
            let mut rng = rng_for(ctx.seed, "C01/ipa-model", k);
            let npoly = 1 + v % 3;
            let (bounds, hiding) = (v & 1 == 1, (v >> 1) & 1 == 1);
            let c = match new_case(ctx, &mut rng, &id, req, npoly, bounds, hiding) { Some(c) => c, None => continue };
            ask_trim_commit(ctx, &id, &c);
            let cs = match scalars_or_fail(ctx, &id, &c) { Some(x) => x, None => continue };
            let all: Vec<usize> = (0..c.polys.len()).collect();
            let z = Fr::rand(&mut rng);
            if let Some(o) = open_or_fail(ctx, &mut rng, &id, &c, &cs, &all, z) {
                let out = check_scalar(ctx, &id, &vks(&c), &c.vk, &cs, o.z, &o.values, &o.ps);
                if out != Outcome3::Accept {
                    ctx.rep.expect_fail(&id, "ipa/honest-rejected", &format!("honest proof not accepted: {:?}", out), c.replay(&id, ctx.seed, "check(honest)"));
                }
            }
            // batch with 2-3 point labels
            let nl = range(&mut rng, 2, 3);
            let (qs, ev) = gen_queries(&mut rng, &c, nl);
            match batch_open(ctx, &mut rng, &id, &c, &cs, &qs) {
                Ok(b) => {
                    let out = batch_check_scalar(ctx, &mut rng, &id, &vks(&c), &c.vk, &cs, &qs, &ev, &b.ps);
                    if out != Outcome3::Accept {
                        ctx.rep.expect_fail(&id, "ipa/honest-batch-rejected", &format!("honest batch not accepted: {:?}", out), c.replay(&id, ctx.seed, "batch_check(honest)"));
                    }
                }
                Err(e) => ctx.rep.expect_fail(&id, if e == "proof-not-key-defined" { "ipa/proof-not-key-defined" } else { "ipa/honest-open-refused" }, &format!("batch_open: {}", e), c.replay(&id, ctx.seed, "batch_open(honest)")),
            }
            counts(ctx, &c);
            ctx.rep.case(&c.desc(), Some(format!("ipa/{}/{}/{}/{}", c.s, npoly, bounds, hiding)));
        }
        // mixed hiding inside one opening: an earlier polynomial hiding and the last one not, and the
        // reverse (`open` in list order; `batch_open` in label order = list order here)
        let patterns: &[&[bool]] = &[&[true, false], &[false, true], &[true, true, false], &[false, false, true], &[true, false, false], &[false, true, false], &[true, false, true]];
        for (pi, pat) in patterns.iter().enumerate() {
            if !ctx.thorough && (pi + req) % 2 == 1 && pi >= 2 {
                continue;
            }
            let id = format!("C01/ipa-model/mixed-hiding/{}/{}", req, pat.iter().map(|b| if *b { 'H' } else { 'N' }).collect::<String>());
            if !ctx.selected(&id) {
                continue;
            }
            let mut rng = rng_for(ctx.seed, "C01/ipa-model/mixed-hiding", (req * 16 + pi) as u64);
            let c = match guarded(|| gen_case_pattern(&mut rng, req, pat, pi % 2 == 0)) {
                Ok(Ok(c)) => c,
                Ok(Err(e)) | Err(e) => {
                    ctx.rep.expect_fail(&id, "ipa/in-domain-setup-refused", &format!("trim/commit refused an in-domain request: {}", e), format!("# scheme: ipa\n# case: {}\n# seed: {}\n", id, ctx.seed));
                    continue;
                }
            };
            ask_trim_commit(ctx, &id, &c);
            let cs = match scalars_or_fail(ctx, &id, &c) { Some(x) => x, None => continue };
            let all: Vec<usize> = (0..c.polys.len()).collect();
            let z = Fr::rand(&mut rng);
            if let Some(o) = open_or_fail(ctx, &mut rng, &id, &c, &cs, &all, z) {
                if o.proof.hiding_comm.is_none() || o.proof.rand.is_none() {
                    ctx.rep.expect_fail(&id, "ipa/hiding-dropped", "a hiding polynomial was opened without hiding commitment / combined randomness", c.replay(&id, ctx.seed, "mixed hiding"));
                }
                let out = check_scalar(ctx, &id, &vks(&c), &c.vk, &cs, o.z, &o.values, &o.ps);
                if out != Outcome3::Accept {
                    ctx.rep.expect_fail(&id, "ipa/honest-rejected", &format!("honest proof with mixed hiding not accepted: {:?}", out), c.replay(&id, ctx.seed, "check(honest, mixed hiding)"));
                }
            }
            // the same through batch_open / batch_check: all polynomials at one point label, plus a second label
            let mut qs = QuerySet::new();
            let mut ev = Evaluations::new();
            let (za, zb) = (Fr::rand(&mut rng), Fr::rand(&mut rng));
            for p in &c.polys {
                qs.insert((p.label().clone(), ("a".to_string(), za)));
                ev.insert((p.label().clone(), za), p.evaluate(&za));
            }
            let last = c.polys.last().unwrap();
            qs.insert((last.label().clone(), ("b".to_string(), zb)));
            ev.insert((last.label().clone(), zb), last.evaluate(&zb));
            match batch_open(ctx, &mut rng, &id, &c, &cs, &qs) {
                Ok(b) => {
                    let out = batch_check_scalar(ctx, &mut rng, &id, &vks(&c), &c.vk, &cs, &qs, &ev, &b.ps);
                    if out != Outcome3::Accept {
                        ctx.rep.expect_fail(&id, "ipa/honest-batch-rejected", &format!("honest batch with mixed hiding not accepted: {:?}", out), c.replay(&id, ctx.seed, "batch_check(honest, mixed hiding)"));
                    }
                }
                Err(e) => ctx.rep.expect_fail(&id, if e == "proof-not-key-defined" { "ipa/proof-not-key-defined" } else { "ipa/honest-open-refused" }, &format!("batch_open: {}", e), c.replay(&id, ctx.seed, "batch_open(honest, mixed hiding)")),
            }
            ctx.rep.count("ipa/mixed-hiding");
            ctx.rep.case(&c.desc(), Some(format!("ipa/mixed-hiding/{}/{}", c.s, pi)));
        }
        // every degree 0..=s (and the zero polynomial), one polynomial, with and without bound
        let s = (req + 1).next_power_of_two() - 1;
        if req == s {
            for d in 0..=(s + 1) {
                let id = format!("C01/ipa-model/deg/{}/{}", s, d);
                if !ctx.selected(&id) {
                    continue;
                }
                let mut rng = rng_for(ctx.seed, "C01/ipa-model/deg", (s * 64 + d) as u64);
                let trap = Trap::random(&mut rng, s + 1);
                let pp = trap.params();
                let (ck, vk) = match PC::trim(&pp, s, 0, None) { Ok(k) => k, Err(_) => continue };
                let p = if d == s + 1 { UniPoly::from_coefficients_vec(vec![]) } else { UniPoly::rand(d, &mut rng) };
                let deg = p.degree();
                let bound = if coin(&mut rng) { Some(range(&mut rng, deg, s)) } else { None };
                let hid = if d % 3 == 0 { Some(1) } else { None };
                let lp = LabeledPolynomial::new("p".to_string(), p, bound, hid);
                let commit_draws = replay_fr(&rng, 2);
                let (comms, rands) = match PC::commit(&ck, [&lp], Some(&mut rng)) {
                    Ok(x) => x,
                    Err(e) => {
                        ctx.rep.expect_fail(&id, "ipa/in-domain-setup-refused", &format!("commit refused degree {} <= {}: {:?}", deg, s, e), format!("# scheme: ipa\n# case: {}\n# seed: {}\n", id, ctx.seed));
                        continue;
                    }
                };
                let c = Case { trap, req: s, s, ck, vk, polys: vec![lp], kinds: vec!["exact-degree"], comms, rands, commit_draws };
                ask_trim_commit(ctx, &id, &c);
                let cs = match scalars_or_fail(ctx, &id, &c) { Some(x) => x, None => continue };
                let z = Fr::rand(&mut rng);
                if let Some(o) = open_or_fail(ctx, &mut rng, &id, &c, &cs, &[0], z) {
                    let out = check_scalar(ctx, &id, &vks(&c), &c.vk, &cs, o.z, &o.values, &o.ps);
                    if out != Outcome3::Accept {
                        ctx.rep.expect_fail(&id, "ipa/honest-rejected", &format!("honest proof not accepted: {:?}", out), c.replay(&id, ctx.seed, "check(honest)"));
                    }
                }
                ctx.rep.count("ipa/exact-degree");
                ctx.rep.case(&c.desc(), Some(format!("ipa/deg/{}/{}", s, d)));
            }
        }
    }
    flush(ctx, "C01-ipa");
}

// ------------------------------------------------------------------------------------------------
// mutations of a single-point transcript
// ------------------------------------------------------------------------------------------------

#[derive(Clone, Copy, Debug, PartialEq, Eq)]
pub enum M {
    Value,
    Point,
    Comm,
    CommOtherPoly,
    Shifted,
    ShiftedDrop,
    ShiftedAdd,
    ShiftedSwap,
    BoundRelabel,
    BoundRelabelAbove,
    BoundDrop,
    L,
    R,
    Fck,
    C,
    Hc,
    Rand,
    HidingToggle,
    RoundsRemove,
    RoundsAdd,
    LenMismatch,
    VkH,
    VkS,
    VkKey,
}
pub const STATEMENT: &[M] = &[M::Value, M::Point, M::Comm, M::CommOtherPoly];
pub const BOUNDS: &[M] = &[M::Shifted, M::ShiftedDrop, M::ShiftedAdd, M::ShiftedSwap, M::BoundRelabel, M::BoundRelabelAbove, M::BoundDrop];
pub const PROOF: &[M] = &[M::L, M::R, M::Fck, M::C, M::Hc, M::Rand, M::HidingToggle];
pub const SHAPE: &[M] = &[M::RoundsRemove, M::RoundsAdd, M::LenMismatch];
pub const KEY: &[M] = &[M::VkH, M::VkS, M::VkKey];

pub struct Mutated {
    pub vks: VkS,
    pub cs: Vec<CommS>,
    pub z: Fr,
    pub vs: Vec<Fr>,
    pub p: ProofS,
    /// the property requires a refusal of this statement
    pub must: bool,
}

/// Apply one mutation (in scalar space) to an honest single-point transcript.  With
/// `false_value` a value error is planted in addition, so the claim is false whatever else changes.
pub fn mutate(rng: &mut Rng, c: &Case, cs0: &[CommS], o: &Opened, m: M, false_value: bool) -> Option<Mutated> {
    let mut x = Mutated { vks: vks(c), cs: cs0.to_vec(), z: o.z, vs: o.values.clone(), p: o.ps.clone(), must: false };
    let j = range(rng, 0, x.cs.len() - 1);
    let bounded: Vec<usize> = (0..x.cs.len()).filter(|&i| x.cs[i].bound.is_some()).collect();
    match m {
        M::Value => {
            x.vs[j] += rand_nonzero(rng);
            x.must = true;
        }
        M::Point => {
            x.z += rand_nonzero(rng);
            x.must = c.polys.iter().zip(&x.vs).any(|(p, v)| p.evaluate(&x.z) != *v);
        }
        M::Comm => {
            x.cs[j].c += rand_nonzero(rng);
            x.must = true;
        }
        M::CommOtherPoly => {
            let q = UniPoly::rand(range(rng, 0, c.s), rng);
            let newc = dot(&c.trap.key, &q.coeffs);
            x.must = newc != x.cs[j].c;
            x.cs[j].c = newc;
        }
        M::Shifted => {
            let i = *bounded.first()?;
            x.cs[i].s = Some(x.cs[i].s? + rand_nonzero(rng));
            x.must = true;
        }
        M::ShiftedDrop => {
            let i = *bounded.first()?;
            x.cs[i].s = None;
            x.must = true;
        }
        M::ShiftedAdd => {
            let i = (0..x.cs.len()).find(|&i| x.cs[i].bound.is_none())?;
            x.cs[i].s = Some(Fr::rand(rng));
            x.must = true;
        }
        M::ShiftedSwap => {
            if bounded.len() < 2 {
                return None;
            }
            let (a, b) = (bounded[0], bounded[1]);
            let t = x.cs[a].s;
            x.cs[a].s = x.cs[b].s;
            x.cs[b].s = t;
            x.must = x.cs[a].s != x.cs[b].s;
        }
        M::BoundRelabel => {
            let i = *bounded.first()?;
            let d = x.cs[i].bound?;
            let others: Vec<usize> = (0..=c.s).filter(|b| *b != d).collect();
            if others.is_empty() {
                return None;
            }
            let d2 = others[range(rng, 0, others.len() - 1)];
            x.cs[i].bound = Some(d2);
            // accepted iff xi' * v * (z^(s-d') - z^(s-d)) * h' = 0
            x.must = !x.vs[i].is_zero() && x.z.pow([(c.s - d2) as u64]) != x.z.pow([(c.s - d) as u64]);
        }
        M::BoundRelabelAbove => {
            // a label above the supported degree: never admissible, must be refused
            let i = *bounded.first()?;
            x.cs[i].bound = Some(c.s + range(rng, 1, 3));
            x.must = true;
        }
        M::BoundDrop => {
            let i = *bounded.first()?;
            x.cs[i].bound = None;
            x.must = true;
        }
        M::L => {
            if x.p.ls.is_empty() {
                return None;
            }
            let i = range(rng, 0, x.p.ls.len() - 1);
            x.p.ls[i] = Fr::rand(rng);
        }
        M::R => {
            if x.p.rs.is_empty() {
                return None;
            }
            let i = range(rng, 0, x.p.rs.len() - 1);
            x.p.rs[i] = Fr::rand(rng);
        }
        M::Fck => x.p.fck = Fr::rand(rng),
        M::C => x.p.c = Fr::rand(rng),
        M::Hc => {
            x.p.hc?;
            x.p.hc = Some(Fr::rand(rng));
        }
        M::Rand => {
            x.p.rand?;
            x.p.rand = Some(Fr::rand(rng));
        }
        M::HidingToggle => match range(rng, 0, 2) {
            0 => {
                // hiding_comm without rand or the reverse: the assert fires
                if x.p.hc.is_some() {
                    x.p.hc = None
                } else {
                    x.p.hc = Some(Fr::rand(rng))
                }
            }
            1 => {
                if x.p.rand.is_some() {
                    x.p.rand = None
                } else {
                    x.p.rand = Some(Fr::rand(rng))
                }
            }
            _ => {
                if x.p.hc.is_some() {
                    x.p.hc = None;
                    x.p.rand = None;
                } else {
                    x.p.hc = Some(Fr::rand(rng));
                    x.p.rand = Some(Fr::rand(rng));
                }
            }
        },
        M::RoundsRemove => {
            if x.p.ls.is_empty() {
                return None;
            }
            let i = range(rng, 0, x.p.ls.len() - 1);
            x.p.ls.remove(i);
            x.p.rs.remove(i);
        }
        M::RoundsAdd => {
            let i = range(rng, 0, x.p.ls.len());
            x.p.ls.insert(i, Fr::rand(rng));
            x.p.rs.insert(i, Fr::rand(rng));
        }
        M::LenMismatch => {
            if coin(rng) && !x.p.ls.is_empty() {
                x.p.ls.pop();
            } else {
                x.p.rs.push(Fr::rand(rng));
            }
        }
        M::VkH => x.vks.trap.h = rand_nonzero(rng),
        M::VkS => x.vks.trap.s = rand_nonzero(rng),
        M::VkKey => {
            let i = range(rng, 0, c.s);
            x.vks.trap.key[i] = rand_nonzero(rng);
        }
    }
    if false_value && m != M::Value {
        x.vs[j] += rand_nonzero(rng);
        // a false value stays false under every proof / shape / key mutation; statement mutations
        // that replace the commitment or the point change what is claimed, keep their own verdict
        if PROOF.contains(&m) || SHAPE.contains(&m) {
            x.must = true;
        }
    }
    Some(x)
}

/// honest single-point transcripts × mutations, `check` (and, with `also_batch`, the one-label
/// `batch_check`) against the model
fn mutation_run(ctx: &mut Ctx, prop: &str, tag: &str, muts: &[M], per_degree: usize, false_value: bool, also_batch: bool) {
    let mut k = 0u64;
    for &req in degrees(ctx) {
        for v in 0..per_degree {
            k += 1;
            let id0 = format!("{}/ipa-model/{}/{}/{}", prop, tag, req, v);
            if !ctx.selected(&id0) {
                continue;
            }
            let mut rng = rng_for(ctx.seed, &format!("{}/ipa-model/{}", prop, tag), k);
            let npoly = 1 + (v + req) % 3;
            let c = match new_case(ctx, &mut rng, &id0, req, npoly, true, true) { Some(c) => c, None => continue };
            let cs = match scalars_or_fail(ctx, &id0, &c) { Some(x) => x, None => continue };
            let all: Vec<usize> = (0..c.polys.len()).collect();
            let z = Fr::rand(&mut rng);
            let o = match open_or_fail(ctx, &mut rng, &id0, &c, &cs, &all, z) { Some(o) => o, None => continue };
            // the unmutated transcript must be accepted (and the model must agree)
            let honest = check_scalar(ctx, &format!("{}/honest", id0), &vks(&c), &c.vk, &cs, o.z, &o.values, &o.ps);
            if honest != Outcome3::Accept {
                ctx.rep.expect_fail(&id0, "ipa/honest-rejected", &format!("honest proof not accepted: {:?}", honest), c.replay(&id0, ctx.seed, "check(honest)"));
            }
            for m in muts {
                let id = format!("{}/{:?}", id0, m);
                let fv = false_value && coin(&mut rng);
                let x = match mutate(&mut rng, &c, &cs, &o, *m, fv) { Some(x) => x, None => continue };
                let vk = if KEY.contains(m) {
                    match vk_of(&x.vks.trap, x.vks.req) { Some(k) => k, None => continue }
                } else {
                    c.vk.clone()
                };
                let out = check_scalar(ctx, &id, &x.vks, &vk, &x.cs, x.z, &x.vs, &x.p);
                ctx.rep.count(&format!("ipa/mut-{:?}", m));
                if x.must && out == Outcome3::Accept {
                    ctx.rep.expect_fail(&id, &format!("ipa/false-claim-accepted/{:?}", m), "check accepted a changed statement / a false claim", c.replay(&id, ctx.seed, &format!("mutation {:?} false_value={}", m, fv)));
                }
                if also_batch {
                    // the same statement as a one-label batch
                    let mut qs = QuerySet::new();
                    let mut ev = Evaluations::new();
                    for (cm, v) in x.cs.iter().zip(&x.vs) {
                        qs.insert((cm.label.clone(), ("pt".to_string(), x.z)));
                        ev.insert((cm.label.clone(), x.z), *v);
                    }
                    let idb = format!("{}/batch", id);
                    let outb = batch_check_scalar(ctx, &mut rng, &idb, &x.vks, &vk, &x.cs, &qs, &ev, &[x.p.clone()]);
                    if x.must && outb == Outcome3::Accept {
                        ctx.rep.expect_fail(&idb, &format!("ipa/false-claim-accepted/batch/{:?}", m), "batch_check accepted a changed statement / a false claim", c.replay(&idb, ctx.seed, &format!("mutation {:?} false_value={}", m, fv)));
                    }
                    if (out == Outcome3::Accept) != (outb == Outcome3::Accept) {
                        ctx.rep.expect_fail(&idb, &format!("ipa/batch-differs-from-check/{:?}", m), &format!("check: {:?}, one-label batch_check: {:?}", out, outb), c.replay(&idb, ctx.seed, &format!("mutation {:?} false_value={}", m, fv)));
                    }
                }
                ctx.rep.case(&format!("{} mutation={:?} fv={} out={:?}", c.desc(), m, fv, out), Some(format!("ipa/{:?}/{}/{}/{}", m, c.s, npoly, fv)));
            }
            counts(ctx, &c);
        }
    }
    flush(ctx, &format!("{}-ipa-{}", prop, tag));
}

fn c02(ctx: &mut Ctx) {
    let n = ctx.n(3, 12);
    mutation_run(ctx, "C02", "stmt", &[M::Value, M::Value, M::Point, M::Comm, M::CommOtherPoly, M::Shifted], n, false, false);
    batch_runs(ctx, "C02", ctx.n(2, 8), false);
}

fn c03(ctx: &mut Ctx) {
    let n = ctx.n(2, 10);
    let muts: Vec<M> = PROOF.iter().chain(SHAPE).chain(&[M::L, M::R]).cloned().collect();
    mutation_run(ctx, "C03", "proof", &muts, n, true, true);
    d7(ctx, "C03", true);
    forged(ctx, "C03", ctx.n(1, 6));
    batch_runs(ctx, "C03", ctx.n(1, 6), true);
}

fn c10(ctx: &mut Ctx) {
    let n = ctx.n(1, 8);
    let all: Vec<M> = STATEMENT.iter().chain(BOUNDS).chain(PROOF).chain(SHAPE).chain(KEY).cloned().collect();
    mutation_run(ctx, "C10", "fault", &all, n, false, true);
}

// ------------------------------------------------------------------------------------------------
// D7: proof made with the key trimmed to a smaller size
// ------------------------------------------------------------------------------------------------

fn d7(ctx: &mut Ctx, prop: &str, singles: bool) {
    let pairs: &[(usize, usize)] = if ctx.thorough { &[(1, 3), (3, 15), (1, 15), (3, 7), (7, 31), (7, 15), (0, 1), (0, 7)] } else { &[(1, 3), (3, 15), (3, 7), (0, 1), (1, 7)] };
    for (i, &(small, big)) in pairs.iter().enumerate() {
        for hid in [false, true] {
            let id = format!("{}/ipa-model/d7/{}-{}-{}", prop, small, big, hid as u8);
            if !singles || !ctx.selected(&id) {
                continue;
            }
            let mut rng = rng_for(ctx.seed, &format!("{}/ipa-model/d7", prop), (i * 2 + hid as usize) as u64);
            let trap = Trap::random(&mut rng, big + 1);
            let pp = trap.params();
            let (ck_big, vk_big) = PC::trim(&pp, big, 0, None).unwrap();
            let (ck_small, vk_small) = PC::trim(&pp, small, 0, None).unwrap();
            // unbounded polynomials of degree <= small: the same commitment under both keys
            let npoly = range(&mut rng, 1, 2);
            let polys: Vec<LP> = (0..npoly)
                .map(|j| LabeledPolynomial::new(format!("p{}", j), UniPoly::rand(range(&mut rng, 0, small), &mut rng), None, if hid { Some(1) } else { None }))
                .collect();
            let commit_draws = replay_fr(&rng, 2 * npoly);
            let (comms, rands) = PC::commit(&ck_big, &polys, Some(&mut rng)).unwrap();
            let c = Case { trap: trap.clone(), req: big, s: big, ck: ck_big, vk: vk_big, polys, kinds: vec!["dense"; npoly], comms, rands, commit_draws };
            let cs = match scalars_or_fail(ctx, &id, &c) { Some(x) => x, None => continue };
            let all: Vec<usize> = (0..npoly).collect();
            let z = Fr::rand(&mut rng);
            // the proof: honest prover with the *small* key (model: `ipa.open supported=small`)
            let o = match open_at(ctx, &mut rng, &id, &c, &cs, &all, z, &ck_small, small) {
                Ok(o) => o,
                Err(e) => {
                    ctx.rep.expect_fail(&id, "ipa/honest-open-refused", &format!("open with the small key: {}", e), c.replay(&id, ctx.seed, "d7"));
                    continue;
                }
            };
            // sanity: it verifies under the small key
            let ok_small = check_scalar(ctx, &format!("{}/small", id), &VkS { trap: trap.clone(), req: small }, &vk_small, &cs, z, &o.values, &o.ps);
            if ok_small != Outcome3::Accept {
                ctx.rep.expect_fail(&id, "ipa/honest-rejected", "proof made with the small key is not accepted by the small key", c.replay(&id, ctx.seed, "d7"));
            }
            // presented to the big key: both verifiers must refuse
            let out = check_scalar(ctx, &format!("{}/check", id), &vks(&c), &c.vk, &cs, z, &o.values, &o.ps);
            let mut qs = QuerySet::new();
            let mut ev = Evaluations::new();
            for (cm, v) in cs.iter().zip(&o.values) {
                qs.insert((cm.label.clone(), ("pt".to_string(), z)));
                ev.insert((cm.label.clone(), z), *v);
            }
            let outb = batch_check_scalar(ctx, &mut rng, &format!("{}/batch", id), &vks(&c), &c.vk, &cs, &qs, &ev, &[o.ps.clone()]);
            if out == Outcome3::Accept {
                ctx.rep.expect_fail(&id, "ipa/short-proof-accepted/check", "check accepted a proof with too few rounds", c.replay(&id, ctx.seed, "d7: proof made with the key trimmed to a smaller size"));
            }
            if outb == Outcome3::Accept {
                ctx.rep.expect_fail(&id, "ipa/short-proof-accepted/batch_check", "batch_check accepted a proof with too few rounds (check refuses it)", c.replay(&id, ctx.seed, "d7: proof made with the key trimmed to a smaller size"));
            }
            // the same with a false value
            let mut vs2 = o.values.clone();
            vs2[0] += rand_nonzero(&mut rng);
            let out2 = check_scalar(ctx, &format!("{}/check-false", id), &vks(&c), &c.vk, &cs, z, &vs2, &o.ps);
            let mut ev2 = ev.clone();
            *ev2.get_mut(&(cs[0].label.clone(), z)).unwrap() = vs2[0];
            let outb2 = batch_check_scalar(ctx, &mut rng, &format!("{}/batch-false", id), &vks(&c), &c.vk, &cs, &qs, &ev2, &[o.ps.clone()]);
            if out2 == Outcome3::Accept || outb2 == Outcome3::Accept {
                ctx.rep.expect_fail(&id, "ipa/false-claim-accepted/short-proof", &format!("false value with a short proof: check {:?}, batch_check {:?}", out2, outb2), c.replay(&id, ctx.seed, "d7 + false value"));
            }
            ctx.rep.count("ipa/d7");
            ctx.rep.case(&format!("{} d7 small={} big={} check={:?} batch={:?}", c.desc(), small, big, out, outb), Some(format!("ipa/d7/{}/{}/{}", small, big, hid)));
        }
    }
    // the cross-trim proof as ONE of the two point labels of a batch (the other label has a normal
    // proof), on one continuous sponge stream: `batch_check` must refuse exactly like `check`
    for (i, &(small, big)) in pairs.iter().enumerate() {
        for pos in 0..2usize {
            let hid = (i + pos) % 2 == 1;
            let id = format!("{}/ipa-model/d7-batch/{}-{}-{}-{}", prop, small, big, pos, hid as u8);
            if !ctx.selected(&id) {
                continue;
            }
            let mut rng = rng_for(ctx.seed, &format!("{}/ipa-model/d7-batch", prop), (i * 4 + pos * 2 + hid as usize) as u64);
            let trap = Trap::random(&mut rng, big + 1);
            let pp = trap.params();
            let (ck_big, vk_big) = PC::trim(&pp, big, 0, None).unwrap();
            let (ck_small, _) = PC::trim(&pp, small, 0, None).unwrap();
            let npoly = range(&mut rng, 1, 2);
            let polys: Vec<LP> = (0..npoly)
                .map(|j| LabeledPolynomial::new(format!("p{}", j), UniPoly::rand(range(&mut rng, 0, small), &mut rng), None, if hid && j == 0 { Some(1) } else { None }))
                .collect();
            let commit_draws = replay_fr(&rng, 2 * npoly);
            let (comms, rands) = PC::commit(&ck_big, &polys, Some(&mut rng)).unwrap();
            let c = Case { trap: trap.clone(), req: big, s: big, ck: ck_big, vk: vk_big, polys, kinds: vec!["dense"; npoly], comms, rands, commit_draws };
            let cs = match scalars_or_fail(ctx, &id, &c) { Some(x) => x, None => continue };
            let mut qs = QuerySet::new();
            let mut ev = Evaluations::new();
            for (l, pt) in [("pt0", Fr::rand(&mut rng)), ("pt1", Fr::rand(&mut rng))] {
                for (j, p) in c.polys.iter().enumerate() {
                    if j == 0 || coin(&mut rng) {
                        qs.insert((p.label().clone(), (l.to_string(), pt)));
                        ev.insert((p.label().clone(), pt), p.evaluate(&pt));
                    }
                }
            }
            let ps = match batch_open_cross_trim(&mut rng, &c, &cs, &qs, &ck_small, pos) {
                Ok(ps) => ps,
                Err(e) => {
                    ctx.rep.expect_fail(&id, "ipa/honest-open-refused", &format!("cross-trim batch opening: {}", e), c.replay(&id, ctx.seed, "d7-batch"));
                    continue;
                }
            };
            let ind = individual_checks(&c.vk, &cs, &qs, &ev, &ps);
            let out = batch_check_scalar(ctx, &mut rng, &id, &vks(&c), &c.vk, &cs, &qs, &ev, &ps);
            if out == Outcome3::Accept {
                ctx.rep.expect_fail(&id, "ipa/short-proof-accepted/batch_check", "batch_check accepted a batch containing a proof with too few rounds", c.replay(&id, ctx.seed, &format!("d7-batch: point label {} opened with the key trimmed to {}", pos, small)));
            }
            if out != ind {
                ctx.rep.expect_fail(&id, "ipa/batch-differs-from-individual/cross-trim", &format!("batch_check: {:?}, individual checks: {:?}", out, ind), c.replay(&id, ctx.seed, "d7-batch"));
            }
            ctx.rep.count("ipa/d7-batch");
            ctx.rep.case(&format!("{} d7-batch small={} big={} pos={} batch={:?} individual={:?}", c.desc(), small, big, pos, out, ind), Some(format!("ipa/d7-batch/{}/{}/{}/{}", small, big, pos, hid)));
        }
    }
    flush(ctx, &format!("{}-ipa-d7", prop));
}

/// forged proofs for a false value: the honest prover run on another polynomial against
/// commitment(p); the proof for another point
fn forged(ctx: &mut Ctx, prop: &str, per_degree: usize) {
    let mut k = 0u64;
    for &req in degrees(ctx) {
        for v in 0..per_degree {
            k += 1;
            let id = format!("{}/ipa-model/forge/{}/{}", prop, req, v);
            if !ctx.selected(&id) {
                continue;
            }
            let mut rng = rng_for(ctx.seed, &format!("{}/ipa-model/forge", prop), k);
            let c = match new_case(ctx, &mut rng, &id, req, 1, true, true) { Some(c) => c, None => continue };
            let cs = match scalars_or_fail(ctx, &id, &c) { Some(x) => x, None => continue };
            let p0 = c.polys[0].clone();
            let z = Fr::rand(&mut rng);
            // prover run on q (same label / bound / state) against commitment(p)
            let dq = match p0.degree_bound() { Some(b) => range(&mut rng, 0, b), None => range(&mut rng, 0, c.s) };
            let q = UniPoly::rand(dq, &mut rng);
            let lq = LabeledPolynomial::new(p0.label().clone(), q.clone(), p0.degree_bound(), p0.hiding_bound());
            let c2 = Case { trap: c.trap.clone(), req: c.req, s: c.s, ck: c.ck.clone(), vk: c.vk.clone(), polys: vec![lq], kinds: vec!["dense"], comms: c.comms.clone(), rands: c.rands.clone(), commit_draws: vec![] };
            if let Ok(o) = open_at(ctx, &mut rng, &format!("{}/otherpoly", id), &c2, &cs, &[0], z, &c.ck, c.req) {
                let v = q.evaluate(&z);
                if v != p0.evaluate(&z) {
                    let out = check_scalar(ctx, &format!("{}/otherpoly", id), &vks(&c), &c.vk, &cs, z, &[v], &o.ps);
                    if out == Outcome3::Accept {
                        ctx.rep.expect_fail(&id, "ipa/forged-proof-accepted/other-polynomial", "proof made from another polynomial accepted for a false value", c.replay(&id, ctx.seed, "prover run on q against commitment(p)"));
                    }
                    ctx.rep.count("ipa/forge-other-polynomial");
                    ctx.rep.case(&format!("{} forge=other-polynomial out={:?}", c.desc(), out), Some(format!("ipa/forge/otherpoly/{}/{}", c.s, dq)));
                }
            }
            // proof for (p, z') presented at z with the value p(z')
            let z2 = Fr::rand(&mut rng);
            if let Some(o) = open_or_fail(ctx, &mut rng, &format!("{}/otherpoint", id), &c, &cs, &[0], z2) {
                let v = p0.evaluate(&z2);
                if v != p0.evaluate(&z) {
                    let out = check_scalar(ctx, &format!("{}/otherpoint", id), &vks(&c), &c.vk, &cs, z, &[v], &o.ps);
                    if out == Outcome3::Accept {
                        ctx.rep.expect_fail(&id, "ipa/forged-proof-accepted/other-point", "proof for another point accepted", c.replay(&id, ctx.seed, "replayed proof"));
                    }
                    ctx.rep.count("ipa/forge-other-point");
                    ctx.rep.case(&format!("{} forge=other-point out={:?}", c.desc(), out), Some(format!("ipa/forge/otherpoint/{}", c.s)));
                }
            }
        }
    }
    flush(ctx, &format!("{}-ipa-forge", prop));
}

// ------------------------------------------------------------------------------------------------
// batches (C02 / C03 / C05)
// ------------------------------------------------------------------------------------------------

fn batch_verdict(ctx: &mut Ctx, rng: &mut Rng, id: &str, c: &Case, cs: &[CommS], qs: &QuerySet<Fr>, ev: &Evaluations<Fr, Fr>, ps: &[ProofS], must_refuse: bool, what: &str) -> Outcome3 {
    let comms = comms_from(cs);
    let proofs: Vec<_> = ps.iter().map(|p| p.to_proof()).collect();
    let ind = individual_checks_conv(&c.vk, &comms, qs, ev, &proofs);
    let out = batch_check_conv(ctx, rng, id, &vks(c), &c.vk, cs, &comms, qs, ev, ps, &proofs);
    if (out == Outcome3::Accept) != (ind == Outcome3::Accept) {
        ctx.rep.expect_fail(id, &format!("ipa/batch-differs-from-individual/{}", what), &format!("batch_check: {:?}, conjunction of the individual checks: {:?}", out, ind), c.replay(id, ctx.seed, what));
    }
    if must_refuse && out == Outcome3::Accept {
        ctx.rep.expect_fail(id, &format!("ipa/false-claim-accepted/batch-{}", what), "batch with a false claim accepted", c.replay(id, ctx.seed, what));
    }
    if !must_refuse && what == "honest" && out != Outcome3::Accept {
        ctx.rep.expect_fail(id, "ipa/honest-batch-rejected", &format!("honest batch not accepted: {:?}", out), c.replay(id, ctx.seed, what));
    }
    out
}

/// batches with 2–3 point labels × 1–3 polynomials per label: every subset of false claims (small
/// batches) or random subsets, cancelling errors, proof components replaced inside the batch,
/// proof-list shapes with a false claim planted, several verifier RNG states
fn batch_runs(ctx: &mut Ctx, prop: &str, per_degree: usize, shapes: bool) {
    let mut k = 0u64;
    for &req in degrees(ctx) {
        // the large key sizes dominate the cost: half as many batches there in the quick tier
        let per = if !ctx.thorough && req >= 15 { (per_degree / 2).max(1) } else { per_degree };
        for v in 0..per {
            k += 1;
            let id0 = format!("{}/ipa-model/batch/{}/{}", prop, req, v);
            if !ctx.selected(&id0) {
                continue;
            }
            let mut rng = rng_for(ctx.seed, &format!("{}/ipa-model/batch", prop), k);
            let npoly = range(&mut rng, 2, 3);
            let c = match new_case(ctx, &mut rng, &id0, req, npoly, true, true) { Some(c) => c, None => continue };
            let cs = match scalars_or_fail(ctx, &id0, &c) { Some(x) => x, None => continue };
            let nl = range(&mut rng, 2, 3);
            let (qs, ev) = gen_queries(&mut rng, &c, nl);
            let b = match batch_open(ctx, &mut rng, &id0, &c, &cs, &qs) {
                Ok(b) => b,
                Err(e) => {
                    ctx.rep.expect_fail(&id0, if e == "proof-not-key-defined" { "ipa/proof-not-key-defined" } else { "ipa/honest-open-refused" }, &format!("batch_open: {}", e), c.replay(&id0, ctx.seed, "batch_open"));
                    continue;
                }
            };
            let keys: Vec<(String, Fr)> = ev.keys().cloned().collect();
            // honest, under two verifier RNG states
            for r in 0..2 {
                let mut vr = rng_for(ctx.seed ^ 0x55, &id0, r);
                batch_verdict(ctx, &mut vr, &format!("{}/honest{}", id0, r), &c, &cs, &qs, &ev, &b.ps, false, "honest");
            }
            ctx.rep.case(&format!("{} batch honest labels={} claims={}", c.desc(), nl, keys.len()), Some(format!("ipa-batch/{}/{}/{}/honest", c.s, npoly, nl)));
            // subsets of false claims
            let subsets: Vec<u32> = if keys.len() <= 3 { (1..(1u32 << keys.len())).collect() } else { (0..5).map(|_| 1 + (rng.next_u32_() % ((1u32 << keys.len()) - 1))).collect() };
            for sub in subsets {
                let id = format!("{}/false-{:b}", id0, sub);
                let mut ev2 = ev.clone();
                for (i, key) in keys.iter().enumerate() {
                    if sub >> i & 1 == 1 {
                        *ev2.get_mut(key).unwrap() += rand_nonzero(&mut rng);
                    }
                }
                let out = batch_verdict(ctx, &mut rng, &id, &c, &cs, &qs, &ev2, &b.ps, true, "value");
                ctx.rep.count("ipa/batch-value-subset");
                ctx.rep.case(&format!("{} batch false={:b} out={:?}", c.desc(), sub, out), Some(format!("ipa-batch/{}/{}/{}/false{}", c.s, npoly, nl, sub.count_ones())));
            }
            // cancelling errors: within one point when two polynomials share it, else across points
            if keys.len() >= 2 {
                let mut pair = None;
                for a in 0..keys.len() {
                    for bb in a + 1..keys.len() {
                        if keys[a].1 == keys[bb].1 && pair.is_none() {
                            pair = Some((a, bb));
                        }
                    }
                }
                let (a, bb) = pair.unwrap_or((0, 1));
                let id = format!("{}/cancel@{},{}", id0, a, bb);
                let d = rand_nonzero(&mut rng);
                let mut ev2 = ev.clone();
                *ev2.get_mut(&keys[a]).unwrap() += d;
                *ev2.get_mut(&keys[bb]).unwrap() -= d;
                let out = batch_verdict(ctx, &mut rng, &id, &c, &cs, &qs, &ev2, &b.ps, true, "cancelling");
                ctx.rep.count(if pair.is_some() { "ipa/batch-cancel-same-point" } else { "ipa/batch-cancel-across-points" });
                ctx.rep.case(&format!("{} batch cancel out={:?}", c.desc(), out), Some(format!("ipa-batch/{}/{}/cancel{}", c.s, npoly, pair.is_some())));
            }
            // plain (+d, -d) cancelling pairs on every ordered pair of claims (small batches) or on every
            // ordered pair of query points (first claim of each point label)
            {
                let groups = crate::generic::group(&qs);
                let mut pairs: Vec<(usize, usize)> = vec![];
                if keys.len() <= 4 {
                    for a in 0..keys.len() {
                        for bb in 0..keys.len() {
                            if a != bb {
                                pairs.push((a, bb));
                            }
                        }
                    }
                } else {
                    let firsts: Vec<usize> = groups.iter().filter_map(|(_, pt, labels)| keys.iter().position(|k| k.1 == *pt && labels.contains(&k.0))).collect();
                    for &a in &firsts {
                        for &bb in &firsts {
                            if a != bb {
                                pairs.push((a, bb));
                            }
                        }
                    }
                }
                // quick tier: all ordered pairs on the first batch of every key size, a sample on the others
                let pairs: Vec<(usize, usize)> = if ctx.thorough || v == 0 { pairs } else { pairs.into_iter().step_by(5).collect() };
                for (a, bb) in pairs {
                    let id = format!("{}/pair@{},{}", id0, a, bb);
                    let d = rand_nonzero(&mut rng);
                    let mut ev2 = ev.clone();
                    *ev2.get_mut(&keys[a]).unwrap() += d;
                    *ev2.get_mut(&keys[bb]).unwrap() -= d;
                    let out = batch_verdict(ctx, &mut rng, &id, &c, &cs, &qs, &ev2, &b.ps, true, "cancelling-pair");
                    ctx.rep.count("ipa/batch-cancel-pair");
                    ctx.rep.case(&format!("{} batch pair=({},{}) out={:?}", c.desc(), a, bb, out), Some(format!("ipa-batch/{}/{}/pair/{}", c.s, npoly, (keys[a].1 == keys[bb].1))));
                }
                // errors that cancel across two query points *under the verifier's own challenge
                // weights*: the combined values of two point labels move by +D and -D
                let mut k0 = 0usize;
                let mut per_group: Vec<Option<((String, Fr), Fr)>> = vec![];
                for (_, pt, labels) in &groups {
                    let mut pick = None;
                    for (j, l) in labels.iter().enumerate() {
                        let p = c.polys.iter().find(|p| p.label() == l).unwrap();
                        if let Some(x) = b.xis.get(k0 + 2 * j) {
                            if p.degree_bound().is_none() && pick.is_none() && !x.is_zero() {
                                pick = Some(((l.clone(), *pt), *x));
                            }
                        }
                    }
                    per_group.push(pick);
                    k0 += 1 + 2 * labels.len();
                }
                let avail: Vec<usize> = (0..per_group.len()).filter(|&g| per_group[g].is_some()).collect();
                for w in avail.windows(2) {
                    let (ka, xa) = per_group[w[0]].clone().unwrap();
                    let (kb, xb) = per_group[w[1]].clone().unwrap();
                    if ka == kb {
                        continue;
                    }
                    let id = format!("{}/weighted-cancel@{},{}", id0, w[0], w[1]);
                    let dd = rand_nonzero(&mut rng);
                    let mut ev2 = ev.clone();
                    *ev2.get_mut(&ka).unwrap() += dd * xa.inverse().unwrap();
                    *ev2.get_mut(&kb).unwrap() -= dd * xb.inverse().unwrap();
                    let out = batch_verdict(ctx, &mut rng, &id, &c, &cs, &qs, &ev2, &b.ps, true, "weighted-cancelling");
                    ctx.rep.count("ipa/batch-weighted-cancel");
                    ctx.rep.case(&format!("{} batch weighted-cancel out={:?}", c.desc(), out), Some(format!("ipa-batch/{}/{}/wcancel", c.s, npoly)));
                }
            }
            // one proof component replaced inside the batch (true claims): batch = individual = model
            for comp in ["fck", "c", "l", "r"] {
                let id = format!("{}/comp-{}", id0, comp);
                let mut ps2 = b.ps.clone();
                let i = range(&mut rng, 0, ps2.len() - 1);
                match comp {
                    "fck" => ps2[i].fck = Fr::rand(&mut rng),
                    "c" => ps2[i].c = Fr::rand(&mut rng),
                    "l" => {
                        if ps2[i].ls.is_empty() {
                            continue;
                        }
                        ps2[i].ls[0] = Fr::rand(&mut rng)
                    }
                    _ => {
                        if ps2[i].rs.is_empty() {
                            continue;
                        }
                        let last = ps2[i].rs.len() - 1;
                        ps2[i].rs[last] = Fr::rand(&mut rng)
                    }
                }
                let out = batch_verdict(ctx, &mut rng, &id, &c, &cs, &qs, &ev, &ps2, false, comp);
                ctx.rep.count(&format!("ipa/batch-comp-{}", comp));
                ctx.rep.case(&format!("{} batch comp={} out={:?}", c.desc(), comp, out), Some(format!("ipa-batch/{}/comp-{}/{}", c.s, comp, i)));
            }
            if shapes {
                // proof-list shapes and malformed proofs inside a batch, with a false claim planted
                let mut ev2 = ev.clone();
                *ev2.get_mut(&keys[0]).unwrap() += rand_nonzero(&mut rng);
                let mut list: Vec<(&str, Vec<ProofS>)> = vec![("empty", vec![])];
                list.push(("truncated", b.ps[..b.ps.len() - 1].to_vec()));
                let mut e = b.ps.clone();
                e.push(b.ps[0].clone());
                list.push(("extended", e));
                if b.ps.len() >= 2 {
                    let mut p = b.ps.clone();
                    p.swap(0, 1);
                    list.push(("swapped", p));
                }
                for pos in 0..b.ps.len() {
                    if !b.ps[pos].ls.is_empty() {
                        let mut p = b.ps.clone();
                        p[pos].ls.pop();
                        p[pos].rs.pop();
                        list.push(("short-rounds", p));
                    }
                    let mut p = b.ps.clone();
                    p[pos].ls.push(Fr::rand(&mut rng));
                    p[pos].rs.push(Fr::rand(&mut rng));
                    list.push(("long-rounds", p));
                    let mut p = b.ps.clone();
                    p[pos].rs.push(Fr::rand(&mut rng));
                    list.push(("lr-mismatch", p));
                }
                for (j, (sname, ps2)) in list.into_iter().enumerate() {
                    let id = format!("{}/shape-{}-{}", id0, sname, j);
                    let out = batch_verdict(ctx, &mut rng, &id, &c, &cs, &qs, &ev2, &ps2, true, sname);
                    ctx.rep.count(&format!("ipa/shape-{}", sname));
                    ctx.rep.case(&format!("{} shape={} out={:?}", c.desc(), sname, out), Some(format!("ipa-batch/{}/shape-{}", c.s, sname)));
                }
            }
            counts(ctx, &c);
        }
    }
    flush(ctx, &format!("{}-ipa-batch", prop));
}

trait NextU32 {
    fn next_u32_(&mut self) -> u32;
}
impl NextU32 for Rng {
    fn next_u32_(&mut self) -> u32 {
        use ark_std::rand::RngCore;
        self.next_u32()
    }
}

fn c05(ctx: &mut Ctx) {
    batch_runs(ctx, "C05", ctx.n(2, 8), true);
    d7(ctx, "C05", false);
}

// ------------------------------------------------------------------------------------------------
// C04: admission + mislabelled bounds
// ------------------------------------------------------------------------------------------------

fn c04(ctx: &mut Ctx) {
    let n = ctx.n(3, 12);
    mutation_run(ctx, "C04", "mislabel", &[M::BoundRelabel, M::BoundRelabel, M::BoundRelabelAbove, M::BoundDrop, M::ShiftedDrop, M::ShiftedAdd, M::ShiftedSwap, M::Shifted], n, false, false);
    // honest use is accepted for every bound d in [deg p, s]
    for &req in degrees(ctx) {
        let s = (req + 1).next_power_of_two() - 1;
        if req != s || (s > 15 && !ctx.thorough) {
            continue;
        }
        let id0 = format!("C04/ipa-model/every-bound/{}", s);
        if !ctx.selected(&id0) {
            continue;
        }
        let mut rng = rng_for(ctx.seed, "C04/ipa-model/every-bound", s as u64);
        let trap = Trap::random(&mut rng, s + 1);
        let pp = trap.params();
        let (ck, vk) = match PC::trim(&pp, s, 0, None) { Ok(x) => x, Err(_) => continue };
        let deg = range(&mut rng, 0, s);
        let p = UniPoly::rand(deg, &mut rng);
        for d in deg..=s {
            let id = format!("{}/{}", id0, d);
            let lp = LabeledPolynomial::new("p".to_string(), p.clone(), Some(d), if d % 2 == 0 { Some(1) } else { None });
            let commit_draws = replay_fr(&rng, 2);
            let (comms, rands) = match PC::commit(&ck, [&lp], Some(&mut rng)) {
                Ok(x) => x,
                Err(e) => {
                    ctx.rep.expect_fail(&id, "ipa/admissible-refused", &format!("commit refused bound {} for degree {} (supported {}): {:?}", d, deg, s, e), format!("# scheme: ipa\n# case: {}\n# seed: {}\n", id, ctx.seed));
                    continue;
                }
            };
            let c = Case { trap: trap.clone(), req: s, s, ck: ck.clone(), vk: vk.clone(), polys: vec![lp], kinds: vec!["dense"], comms, rands, commit_draws };
            ask_trim_commit(ctx, &id, &c);
            let cs = match scalars_or_fail(ctx, &id, &c) { Some(x) => x, None => continue };
            let z = Fr::rand(&mut rng);
            if let Some(o) = open_or_fail(ctx, &mut rng, &id, &c, &cs, &[0], z) {
                let out = check_scalar(ctx, &id, &vks(&c), &c.vk, &cs, o.z, &o.values, &o.ps);
                if out != Outcome3::Accept {
                    ctx.rep.expect_fail(&id, "ipa/honest-rejected", &format!("honest bounded proof not accepted: {:?}", out), c.replay(&id, ctx.seed, "check(honest, bounded)"));
                }
            }
            ctx.rep.count("ipa/every-bound");
            ctx.rep.case(&format!("{} bound={}", c.desc(), d), Some(format!("ipa/every-bound/{}/{}", s, d - deg)));
        }
    }
    flush(ctx, "C04-ipa-every-bound");
    // admission around every boundary
    let per = ctx.n(10, 40);
    let mut k = 0u64;
    for &req in degrees(ctx) {
        for v in 0..per {
            k += 1;
            let id = format!("C04/ipa-model/admission/{}/{}", req, v);
            if !ctx.selected(&id) {
                continue;
            }
            let mut rng = rng_for(ctx.seed, "C04/ipa-model/admission", k);
            let sd = (req + 1).next_power_of_two();
            let n = if coin(&mut rng) { sd } else { 2 * sd };
            let trap = Trap::random(&mut rng, n);
            let pp = trap.params();
            let (ck, vk) = match PC::trim(&pp, req, 0, None) { Ok(x) => x, Err(_) => continue };
            let s = ck.supported_degree();
            let degs = [0usize, 1, s.saturating_sub(1), s, s + 1, s + 2, n - 1, n];
            let deg = degs[range(&mut rng, 0, degs.len() - 1)];
            let p = if range(&mut rng, 0, 9) == 0 { UniPoly::from_coefficients_vec(vec![]) } else { UniPoly::rand(deg, &mut rng) };
            let deg = p.degree();
            let cands: Vec<Option<usize>> = vec![None, Some(deg), Some(deg.saturating_sub(1)), Some(deg + 1), Some(0), Some(s), Some(s + 1), Some(s.saturating_sub(1)), Some(n)];
            let bound = cands[range(&mut rng, 0, cands.len() - 1)];
            let lp = LabeledPolynomial::new("p".to_string(), p.clone(), bound, None);
            let r = guarded(|| PC::commit(&ck, [&lp], None));
            let admissible = deg <= s && match bound { None => true, Some(b) => b >= deg && b <= s };
            let answered = matches!(r, Ok(Ok(_)));
            if answered != admissible {
                ctx.rep.expect_fail(&id, if answered { "ipa/inadmissible-bound-committed" } else { "ipa/admissible-refused" },
                    &format!("commit: admissible={} answered={} (deg {} bound {:?} supported {})", admissible, answered, deg, bound, s),
                    format!("# scheme: ipa\n# case: {}\n# seed: {}\n# deg {} bound {:?} supported {}\n", id, ctx.seed, deg, bound, s));
            }
            let req_m = polys_args(base_of(&trap, "ipa.commit", req), &[lp.clone()]).arg("rng", wire::boolean(false)).arg("draws", wire::fes::<Fr>(&[]));
            let out = match &r {
                Ok(Ok((cm, _))) => ImplOutcome::Ok(vec![
                    ("cs".into(), Expect::G1s(cm.iter().map(|x| x.commitment().comm).collect())),
                    ("ss".into(), Expect::OptG1List(cm.iter().map(|x| x.commitment().shifted_comm).collect())),
                ]),
                Ok(Err(e)) => ImplOutcome::Refuse(err_kind(e)),
                Err(a) => ImplOutcome::Refuse(a.clone()),
            };
            ctx.ses.ask(&id, req_m, out);
            // the prover's admission: commit the polynomial without its bound (when that is admissible),
            // then ask `open` for it under the inadmissible label
            if !admissible && deg <= s {
                let plain = LabeledPolynomial::new("p".to_string(), p.clone(), None, None);
                if let Ok((cm, st)) = PC::commit(&ck, [&plain], None) {
                    let z = Fr::rand(&mut rng);
                    let mut sp = LogSponge::fresh();
                    ro_clear();
                    let ro = guarded(|| PC::open(&ck, [&lp], &cm, &z, &mut sp, &st, None));
                    let (ros, _) = ro_take();
                    let opened = matches!(ro, Ok(Ok(_)));
                    if opened {
                        ctx.rep.expect_fail(&id, "ipa/inadmissible-bound-opened", &format!("open answered for deg {} bound {:?} supported {}", deg, bound, s),
                            format!("# scheme: ipa\n# case: {}\n# seed: {}\n", id, ctx.seed));
                    }
                    let csx = vec![CommS { label: "p".into(), c: dot(&trap.key, &p.coeffs), s: None, bound: None }];
                    let mut xis = sp.challenges();
                    let mut extra = rng_for(3, &id, 5);
                    while xis.len() < 3 {
                        xis.push(Fr::rand(&mut extra));
                    }
                    let mut ros_full = ros.clone();
                    while ros_full.len() < 8 {
                        ros_full.push(rand_nonzero(&mut extra));
                    }
                    let rq = comms_args(rands_args(polys_args(base_of(&trap, "ipa.open", req), &[lp.clone()]), &st), &csx)
                        .arg("z", wire::fe(&z)).arg("xis", wire::fes(&xis)).arg("ros", wire::fes(&ros_full))
                        .arg("rng", wire::boolean(false)).arg("draws", wire::fes::<Fr>(&[]));
                    let outo = match &ro {
                        Ok(Ok(_)) => ImplOutcome::Ok(vec![]),
                        Ok(Err(e)) => ImplOutcome::Refuse(err_kind(e)),
                        Err(a) => ImplOutcome::Refuse(a.clone()),
                    };
                    ctx.ses.ask(&format!("{}/open", id), rq, outo);
                    ctx.rep.count("ipa/open-admission");
                }
            }
            let _ = vk;
            ctx.rep.count(&format!("ipa/admissible-{}", admissible));
            ctx.rep.case(&format!("ipa admission N={} s={} deg={} bound={:?} -> {}", n, s, deg, bound, answered),
                Some(format!("ipa/adm/{}/{}/{:?}/{}", s, deg as i64 - s as i64, bound.map(|b| (b as i64 - deg as i64).signum()), admissible)));
        }
    }
    flush(ctx, "C04-ipa-admission");
}

// ------------------------------------------------------------------------------------------------
// C08
// ------------------------------------------------------------------------------------------------

fn c08(ctx: &mut Ctx) {
    use crate::props_c08::naive_sum;
    let per = ctx.n(4, 20);
    let mut k = 0u64;
    for &req in degrees(ctx) {
        for v in 0..per {
            k += 1;
            let id = format!("C08/ipa-model/{}/{}", req, v);
            if !ctx.selected(&id) {
                continue;
            }
            let mut rng = rng_for(ctx.seed, "C08/ipa-model", k);
            let c = match new_case(ctx, &mut rng, &id, req, 2, true, v % 2 == 1) { Some(c) => c, None => continue };
            ask_trim_commit(ctx, &id, &c);
            let _ = scalars_or_fail(ctx, &id, &c);
            // equals-spec: naive sums over the *published* key points (no MSM code shared)
            for ((p, cm), st) in c.polys.iter().zip(&c.comms).zip(&c.rands) {
                let spec = (naive_sum(&c.ck.comm_key, &p.polynomial().coeffs) + naive_sum(&[c.ck.s], &[st.rand])).into_affine();
                if spec != cm.commitment().comm {
                    ctx.rep.expect_fail(&id, "ipa/commit-not-key-defined", "commitment differs from the naive sum over the key (+ rand*S)", c.replay(&id, ctx.seed, p.label()));
                }
                match (p.degree_bound(), cm.commitment().shifted_comm) {
                    (Some(d), Some(sc)) => {
                        let spec = (naive_sum(&c.ck.comm_key[(c.s - d)..], &p.polynomial().coeffs) + naive_sum(&[c.ck.s], &[st.shifted_rand.unwrap_or(Fr::zero())])).into_affine();
                        if spec != sc {
                            ctx.rep.expect_fail(&id, "ipa/shifted-commit-not-key-defined", "shifted commitment differs from the naive sum over comm_key[s-d..]", c.replay(&id, ctx.seed, p.label()));
                        }
                    }
                    (None, None) => {}
                    _ => ctx.rep.expect_fail(&id, "ipa/shifted-part-mismatch", "bound and shifted commitment do not come together", c.replay(&id, ctx.seed, p.label())),
                }
            }
            // homomorphism on the implementation (non-hiding, unbounded and bounded)
            let (p, q) = (c.polys[0].polynomial().clone(), c.polys[1].polynomial().clone());
            let (a, b) = (Fr::rand(&mut rng), Fr::rand(&mut rng));
            let lin = &(&p * a) + &(&q * b);
            let d = Some(range(&mut rng, lin.degree().max(p.degree()).max(q.degree()), c.s));
            let mk = |poly: &UniPoly| LabeledPolynomial::new("x".to_string(), poly.clone(), d, None);
            let r = guarded(|| {
                let (cp, _) = PC::commit(&c.ck, [&mk(&p)], None).unwrap();
                let (cq, _) = PC::commit(&c.ck, [&mk(&q)], None).unwrap();
                let (cl, _) = PC::commit(&c.ck, [&mk(&lin)], None).unwrap();
                let plain = (cp[0].commitment().comm.mul(a) + cq[0].commitment().comm.mul(b)).into_affine() == cl[0].commitment().comm;
                let sh = (cp[0].commitment().shifted_comm.unwrap().mul(a) + cq[0].commitment().shifted_comm.unwrap().mul(b)).into_affine() == cl[0].commitment().shifted_comm.unwrap();
                (plain, sh)
            });
            if r != Ok((true, true)) {
                ctx.rep.expect_fail(&id, "ipa/not-homomorphic", &format!("commit(a p + b q) != a commit(p) + b commit(q): {:?}", r), c.replay(&id, ctx.seed, "homomorphism"));
            }
            // zero polynomial -> identity
            let zero = LabeledPolynomial::new("z".to_string(), UniPoly::from_coefficients_vec(vec![Fr::zero(); 2]), Some(c.s / 2), None);
            if let Ok((cz, _)) = PC::commit(&c.ck, [&zero], None) {
                if !cz[0].commitment().comm.is_zero() || !cz[0].commitment().shifted_comm.map(|x| x.is_zero()).unwrap_or(false) {
                    ctx.rep.expect_fail(&id, "ipa/zero-not-identity", "zero polynomial does not commit to the identity", c.replay(&id, ctx.seed, "zero"));
                }
            }
            counts(ctx, &c);
            ctx.rep.case(&c.desc(), Some(format!("ipa/c08/{}/{}", c.s, v % 2)));
        }
    }
    flush(ctx, "C08-ipa");
    let _: Option<(G1Affine, G1Projective, CommitterKey<G1Affine>)> = None;
}

// ------------------------------------------------------------------------------------------------
// C19
// ------------------------------------------------------------------------------------------------

fn c19(ctx: &mut Ctx) {
    let mut k = 0u64;
    for &req in degrees(ctx) {
        for (bound, hiding) in [(false, false), (true, false), (false, true), (true, true)] {
            for npoly in 1..=2usize {
                k += 1;
                let id = format!("C19/ipa-model/{}/{}{}/{}", req, bound as u8, hiding as u8, npoly);
                if !ctx.selected(&id) {
                    continue;
                }
                let mut rng = rng_for(ctx.seed, "C19/ipa-model", k);
                let mut c = match new_case(ctx, &mut rng, &id, req, npoly, false, false) { Some(c) => c, None => continue };
                // force the requested bound / hiding setting on every polynomial
                let polys: Vec<LP> = c.polys.iter().map(|p| LabeledPolynomial::new(p.label().clone(), p.polynomial().clone(), if bound { Some(c.s) } else { None }, if hiding { Some(1) } else { None })).collect();
                c.commit_draws = replay_fr(&rng, 2 * npoly);
                let (comms, rands) = match PC::commit(&c.ck, &polys, Some(&mut rng)) { Ok(x) => x, Err(_) => continue };
                c.polys = polys;
                c.comms = comms;
                c.rands = rands;
                let cs = match scalars_or_fail(ctx, &id, &c) { Some(x) => x, None => continue };
                let all: Vec<usize> = (0..npoly).collect();
                let z = Fr::rand(&mut rng);
                let o = match open_or_fail(ctx, &mut rng, &id, &c, &cs, &all, z) { Some(o) => o, None => continue };
                let kk = ark_std::log2(c.s + 1) as usize;
                let law = 2 * (8 + 48 * kk) + 48 + 32 + if hiding { 1 + 48 + 1 + 32 } else { 2 };
                let size = o.proof.serialized_size(Compress::Yes);
                if o.proof.l_vec.len() != kk || o.proof.r_vec.len() != kk || size != law {
                    ctx.rep.expect_fail(&id, "ipa/size-law", &format!("s={}: |l_vec|={} |r_vec|={} (law {}), proof bytes {} (law {})", c.s, o.proof.l_vec.len(), o.proof.r_vec.len(), kk, size, law), c.replay(&id, ctx.seed, "proof shape"));
                }
                let csize = c.comms[0].commitment().serialized_size(Compress::Yes);
                let claw = 48 + 1 + if bound { 48 } else { 0 };
                if csize != claw {
                    ctx.rep.expect_fail(&id, "ipa/size-law", &format!("commitment bytes {} (law {})", csize, claw), c.replay(&id, ctx.seed, "commitment shape"));
                }
                ctx.rep.count(&format!("ipa/rounds-{}", kk));
                ctx.rep.case(&format!("{} rounds={} bytes={}", c.desc(), kk, size), Some(format!("ipa/c19/{}/{}/{}/{}", c.s, bound, hiding, npoly)));
            }
        }
    }
    flush(ctx, "C19-ipa");
}

// ------------------------------------------------------------------------------------------------
// C06: IPA's own `open_combinations` / `check_combinations`
// ------------------------------------------------------------------------------------------------

type Lc = ark_poly_commit::LinearCombination<Fr>;

/// the refusal the combination phase must end in (first offending term in list order), if any:
/// an unknown label, a bounded polynomial mixed with other terms, a single bounded term whose
/// coefficient is not one
fn lc_expected_refusal(polys: &[LP], lcs: &[Lc]) -> Option<&'static str> {
    use ark_poly_commit::LCTerm;
    for lc in lcs {
        for (coeff, t) in lc.iter() {
            if let LCTerm::PolyLabel(l) = t {
                match polys.iter().rposition(|p| p.label() == l) {
                    None => return Some("missingPolynomial"),
                    Some(i) => {
                        if polys[i].degree_bound().is_some() {
                            if lc.len() != 1 {
                                return Some("equationHasDegreeBounds");
                            }
                            if !coeff.is_one() {
                                return Some("abort");
                            }
                        }
                    }
                }
            }
        }
    }
    None
}

fn lc_value(polys: &[LP], lc: &Lc, z: &Fr) -> Fr {
    use ark_poly_commit::LCTerm;
    let mut v = Fr::zero();
    for (co, t) in lc.iter() {
        match t {
            LCTerm::One => v += *co,
            LCTerm::PolyLabel(l) => {
                if let Some(i) = polys.iter().rposition(|p| p.label() == l) {
                    v += *co * polys[i].evaluate(z);
                }
            }
        }
    }
    v
}

fn kind_of<T>(r: &Result<Result<T, ark_poly_commit::Error>, String>) -> String {
    match r {
        Ok(Ok(_)) => "ok".into(),
        Ok(Err(e)) => err_kind(e),
        Err(_) => "abort".into(),
    }
}

fn c06(ctx: &mut Ctx) {
    use ark_poly_commit::{BatchLCProof, LCTerm, LinearCombination};
    let n = ctx.n(48, 480);
    let reqs = [1usize, 2, 3, 4, 7, 8];
    for i in 0..n {
        let id0 = format!("C06/ipa-model/{}", i);
        if !ctx.selected(&id0) {
            continue;
        }
        let mut rng = rng_for(ctx.seed, "C06/ipa-model", i as u64);
        let req = reqs[i % reqs.len()];
        // polynomials: 2-4, about a third bounded, half hiding (mixed), at least one unbounded
        let sd = (req + 1).next_power_of_two();
        let nkey = if coin(&mut rng) { sd } else { 2 * sd };
        let trap = Trap::random(&mut rng, nkey);
        let pp = trap.params();
        let (ck, vk) = match PC::trim(&pp, req, 0, None) { Ok(x) => x, Err(_) => continue };
        let s = ck.supported_degree();
        let npoly = range(&mut rng, 2, 4);
        let mut polys: Vec<LP> = vec![];
        let mut kinds = vec![];
        for j in 0..npoly {
            let (p, kind) = crate::kzg::gen_poly(&mut rng, s);
            let deg = p.degree();
            let bound = if j > 0 && range(&mut rng, 0, 2) == 0 { Some(range(&mut rng, deg, s)) } else { None };
            let hiding = if coin(&mut rng) { Some(range(&mut rng, 0, 2)) } else { None };
            // rarely a repeated polynomial label: the maps keep the last one
            let label = if j + 1 == npoly && j >= 2 && range(&mut rng, 0, 9) == 0 { "p1".to_string() } else { format!("p{}", j) };
            polys.push(LabeledPolynomial::new(label, p, bound, hiding));
            kinds.push(kind);
        }
        let commit_draws = replay_fr(&rng, 2 * npoly);
        let (comms, rands) = match guarded(|| PC::commit(&ck, &polys, Some(&mut rng))) {
            Ok(Ok(x)) => x,
            _ => {
                ctx.rep.expect_fail(&id0, "ipa/in-domain-setup-refused", "commit refused an in-domain request", format!("# scheme: ipa\n# case: {}\n# seed: {}\n", id0, ctx.seed));
                continue;
            }
        };
        let c = Case { trap, req, s, ck, vk, polys, kinds, comms, rands, commit_draws };
        let cs = match scalars_or_fail(ctx, &id0, &c) { Some(x) => x, None => continue };
        let live: Vec<usize> = (0..npoly).filter(|&k| c.polys.iter().rposition(|p| p.label() == c.polys[k].label()) == Some(k)).collect();
        let unbounded: Vec<usize> = live.iter().cloned().filter(|&k| c.polys[k].degree_bound().is_none()).collect();
        let bounded: Vec<usize> = live.iter().cloned().filter(|&k| c.polys[k].degree_bound().is_some()).collect();
        // combinations
        let nlc = range(&mut rng, 1, 3);
        let mut lcs: Vec<Lc> = vec![];
        let mut kind = "in-policy";
        for j in 0..nlc {
            let mut lc = LinearCombination::empty(format!("lc{}", j));
            let roll = range(&mut rng, 0, 11);
            if roll <= 1 && !bounded.is_empty() {
                let b = bounded[range(&mut rng, 0, bounded.len() - 1)];
                let bl = c.polys[b].label().clone();
                match range(&mut rng, 0, 3) {
                    0 => { lc.push((Fr::from(1u64), LCTerm::PolyLabel(bl))); lc.push((Fr::rand(&mut rng), LCTerm::One)); }
                    1 => { lc.push((Fr::from(2u64), LCTerm::PolyLabel(bl))); }
                    2 => { lc.push((Fr::rand(&mut rng), LCTerm::One)); lc.push((Fr::from(1u64), LCTerm::PolyLabel(bl))); }
                    _ => { lc.push((Fr::from(1u64), LCTerm::PolyLabel(bl))); lc.push((Fr::rand(&mut rng), LCTerm::PolyLabel(c.polys[live[(b + 1) % live.len()]].label().clone()))); }
                }
                kind = "policy-violation";
            } else if roll == 2 {
                if coin(&mut rng) && !unbounded.is_empty() {
                    lc.push((Fr::rand(&mut rng), LCTerm::PolyLabel(c.polys[unbounded[0]].label().clone())));
                }
                lc.push((Fr::rand(&mut rng), LCTerm::PolyLabel("nosuch".to_string())));
                if kind == "in-policy" { kind = "unknown-label"; }
            } else if !bounded.is_empty() && (unbounded.is_empty() || roll == 3 || roll == 4) {
                // a single bounded term with coefficient one keeps its bound
                lc.push((Fr::from(1u64), LCTerm::PolyLabel(c.polys[bounded[range(&mut rng, 0, bounded.len() - 1)]].label().clone())));
                ctx.rep.count("ipa/lc-single-bounded-term");
            } else if !unbounded.is_empty() {
                let nt = range(&mut rng, 1, 6);
                let must_poly = range(&mut rng, 0, nt - 1);
                for t in 0..nt {
                    let coeff = match range(&mut rng, 0, 4) { 0 => Fr::zero(), 1 => Fr::from(1u64), 2 => -Fr::from(1u64), _ => Fr::rand(&mut rng) };
                    if t != must_poly && range(&mut rng, 0, 3) == 0 {
                        lc.push((coeff, LCTerm::One));
                    } else {
                        lc.push((coeff, LCTerm::PolyLabel(c.polys[unbounded[range(&mut rng, 0, unbounded.len() - 1)]].label().clone())));
                    }
                }
            } else {
                continue;
            }
            lcs.push(lc);
        }
        if lcs.is_empty() {
            continue;
        }
        // query set over the combinations: 1-3 point labels, labels sharing a point value, several
        // combinations per point
        let mut qs: QuerySet<Fr> = QuerySet::new();
        let mut ev: Evaluations<Fr, Fr> = Evaluations::new();
        let nl = range(&mut rng, 1, 3);
        let mut pts: Vec<Fr> = vec![];
        for l in 0..nl {
            let pt = if l > 0 && coin(&mut rng) { pts[range(&mut rng, 0, pts.len() - 1)] } else { Fr::rand(&mut rng) };
            pts.push(pt);
            for (k, lc) in lcs.iter().enumerate() {
                if coin(&mut rng) || (k == l % lcs.len()) {
                    qs.insert((lc.label().clone(), (format!("pt{}", l), pt)));
                    ev.insert((lc.label().clone(), pt), lc_value(&c.polys, lc, &pt));
                }
            }
        }
        let ngroups = crate::generic::group(&qs).len();
        let expected = lc_expected_refusal(&c.polys, &lcs);
        // ---------------------------------------------------------------- prover
        let draws = replay_fr(&rng, ngroups * (c.s + 4) + 4);
        let mut sp = LogSponge::fresh();
        ro_clear();
        let mut prng = rng.clone();
        let r = guarded(|| PC::open_combinations(&c.ck, &lcs, &c.polys, &c.comms, &qs, &mut sp, &c.rands, Some(&mut prng)));
        let (ros, _) = ro_take();
        let xis = sp.challenges();
        let answered = matches!(r, Ok(Ok(_)));
        let lcsc = lc_scalars(&c.polys, &cs, &c.rands, &lcs);
        let sb = lcsc.as_ref().and_then(|x| scalar_batch(&c.trap, c.s, &x.polys, &x.cs, &x.rands, &qs, &xis, &ros, &draws));
        let pad = |v: &[Fr], n: usize, nz: bool, tag: u64| -> Vec<Fr> {
            let mut x = v.to_vec();
            let mut e = rng_for(tag, &id0, 5);
            while x.len() < n {
                x.push(if nz { rand_nonzero(&mut e) } else { Fr::rand(&mut e) });
            }
            x
        };
        let need_xi = 2 * qs.len() + ngroups + 2;
        let need_ro = ngroups * (ark_std::log2(c.s + 1) as usize + 3) + 2;
        let base_p = |op: &str| lcs_args(comms_args(rands_args(polys_args(c.base(op), &c.polys), &c.rands), &cs), &lcs);
        let reqm = queries_args(base_p("ipa.open_combinations"), &qs)
            .arg("xis", wire::fes(&pad(&xis, need_xi, false, 3)))
            .arg("ros", wire::fes(&pad(&ros, need_ro, true, 4)))
            .arg("rng", wire::boolean(true))
            .arg("draws", wire::fes(&draws));
        let mut key_defined = false;
        match &r {
            Ok(Ok(bp)) => {
                let proofs = &bp.proof;
                let mut exp = vec![
                    ("fcks".into(), Expect::G1s(proofs.iter().map(|p| p.final_comm_key).collect())),
                    ("pcs".into(), Expect::Fes(proofs.iter().map(|p| p.c).collect())),
                    ("hcs".into(), Expect::OptG1List(proofs.iter().map(|p| p.hiding_comm).collect())),
                    ("prands".into(), Expect::Raw(wire::Val::L(proofs.iter().map(|p| wire::opt_fe(&p.rand)).collect()))),
                    ("nls".into(), Expect::Nats(proofs.iter().map(|p| p.l_vec.len()).collect())),
                    ("used_xi".into(), Expect::Nat(xis.len())),
                ];
                if let Some((ps, _, kr, kd)) = &sb {
                    key_defined = ps.len() == proofs.len() && ps.iter().zip(proofs.iter()).all(|(a, b)| a.matches(b));
                    if key_defined {
                        exp.push(("lss".into(), Expect::Raw(wire::Val::L(ps.iter().map(|p| wire::fes(&p.ls)).collect()))));
                        exp.push(("rss".into(), Expect::Raw(wire::Val::L(ps.iter().map(|p| wire::fes(&p.rs)).collect()))));
                        exp.push(("used_ro".into(), Expect::Nat(*kr)));
                        exp.push(("used_draws".into(), Expect::Nat(*kd)));
                    }
                }
                if bp.evals.is_some() {
                    ctx.rep.expect_fail(&id0, "ipa/lc-evals-transmitted", "BatchLCProof.evals is not None", c.replay(&id0, ctx.seed, "open_combinations"));
                }
                ctx.ses.ask(&id0, reqm, ImplOutcome::Ok(exp));
                if !key_defined {
                    ctx.rep.expect_fail(&id0, "ipa/lc-proof-not-key-defined", "open_combinations: the proofs are not the key-defined ones of the combined polynomials", c.replay(&id0, ctx.seed, &format!("lcs={:?}", lcs)));
                }
            }
            Ok(Err(e)) => ctx.ses.ask(&id0, reqm, ImplOutcome::Refuse(err_kind(e))),
            Err(a) => ctx.ses.ask(&id0, reqm, ImplOutcome::Refuse(a.clone())),
        }
        let pkind = kind_of(&r);
        match expected {
            None => {
                if !answered {
                    ctx.rep.expect_fail(&id0, "ipa/lc-honest-refused", &format!("in-policy combination refused: {}", pkind), c.replay(&id0, ctx.seed, &format!("lcs={:?}", lcs)));
                }
            }
            Some(e) => {
                if answered {
                    ctx.rep.expect_fail(&id0, if e == "equationHasDegreeBounds" { "ipa/lc-bound-dropped" } else { "ipa/lc-out-of-domain-answered" },
                        &format!("open_combinations answered a combination that must be refused ({})", e), c.replay(&id0, ctx.seed, &format!("lcs={:?}", lcs)));
                } else if pkind != e {
                    ctx.rep.expect_fail(&id0, "ipa/lc-wrong-error", &format!("open_combinations refused with {} instead of {}", pkind, e), c.replay(&id0, ctx.seed, &format!("lcs={:?}", lcs)));
                }
            }
        }
        ctx.rep.count(&format!("ipa/lc-{}", kind));
        ctx.rep.count(&format!("ipa/lc-hiding-{}", c.polys.iter().filter(|p| p.hiding_bound().is_some()).count().min(2)));
        ctx.rep.case(&format!("{} lc kind={} lcs={} queries={} groups={} answered={}", c.desc(), kind, lcs.len(), qs.len(), ngroups, answered),
            Some(format!("ipa-lc/{}/{}/{}/{}/{}", kind, c.s, lcs.len(), qs.len(), ngroups)));
        // ---------------------------------------------------------------- verifier
        let (proof, ps): (BatchLCProof<Fr, Vec<ark_poly_commit::ipa_pc::Proof<G1Affine>>>, Vec<ProofS>) = match (r, sb) {
            (Ok(Ok(p)), Some((ps, _, _, _))) if key_defined => (p, ps),
            (Ok(Ok(_)), _) => continue,
            _ => (BatchLCProof { proof: vec![], evals: None }, vec![]),
        };
        // the error kinds of the combination phase, prover and verifier (compared exactly)
        {
            let mut vs0 = LogSponge::fresh();
            let mut vr0 = rng.clone();
            let rv = guarded(|| PC::check_combinations(&c.vk, &lcs, &c.comms, &qs, &ev, &proof, &mut vs0, &mut vr0));
            let vkind = kind_of(&rv);
            if expected.is_some() || (answered && vkind == "ok") {
                let rq = evals_args(base_p("ipa.lc_kind"), &ev);
                ctx.ses.ask(&format!("{}/kind", id0), rq, ImplOutcome::Ok(vec![
                    ("pkind".into(), Expect::Raw(wire::label(&pkind))),
                    ("vkind".into(), Expect::Raw(wire::label(&vkind))),
                ]));
            }
            if let Some(e) = expected {
                if vkind == "ok" {
                    ctx.rep.expect_fail(&id0, if e == "equationHasDegreeBounds" { "ipa/lc-bound-dropped/verifier" } else { "ipa/lc-out-of-domain-answered/verifier" },
                        &format!("check_combinations answered a combination that must be refused ({})", e), c.replay(&id0, ctx.seed, &format!("lcs={:?}", lcs)));
                } else if vkind != e {
                    ctx.rep.expect_fail(&id0, "ipa/lc-wrong-error/verifier", &format!("check_combinations refused with {} instead of {}", vkind, e), c.replay(&id0, ctx.seed, &format!("lcs={:?}", lcs)));
                }
            }
        }
        // the combined commitments against their specification: the same linear combination of the
        // library's commitment points (group arithmetic of the curve crate)
        if expected.is_none() {
            use ark_ec::CurveGroup;
            let mut pc: Vec<G1Affine> = vec![];
            let mut psh: Vec<Option<G1Affine>> = vec![];
            for lc in &lcs {
                let mut acc = G1Projective::zero();
                let mut sh: Option<G1Projective> = None;
                for (co, t) in lc.iter() {
                    if let LCTerm::PolyLabel(l) = t {
                        let pi = c.polys.iter().rposition(|p| p.label() == l).unwrap();
                        acc += c.comms[pi].commitment().comm.mul(*co);
                        if let Some(x) = c.comms[pi].commitment().shifted_comm {
                            sh = Some(sh.unwrap_or(G1Projective::zero()) + x.mul(*co));
                        }
                    }
                }
                pc.push(acc.into_affine());
                psh.push(sh.map(|x| x.into_affine()));
            }
            ctx.ses.ask(&format!("{}/commitments", id0), base_p("ipa.lc_commitments"), ImplOutcome::Ok(vec![
                ("pcs".into(), Expect::G1s(pc.clone())),
                ("pss".into(), Expect::OptG1List(psh.clone())),
                ("vcs".into(), Expect::G1s(pc)),
                ("vss".into(), Expect::OptG1List(psh)),
            ]));
        }
        // variants: (name, combinations, evaluations, expectation: Some(true) accept / Some(false) refuse / None)
        let mut variants: Vec<(String, Vec<Lc>, Evaluations<Fr, Fr>, Option<bool>)> = vec![];
        let keys: Vec<(String, Fr)> = ev.keys().cloned().collect();
        let queried = |l: &String| keys.iter().any(|k| &k.0 == l);
        let with_terms = |li: usize, terms: Vec<(Fr, LCTerm)>| -> Vec<Lc> {
            let mut l2 = lcs.clone();
            l2[li] = LinearCombination::new(lcs[li].label().clone(), terms);
            l2
        };
        if expected.is_none() {
            variants.push(("honest".into(), lcs.clone(), ev.clone(), Some(true)));
            // a claimed value changed, at every claim position
            for (ki, k) in keys.iter().enumerate() {
                let mut e2 = ev.clone();
                *e2.get_mut(k).unwrap() += rand_nonzero(&mut rng);
                variants.push((format!("value@{}", ki), lcs.clone(), e2, Some(false)));
            }
            for (li, lc) in lcs.iter().enumerate() {
                let terms: Vec<(Fr, LCTerm)> = lc.iter().cloned().collect();
                for (ti, t) in terms.iter().enumerate() {
                    let d = rand_nonzero(&mut rng);
                    let mut t2 = terms.clone();
                    t2[ti].0 += d;
                    match &t.1 {
                        LCTerm::One => {
                            // a constant changed on the verifier's side
                            variants.push((format!("constant@{}.{}", li, ti), with_terms(li, t2.clone()), ev.clone(), if queried(lc.label()) { Some(false) } else { None }));
                            // ... together with every claimed value of this combination: a true statement
                            let mut e2 = ev.clone();
                            for k in keys.iter().filter(|k| &k.0 == lc.label()) {
                                *e2.get_mut(k).unwrap() += d;
                            }
                            variants.push((format!("constant+values@{}.{}", li, ti), with_terms(li, t2), e2, Some(true)));
                        }
                        LCTerm::PolyLabel(l) => {
                            // a coefficient changed on the verifier's side (no effect on the statement when
                            // the polynomial's commitment is the identity)
                            let pi = c.polys.iter().rposition(|p| p.label() == l).unwrap();
                            let inert = cs[pi].c.is_zero();
                            let must = if queried(lc.label()) && !inert { Some(false) } else { None };
                            variants.push((format!("coefficient@{}.{}", li, ti), with_terms(li, t2.clone()), ev.clone(), must));
                            // ... with the claimed values moved along (a true statement about another
                            // combination; the proof is bound to the combined commitment)
                            if c.polys[pi].degree_bound().is_none() && queried(lc.label()) {
                                let mut e2 = ev.clone();
                                for k in keys.iter().filter(|k| &k.0 == lc.label()) {
                                    *e2.get_mut(k).unwrap() += d * c.polys[pi].evaluate(&k.1);
                                }
                                variants.push((format!("coefficient+values@{}.{}", li, ti), with_terms(li, t2), e2, if inert { None } else { Some(false) }));
                            }
                        }
                    }
                }
                // an added constant term
                let mut t3 = terms.clone();
                t3.push((rand_nonzero(&mut rng), LCTerm::One));
                variants.push((format!("constant-added@{}", li), with_terms(li, t3), ev.clone(), if queried(lc.label()) { Some(false) } else { None }));
                // an unknown label on the verifier's side
                let mut t4 = terms.clone();
                let pos = range(&mut rng, 0, t4.len() - 1);
                t4[pos].1 = LCTerm::PolyLabel("nosuch".to_string());
                variants.push((format!("unknown-label@{}", li), with_terms(li, t4), ev.clone(), Some(false)));
                // a bounded polynomial mixed in on the verifier's side
                if let Some(&b) = bounded.first() {
                    let mut t5 = terms.clone();
                    t5.push((Fr::from(1u64), LCTerm::PolyLabel(c.polys[b].label().clone())));
                    variants.push((format!("bounded-mixed-in@{}", li), with_terms(li, t5), ev.clone(), Some(false)));
                }
            }
            // cancelling value errors on two claims
            if keys.len() >= 2 {
                let a = range(&mut rng, 0, keys.len() - 1);
                let b = (a + 1 + range(&mut rng, 0, keys.len() - 2)) % keys.len();
                let d = rand_nonzero(&mut rng);
                let mut e2 = ev.clone();
                *e2.get_mut(&keys[a]).unwrap() += d;
                *e2.get_mut(&keys[b]).unwrap() -= d;
                variants.push((format!("cancel@{},{}", a, b), lcs.clone(), e2, Some(false)));
            }
            // a missing evaluation
            {
                let mut e2 = ev.clone();
                e2.remove(&keys[range(&mut rng, 0, keys.len() - 1)]);
                variants.push(("missing-evaluation".into(), lcs.clone(), e2, Some(false)));
            }
        } else {
            // the refused combination list on the verifier's side, with the (true) values
            variants.push(("refused".into(), lcs.clone(), ev.clone(), Some(false)));
        }
        for (vname, l2, e2, must) in variants {
            let id = format!("{}/{}", id0, vname);
            let mut vs = LogSponge::fresh();
            let rs = crate::kzg::replay_u128(&rng, ps.len().max(ngroups) + 1);
            ro_clear();
            let out = guarded(|| PC::check_combinations(&c.vk, &l2, &c.comms, &qs, &e2, &proof, &mut vs, &mut rng));
            let (vros, _) = ro_take();
            let acc = matches!(out, Ok(Ok(true)));
            let need_ro_v: usize = ps.iter().map(|p| p.ls.len().max(p.rs.len()) + 2).sum::<usize>() + 2;
            let reqv = proofs_args(evals_args(queries_args(lcs_args(comms_args(c.base("ipa.check_combinations"), &cs), &l2), &qs), &e2), &ps)
                .arg("xis", wire::fes(&pad(&vs.challenges(), need_xi, false, 6)))
                .arg("ros", wire::fes(&pad(&vros, need_ro_v, true, 7)))
                .arg("rs", wire::fes(&rs));
            ctx.ses.ask(&id, reqv, match &out {
                Ok(Ok(b)) => ImplOutcome::Ok(vec![("b".into(), Expect::Bool(*b))]),
                Ok(Err(e)) => ImplOutcome::Refuse(err_kind(e)),
                Err(a) => ImplOutcome::Refuse(a.clone()),
            });
            match must {
                Some(true) if !acc => ctx.rep.expect_fail(&id, "ipa/lc-honest-rejected", &format!("true combination statement not accepted ({}): {}", vname, kind_of(&out)), c.replay(&id, ctx.seed, &format!("lcs={:?}", l2))),
                Some(false) if acc => ctx.rep.expect_fail(&id, &format!("ipa/lc-false-accepted/{}", vname.split('@').next().unwrap_or("")), "changed combination statement accepted", c.replay(&id, ctx.seed, &format!("lcs={:?}", l2))),
                _ => {}
            }
            let vk0 = vname.split('@').next().unwrap_or("").to_string();
            ctx.rep.count(&format!("ipa/lc-check-{}", vk0));
            ctx.rep.case(&format!("{} lc check {} acc={}", c.desc(), vname, acc), Some(format!("ipa-lc-check/{}/{}/{}", vk0, c.s, acc)));
        }
    }
    flush(ctx, "C06-ipa");
}

// ------------------------------------------------------------------------------------------------
// C09: the library's `setup` (hash-derived generators) and `trim` against the model
// ------------------------------------------------------------------------------------------------

/// `sample_generators` recomputed without the library's hash-to-curve path: Blake2s of
/// `PROTOCOL_NAME ‖ i` (then `‖ j`), the digest read as a little-endian base-field element `x`
/// (32 bytes: below the modulus, flag byte zero = "larger root"), the larger root of `x³ + 4`, and a
/// double-and-add multiplication by the cofactor.
fn derive_generator(i: u64) -> G1Affine {
    use ark_bls12_381::Fq;
    use ark_ec::CurveConfig;
    use ark_ff::PrimeField;
    use blake2::{Blake2s256, Digest};
    let name: &[u8] = b"PC-DL-2020";
    let point = |hash: &[u8]| -> Option<G1Affine> {
        let x = Fq::from_le_bytes_mod_order(hash);
        let y = (x * x * x + Fq::from(4u64)).sqrt()?;
        let ny = -y;
        let larger = if y.into_bigint() > ny.into_bigint() { y } else { ny };
        Some(G1Affine::new_unchecked(x, larger))
    };
    let mut input = name.to_vec();
    input.extend(i.to_le_bytes());
    let mut g = point(&Blake2s256::digest(&input));
    let mut j = 0u64;
    while g.is_none() {
        let mut b = name.to_vec();
        b.extend(i.to_le_bytes());
        b.extend(j.to_le_bytes());
        g = point(&Blake2s256::digest(&b));
        j += 1;
    }
    let g = g.unwrap();
    let mut acc = G1Projective::zero();
    for limb in <ark_bls12_381::g1::Config as CurveConfig>::COFACTOR.iter().rev() {
        for bit in (0..64).rev() {
            acc = acc + acc;
            if (limb >> bit) & 1 == 1 {
                acc += g;
            }
        }
    }
    acc.into_affine()
}

fn c09(ctx: &mut Ctx) {
    use ark_poly_commit::PCUniversalParams;
    // (a) the library's setup
    let sizes: Vec<usize> = if ctx.thorough { vec![0, 1, 2, 3, 4, 6, 7, 8, 12, 15, 16, 31, 40, 63, 64] } else { vec![0, 1, 2, 3, 5, 8, 13, 20] };
    let mut prev: Option<Vec<G1Affine>> = None;
    for &d in &sizes {
        let id = format!("C09/ipa-model/setup/{}", d);
        if !ctx.selected(&id) {
            continue;
        }
        let mut rng = rng_for(ctx.seed, "C09/ipa-model/setup", d as u64);
        let pp = match guarded(|| PC::setup(d, None, &mut rng)) {
            Ok(Ok(p)) => p,
            other => {
                ctx.rep.expect_fail(&id, "ipa/setup-refused", &format!("setup({}) refused: {}", d, kind_of(&other)), format!("# scheme: ipa setup({})\n", d));
                continue;
            }
        };
        let mut rng2 = rng_for(ctx.seed ^ 0xabc, "C09/ipa-model/setup-other", d as u64 + 1000);
        let pp2 = PC::setup(d, Some(3), &mut rng2).unwrap();
        let mut bad: Vec<String> = vec![];
        let n = (d + 1).next_power_of_two();
        if pp.comm_key.len() != n {
            bad.push(format!("{} generators for max_degree {} (expected {})", pp.comm_key.len(), d, n));
        }
        if pp.max_degree() + 1 != pp.comm_key.len() {
            bad.push("max_degree() report".into());
        }
        if pp.comm_key != pp2.comm_key || pp.h != pp2.h || pp.s != pp2.s {
            bad.push("two setups disagree (generators depend on the RNG / the unused argument)".into());
        }
        let mut all: Vec<G1Affine> = pp.comm_key.clone();
        all.push(pp.s);
        all.push(pp.h);
        for (i, g) in all.iter().enumerate() {
            if g.is_zero() || !g.is_on_curve() || !g.is_in_correct_subgroup_assuming_on_curve() {
                bad.push(format!("generator {} is the identity / off the curve / outside the subgroup", i));
                break;
            }
        }
        for i in 0..all.len() {
            for j in 0..i {
                if all[i] == all[j] || all[i] == -all[j] {
                    bad.push(format!("generators {} and {} coincide (up to sign)", j, i));
                }
            }
        }
        // derived from the protocol seed: index i of the sampled list (s = index n, h = index n + 1)
        for (i, g) in all.iter().enumerate() {
            if *g != derive_generator(i as u64) {
                bad.push(format!("generator {} is not the hash-to-curve image of (PROTOCOL_NAME, {})", i, i));
                break;
            }
        }
        if let Some(p) = &prev {
            let k = p.len().min(pp.comm_key.len());
            if p[..k] != pp.comm_key[..k] {
                bad.push("generators are not prefix-stable across sizes".into());
            }
        }
        // trim on the library's parameters: prefix, power of two, same h / s, truthful reports
        for sup in [0usize, d / 2, d, d + 1, n - 1, n, 2 * n] {
            let r = guarded(|| PC::trim(&pp, sup, 0, None));
            let m = (sup + 1).next_power_of_two();
            match r {
                Ok(Ok((ck, vk))) => {
                    if m > n {
                        bad.push(format!("trim({}) beyond the parameters answered", sup));
                    }
                    if ck.comm_key[..] != pp.comm_key[..m.min(n)] || ck.comm_key.len() != m || vk.comm_key != ck.comm_key || ck.h != pp.h || ck.s != pp.s || vk.h != pp.h || vk.s != pp.s {
                        bad.push(format!("trim({}) is not the {}-prefix of the parameters with the same h, s", sup, m));
                    }
                    if ck.supported_degree() != m - 1 || ark_poly_commit::PCVerifierKey::supported_degree(&vk) != m - 1 || ck.max_degree() != n - 1 || ark_poly_commit::PCVerifierKey::max_degree(&vk) != n - 1 {
                        bad.push(format!("trim({}): degree reports", sup));
                    }
                    // supports exactly what it reports
                    let p_ok = LabeledPolynomial::new("a".to_string(), UniPoly::rand(m - 1, &mut rng), None, None);
                    let p_bad = LabeledPolynomial::new("b".to_string(), UniPoly::rand(m, &mut rng), None, None);
                    if !matches!(guarded(|| PC::commit(&ck, [&p_ok], None)), Ok(Ok(_))) {
                        bad.push(format!("trim({}): commit at degree == supported refused", sup));
                    }
                    if matches!(guarded(|| PC::commit(&ck, [&p_bad], None)), Ok(Ok(_))) {
                        bad.push(format!("trim({}): commit at degree == supported + 1 answered", sup));
                    }
                }
                other => {
                    if m <= n {
                        bad.push(format!("in-range trim({}) refused: {}", sup, kind_of(&other)));
                    }
                }
            }
        }
        if !bad.is_empty() {
            ctx.rep.expect_fail(&id, "ipa/setup-inconsistent", &bad.join("; "), format!("# scheme: ipa setup({})\n# {}\n# rerun: .build/cargo/debug/pcv-harness C09 --seed {} --only {}\n", d, bad.join("; "), ctx.seed, id));
        }
        prev = Some(pp.comm_key.clone());
        ctx.rep.count("ipa/setup");
        ctx.rep.case(&format!("ipa setup D={} key={} (+h, s) derivation recomputed", d, pp.comm_key.len()), Some(format!("ipa-model-setup/{}", d)));
    }
    // (b) trim in trapdoor mode against the model: parameter lists of any length (powers of two and
    // hand-made other lengths, the empty list), requests on both sides of every boundary
    let lens: Vec<usize> = if ctx.thorough { (0..=18).chain([31, 32, 33]).collect() } else { vec![0, 1, 2, 3, 4, 5, 7, 8, 9, 16] };
    for &len in &lens {
        let mut reqs: Vec<usize> = vec![0, 1, 2, 3, len / 2, len.saturating_sub(2), len.saturating_sub(1), len, len + 1, 2 * len];
        reqs.sort();
        reqs.dedup();
        for req in reqs {
            let id = format!("C09/ipa-model/trim/{}/{}", len, req);
            if !ctx.selected(&id) {
                continue;
            }
            let mut rng = rng_for(ctx.seed, "C09/ipa-model/trim", (len * 1000 + req) as u64);
            let trap = Trap::random(&mut rng, len);
            let pp = trap.params();
            let r = guarded(|| PC::trim(&pp, req, range(&mut rng, 0, 3), if coin(&mut rng) { None } else { Some(&[1usize, 2][..]) }));
            let m = (req + 1).next_power_of_two();
            let in_domain = len > 0 && m <= len;
            let answered = matches!(r, Ok(Ok(_)));
            if answered != in_domain {
                ctx.rep.expect_fail(&id, if answered { "ipa/trim-out-of-range-answered" } else { "ipa/trim-refused" }, &format!("trim(|pp| = {}, supported = {}): in-domain {} answered {}", len, req, in_domain, answered),
                    format!("# scheme: ipa\n# case: {}\n# seed: {}\n# key scalars={}\n", id, ctx.seed, wire::fes(&trap.key)));
            }
            let out = match &r {
                Ok(Ok((ck, vk))) => {
                    if ck.comm_key[..] != pp.comm_key[..m.min(len)] || vk.comm_key != ck.comm_key || ck.h != pp.h || ck.s != pp.s || vk.h != pp.h || vk.s != pp.s || ck.supported_degree() + 1 != ck.comm_key.len() || ck.max_degree() + 1 != len {
                        ctx.rep.expect_fail(&id, "ipa/trim-unfaithful", "trimmed key is not the power-of-two prefix of the parameters with the same h, s and truthful reports", format!("# scheme: ipa\n# case: {}\n# seed: {}\n", id, ctx.seed));
                    }
                    ImplOutcome::Ok(vec![
                        ("key".into(), Expect::G1s(ck.comm_key.clone())),
                        ("h".into(), Expect::G1(ck.h)),
                        ("s".into(), Expect::G1(ck.s)),
                        ("max_degree".into(), Expect::Nat(ck.max_degree)),
                        ("supported".into(), Expect::Nat(ck.supported_degree())),
                        ("vkey".into(), Expect::G1s(vk.comm_key.clone())),
                        ("vh".into(), Expect::G1(vk.h)),
                        ("vs".into(), Expect::G1(vk.s)),
                    ])
                }
                Ok(Err(e)) => ImplOutcome::Refuse(err_kind(e)),
                Err(a) => ImplOutcome::Refuse(a.clone()),
            };
            ctx.ses.ask(&id, base_of(&trap, "ipa.trim", req), out);
            ctx.rep.count(&format!("ipa/trim-in-domain-{}", in_domain));
            ctx.rep.case(&format!("ipa trim |pp|={} supported={} -> {}", len, req, kind_of(&r)), Some(format!("ipa-model-trim/{}/{}", len, req)));
        }
    }
    flush(ctx, "C09-ipa");
}

// ------------------------------------------------------------------------------------------------
// C11: histories on one sponge and one random oracle, model-backed
// ------------------------------------------------------------------------------------------------

fn c11(ctx: &mut Ctx) {
    let n = ctx.n(16, 160);
    let reqs = [1usize, 2, 3, 4, 7, 8];
    for i in 0..n {
        let id0 = format!("C11/ipa-model/{}", i);
        if !ctx.selected(&id0) {
            continue;
        }
        let mut rng = rng_for(ctx.seed, "C11/ipa-model", i as u64);
        let req = reqs[i % reqs.len()];
        let npoly = range(&mut rng, 1, 3);
        let c = match new_case(ctx, &mut rng, &id0, req, npoly, i % 2 == 0, i % 3 != 0) { Some(c) => c, None => continue };
        let cs = match scalars_or_fail(ctx, &id0, &c) { Some(x) => x, None => continue };
        // the history: 2-4 `open` operations (subsets of the polynomials at fresh points) on ONE sponge
        // pre-seeded with absorbed data; the random-oracle log is cut per operation
        let nops = range(&mut rng, 2, 4);
        let mut sp_p = LogSponge::fresh();
        sp_p.absorb_seed(7000 + i as u64);
        let mut sp_v = sp_p.clone();
        struct OpRec { idx: Vec<usize>, z: Fr, values: Vec<Fr>, ps: ProofS, xis: Vec<Fr>, ros: Vec<Fr>, pre: LogSponge }
        let mut ops: Vec<OpRec> = vec![];
        let mut ok = true;
        for o in 0..nops {
            let mut idx: Vec<usize> = (0..npoly).filter(|_| coin(&mut rng)).collect();
            if idx.is_empty() {
                idx.push(range(&mut rng, 0, npoly - 1));
            }
            let z = Fr::rand(&mut rng);
            let polys: Vec<&LP> = idx.iter().map(|&k| &c.polys[k]).collect();
            let comms: Vec<&LC> = idx.iter().map(|&k| &c.comms[k]).collect();
            let rands: Vec<&Rand> = idx.iter().map(|&k| &c.rands[k]).collect();
            let csub: Vec<CommS> = idx.iter().map(|&k| cs[k].clone()).collect();
            let draws = replay_fr(&rng, c.s + 6);
            let pre = sp_p.clone();
            let before = sp_p.challenges().len();
            ro_clear();
            let r = guarded(|| PC::open(&c.ck, polys.iter().cloned(), comms.iter().cloned(), &z, &mut sp_p, rands.iter().cloned(), Some(&mut rng)));
            let (ros, _) = ro_take();
            let proof = match r {
                Ok(Ok(p)) => p,
                other => {
                    ctx.rep.expect_fail(&id0, "ipa/honest-open-refused", &format!("history op {}: open refused: {}", o, kind_of(&other)), c.replay(&id0, ctx.seed, "history"));
                    ok = false;
                    break;
                }
            };
            let xis: Vec<Fr> = sp_p.challenges()[before..].to_vec();
            let sc = scalar_open(&c.trap, c.s, &polys, &csub.iter().collect::<Vec<_>>(), &rands, z, &xis, &ros, &draws);
            let ps = match sc {
                Some((ps, ux, ur, _)) if ps.matches(&proof) && ux == xis.len() && ur == ros.len() => ps,
                _ => {
                    ctx.rep.expect_fail(&id0, "ipa/proof-not-key-defined", &format!("history op {}: proof / consumption differs from the scalar prover", o), c.replay(&id0, ctx.seed, "history"));
                    ok = false;
                    break;
                }
            };
            // the model's prover on this slice of the streams (plus surplus it must leave untouched)
            let mut e = rng_for(9, &id0, o as u64);
            let mut xi_m = xis.clone();
            xi_m.push(Fr::rand(&mut e));
            xi_m.push(Fr::rand(&mut e));
            let mut ro_m = ros.clone();
            ro_m.push(rand_nonzero(&mut e));
            let lp: Vec<LP> = polys.iter().map(|p| (*p).clone()).collect();
            let lr: Vec<Rand> = rands.iter().map(|r| (*r).clone()).collect();
            let reqm = comms_args(rands_args(polys_args(c.base("ipa.open"), &lp), &lr), &csub)
                .arg("z", wire::fe(&z)).arg("xis", wire::fes(&xi_m)).arg("ros", wire::fes(&ro_m))
                .arg("rng", wire::boolean(true)).arg("draws", wire::fes(&draws));
            ctx.ses.ask(&format!("{}/op{}/open", id0, o), reqm, ImplOutcome::Ok(vec![
                ("ls".into(), Expect::G1s(proof.l_vec.clone())),
                ("rs".into(), Expect::G1s(proof.r_vec.clone())),
                ("fck".into(), Expect::G1(proof.final_comm_key)),
                ("pc".into(), Expect::Fe(proof.c)),
                ("used_xi".into(), Expect::Nat(xis.len())),
                ("used_ro".into(), Expect::Nat(ros.len())),
            ]));
            let values: Vec<Fr> = polys.iter().map(|p| p.evaluate(&z)).collect();
            ops.push(OpRec { idx, z, values, ps, xis, ros, pre });
        }
        if !ok {
            continue;
        }
        // the verifier on an identically initialised sponge, same order
        let vkey = vks(&c);
        for (o, op) in ops.iter().enumerate() {
            let csub: Vec<CommS> = op.idx.iter().map(|&k| cs[k].clone()).collect();
            let comms = comms_from(&csub);
            let proof = op.ps.to_proof();
            let before = sp_v.challenges().len();
            ro_clear();
            let r = guarded(|| PC::check(&c.vk, &comms, &op.z, op.values.iter().cloned(), &proof, &mut sp_v, None));
            let (vros, _) = ro_take();
            let vxis: Vec<Fr> = sp_v.challenges()[before..].to_vec();
            let id = format!("{}/op{}/check", id0, o);
            if !matches!(r, Ok(Ok(true))) {
                ctx.rep.expect_fail(&id, "ipa/history-rejected/open", &format!("history op {}: honest proof not accepted on the shared transcript: {}", o, kind_of(&r)), c.replay(&id, ctx.seed, "history"));
            }
            if vxis != op.xis || vros != op.ros {
                ctx.rep.expect_fail(&id, "ipa/sponge-diverged/open", &format!("history op {}: verifier squeezed {} challenges / {} oracle outputs, prover {} / {} (or different values)", o, vxis.len(), vros.len(), op.xis.len(), op.ros.len()), c.replay(&id, ctx.seed, "history"));
            }
            let mut e = rng_for(10, &id0, o as u64);
            let mut xi_m = vxis.clone();
            xi_m.push(Fr::rand(&mut e));
            let mut ro_m = vros.clone();
            ro_m.push(rand_nonzero(&mut e));
            let reqv = proof_args(comms_args(base_of(&vkey.trap, "ipa.check", vkey.req), &csub), &op.ps)
                .arg("z", wire::fe(&op.z)).arg("vs", wire::fes(&op.values)).arg("xis", wire::fes(&xi_m)).arg("ros", wire::fes(&ro_m));
            ctx.ses.ask(&id, reqv, match &r {
                Ok(Ok(b)) => ImplOutcome::Ok(vec![("b".into(), Expect::Bool(*b)), ("used_xi".into(), Expect::Nat(vxis.len())), ("used_ro".into(), Expect::Nat(vros.len()))]),
                Ok(Err(e)) => ImplOutcome::Refuse(err_kind(e)),
                Err(a) => ImplOutcome::Refuse(a.clone()),
            });
        }
        if sp_p.probe() != sp_v.probe() || sp_p.log != sp_v.log {
            ctx.rep.expect_fail(&id0, "ipa/sponge-diverged/history", "prover and verifier sponges differ after the history", c.replay(&id0, ctx.seed, "history end state"));
        }
        // a proof moved to another position of the sequence: checked on the sponge state of that position
        for a in 0..ops.len() {
            for b in 0..ops.len() {
                if a == b || (!ctx.thorough && (a + b + i) % 2 == 1) {
                    continue;
                }
                // same statement as op a, sponge as before op b
                let id = format!("{}/displaced/{}@{}", id0, a, b);
                let mut sp = ops[b].pre.clone();
                let csub: Vec<CommS> = ops[a].idx.iter().map(|&k| cs[k].clone()).collect();
                let comms = comms_from(&csub);
                let proof = ops[a].ps.to_proof();
                let before = sp.challenges().len();
                ro_clear();
                let r = guarded(|| PC::check(&c.vk, &comms, &ops[a].z, ops[a].values.iter().cloned(), &proof, &mut sp, None));
                let (vros, _) = ro_take();
                let vxis: Vec<Fr> = sp.challenges()[before..].to_vec();
                // the property exempts constant polynomials (the zero polynomial's transcript does not
                // depend on the sponge at all): the expectation is attached to openings of non-constant
                // polynomials only; the model is compared in every case
                let nonconst_a = ops[a].idx.iter().all(|&k| c.polys[k].degree() >= 1);
                if nonconst_a && matches!(r, Ok(Ok(true))) {
                    ctx.rep.expect_fail(&id, "ipa/accepted-on-other-transcript/position", &format!("proof of op {} accepted at the sponge position of op {}", a, b), c.replay(&id, ctx.seed, "displaced proof"));
                }
                let mut e = rng_for(11, &id, 0);
                let mut xi_m = vxis.clone();
                while xi_m.len() < 2 * csub.len() + 2 { xi_m.push(Fr::rand(&mut e)); }
                let mut ro_m = vros.clone();
                while ro_m.len() < ops[a].ps.ls.len() + 3 { ro_m.push(rand_nonzero(&mut e)); }
                let reqv = proof_args(comms_args(base_of(&vkey.trap, "ipa.check", vkey.req), &csub), &ops[a].ps)
                    .arg("z", wire::fe(&ops[a].z)).arg("vs", wire::fes(&ops[a].values)).arg("xis", wire::fes(&xi_m)).arg("ros", wire::fes(&ro_m));
                ctx.ses.ask(&id, reqv, match &r {
                    Ok(Ok(b)) => ImplOutcome::Ok(vec![("b".into(), Expect::Bool(*b))]),
                    Ok(Err(e)) => ImplOutcome::Refuse(err_kind(e)),
                    Err(a) => ImplOutcome::Refuse(a.clone()),
                });
                ctx.rep.count(if nonconst_a { "ipa/history-displaced-nonconstant" } else { "ipa/history-displaced-constant" });
            }
        }
        // the same history with a different pre-state: every proof must be rejected
        {
            let mut sp_o = LogSponge::fresh();
            sp_o.absorb_seed(9000 + i as u64);
            let op = &ops[0];
            let csub: Vec<CommS> = op.idx.iter().map(|&k| cs[k].clone()).collect();
            let comms = comms_from(&csub);
            let proof = op.ps.to_proof();
            let r = guarded(|| PC::check(&c.vk, &comms, &op.z, op.values.iter().cloned(), &proof, &mut sp_o, None));
            if op.idx.iter().all(|&k| c.polys[k].degree() >= 1) && matches!(r, Ok(Ok(true))) {
                ctx.rep.expect_fail(&id0, "ipa/accepted-on-other-transcript/pre-state", "proof accepted against a sponge with different prior absorbs", c.replay(&id0, ctx.seed, "other pre-state"));
            }
        }
        counts(ctx, &c);
        ctx.rep.count(&format!("ipa/history-ops-{}", ops.len()));
        ctx.rep.case(&format!("{} history of {} opens", c.desc(), ops.len()), Some(format!("ipa-history/{}/{}/{}", c.s, npoly, ops.len())));
    }
    flush(ctx, "C11-ipa");
}

// ------------------------------------------------------------------------------------------------
// C17: out-of-domain requests of every entry point, model-backed
// ------------------------------------------------------------------------------------------------

fn c17(ctx: &mut Ctx) {
    let n = ctx.n(12, 120);
    let reqs = [1usize, 2, 3, 4, 7, 8];
    let outcome = |r: &Result<Result<bool, ark_poly_commit::Error>, String>| match r {
        Ok(Ok(b)) => ImplOutcome::Ok(vec![("b".into(), Expect::Bool(*b))]),
        Ok(Err(e)) => ImplOutcome::Refuse(err_kind(e)),
        Err(a) => ImplOutcome::Refuse(a.clone()),
    };
    for i in 0..n {
        let id0 = format!("C17/ipa-model/{}", i);
        if !ctx.selected(&id0) {
            continue;
        }
        let mut rng = rng_for(ctx.seed, "C17/ipa-model", i as u64);
        let req = reqs[i % reqs.len()];
        // two polynomials: the first hiding (and sometimes bounded), the second plain
        let c = match guarded(|| gen_case_pattern(&mut rng, req, &[true, false], i % 2 == 0)) {
            Ok(Ok(c)) => c,
            _ => continue,
        };
        let cs = match scalars_or_fail(ctx, &id0, &c) { Some(x) => x, None => continue };
        let refused = |ctx: &mut Ctx, id: &str, what: &str, answered: bool| {
            if answered {
                ctx.rep.expect_fail(id, &format!("ipa/out-of-domain-answered/{}", what), &format!("{}: answered instead of refused", what), c.replay(id, ctx.seed, what));
            }
            ctx.rep.count(&format!("ipa/ood-{}", what));
        };
        // commit: hiding without an RNG
        {
            let id = format!("{}/commit-no-rng", id0);
            let r = guarded(|| PC::commit(&c.ck, &c.polys, None));
            refused(ctx, &id, "commit-hiding-without-rng", matches!(r, Ok(Ok(_))));
            let reqm = polys_args(c.base("ipa.commit"), &c.polys).arg("rng", wire::boolean(false)).arg("draws", wire::fes(&c.commit_draws));
            ctx.ses.ask(&id, reqm, match &r { Ok(Ok(_)) => ImplOutcome::Ok(vec![]), Ok(Err(e)) => ImplOutcome::Refuse(err_kind(e)), Err(a) => ImplOutcome::Refuse(a.clone()) });
        }
        // open: variants of the prover's inputs
        let z = Fr::rand(&mut rng);
        let s = c.s;
        let rng0 = rng.clone();
        let draws = replay_fr(&rng0, s + 6);
        let mut open_variant = |ctx: &mut Ctx, name: &str, polys: Vec<LP>, csx: Vec<CommS>, rands: Vec<Rand>, with_rng: bool, must_refuse: bool| {
            let id = format!("{}/open-{}", id0, name);
            let comms = comms_from(&csx);
            let mut sp = LogSponge::fresh();
            ro_clear();
            let mut prng = rng0.clone();
            let r = guarded(|| if with_rng { PC::open(&c.ck, &polys, &comms, &z, &mut sp, &rands, Some(&mut prng)) } else { PC::open(&c.ck, &polys, &comms, &z, &mut sp, &rands, None) });
            let (ros, _) = ro_take();
            let answered = matches!(r, Ok(Ok(_)));
            if must_refuse {
                refused(ctx, &id, &format!("open-{}", name), answered);
            }
            let mut e = rng_for(12, &id, 0);
            let mut xi_m = sp.challenges();
            while xi_m.len() < 2 * polys.len() + 2 { xi_m.push(Fr::rand(&mut e)); }
            let mut ro_m = ros.clone();
            while ro_m.len() < ark_std::log2(s + 1) as usize + 3 { ro_m.push(rand_nonzero(&mut e)); }
            let reqm = comms_args(rands_args(polys_args(c.base("ipa.open"), &polys), &rands), &csx)
                .arg("z", wire::fe(&z)).arg("xis", wire::fes(&xi_m)).arg("ros", wire::fes(&ro_m))
                .arg("rng", wire::boolean(with_rng)).arg("draws", wire::fes(&draws));
            ctx.ses.ask(&id, reqm, match &r {
                Ok(Ok(p)) => ImplOutcome::Ok(vec![("fck".into(), Expect::G1(p.final_comm_key)), ("pc".into(), Expect::Fe(p.c)), ("hcl".into(), Expect::OptG1List(vec![p.hiding_comm])), ("prand".into(), Expect::OptFe(p.rand))]),
                Ok(Err(e)) => ImplOutcome::Refuse(err_kind(e)),
                Err(a) => ImplOutcome::Refuse(a.clone()),
            });
        };
        open_variant(ctx, "honest", c.polys.clone(), cs.clone(), c.rands.clone(), true, false);
        open_variant(ctx, "no-rng", c.polys.clone(), cs.clone(), c.rands.clone(), false, true);
        {
            // commitments in another order: labels do not match
            let mut cx = cs.clone();
            cx.swap(0, 1);
            open_variant(ctx, "labels-swapped", c.polys.clone(), cx, c.rands.clone(), true, true);
            // a relabelled commitment
            let mut cx = cs.clone();
            cx[1].label = "other".to_string();
            open_variant(ctx, "label-renamed", c.polys.clone(), cx, c.rands.clone(), true, true);
            // a shifted part that does not belong / is missing
            if cs[1].s.is_none() {
                let mut cx = cs.clone();
                cx[1].s = Some(Fr::rand(&mut rng));
                open_variant(ctx, "shifted-added", c.polys.clone(), cx, c.rands.clone(), true, true);
            }
            if cs[0].s.is_some() {
                let mut cx = cs.clone();
                cx[0].s = None;
                open_variant(ctx, "shifted-dropped", c.polys.clone(), cx, c.rands.clone(), true, true);
                let mut cx = cs.clone();
                cx[0].bound = Some(cs[0].bound.unwrap() + 1);
                open_variant(ctx, "bound-label-differs", c.polys.clone(), cx, c.rands.clone(), true, true);
                // hiding + bound but the state lacks the shifted randomness
                let mut rx = c.rands.clone();
                rx[0].shifted_rand = None;
                open_variant(ctx, "shifted-rand-missing", c.polys.clone(), cs.clone(), rx, true, true);
            }
            // a polynomial beyond the key / a bound below the degree, presented to `open`
            let big = LabeledPolynomial::new(c.polys[1].label().clone(), UniPoly::rand(s + 1, &mut rng), None, None);
            open_variant(ctx, "degree-too-large", vec![c.polys[0].clone(), big], cs.clone(), c.rands.clone(), true, true);
            if c.polys[1].degree() >= 1 {
                let low = LabeledPolynomial::new(c.polys[1].label().clone(), c.polys[1].polynomial().clone(), Some(c.polys[1].degree() - 1), None);
                let mut cx = cs.clone();
                cx[1].bound = Some(c.polys[1].degree() - 1);
                cx[1].s = Some(Fr::rand(&mut rng));
                open_variant(ctx, "bound-below-degree", vec![c.polys[0].clone(), low], cx, c.rands.clone(), true, true);
            }
            let above = LabeledPolynomial::new(c.polys[1].label().clone(), c.polys[1].polynomial().clone(), Some(s + 1), None);
            let mut cx = cs.clone();
            cx[1].bound = Some(s + 1);
            cx[1].s = Some(Fr::rand(&mut rng));
            open_variant(ctx, "bound-above-supported", vec![c.polys[0].clone(), above], cx, c.rands.clone(), true, true);
            // fewer commitments than polynomials: the lists are zipped (answered for the common prefix;
            // model agreement only)
            open_variant(ctx, "fewer-commitments", c.polys.clone(), cs[..1].to_vec(), c.rands.clone(), true, false);
        }
        // check / batch_check on an honest transcript with out-of-domain shapes
        let all: Vec<usize> = vec![0, 1];
        let o = match open_or_fail(ctx, &mut rng, &format!("{}/base", id0), &c, &cs, &all, z) { Some(o) => o, None => continue };
        for m in [M::RoundsRemove, M::RoundsAdd, M::LenMismatch, M::BoundRelabelAbove, M::ShiftedDrop, M::ShiftedAdd, M::HidingToggle] {
            let id = format!("{}/check-{:?}", id0, m);
            let x = match mutate(&mut rng, &c, &cs, &o, m, false) { Some(x) => x, None => continue };
            let out = check_scalar(ctx, &id, &x.vks, &c.vk, &x.cs, x.z, &x.vs, &x.p);
            refused(ctx, &id, &format!("check-{:?}", m), out == Outcome3::Accept);
        }
        {
            let mut qs = QuerySet::new();
            let mut ev = Evaluations::new();
            for (cm, v) in cs.iter().zip(&o.values) {
                qs.insert((cm.label.clone(), ("pt".to_string(), z)));
                ev.insert((cm.label.clone(), z), *v);
            }
            let vkey = vks(&c);
            // an unknown label in the query set
            let mut q2 = qs.clone();
            q2.insert(("nosuch".to_string(), ("pt".to_string(), z)));
            let mut e2 = ev.clone();
            e2.insert(("nosuch".to_string(), z), Fr::rand(&mut rng));
            let out = batch_check_scalar(ctx, &mut rng, &format!("{}/batch-unknown-label", id0), &vkey, &c.vk, &cs, &q2, &e2, &[o.ps.clone()]);
            refused(ctx, &format!("{}/batch-unknown-label", id0), "batch-unknown-label", out == Outcome3::Accept);
            // a missing evaluation
            let mut e3 = ev.clone();
            e3.remove(&(cs[0].label.clone(), z));
            let out = batch_check_scalar(ctx, &mut rng, &format!("{}/batch-missing-evaluation", id0), &vkey, &c.vk, &cs, &qs, &e3, &[o.ps.clone()]);
            refused(ctx, &format!("{}/batch-missing-evaluation", id0), "batch-missing-evaluation", out == Outcome3::Accept);
            // proof list of the wrong length
            let out = batch_check_scalar(ctx, &mut rng, &format!("{}/batch-no-proof", id0), &vkey, &c.vk, &cs, &qs, &ev, &[]);
            refused(ctx, &format!("{}/batch-no-proof", id0), "batch-no-proof", out == Outcome3::Accept);
            let out = batch_check_scalar(ctx, &mut rng, &format!("{}/batch-two-proofs", id0), &vkey, &c.vk, &cs, &qs, &ev, &[o.ps.clone(), o.ps.clone()]);
            refused(ctx, &format!("{}/batch-two-proofs", id0), "batch-two-proofs", out == Outcome3::Accept);
            // in-domain: the honest one-label batch is answered and accepted
            let out = batch_check_scalar(ctx, &mut rng, &format!("{}/batch-honest", id0), &vkey, &c.vk, &cs, &qs, &ev, &[o.ps.clone()]);
            if out != Outcome3::Accept {
                ctx.rep.expect_fail(&id0, "ipa/in-domain-refused/batch", &format!("honest one-label batch: {:?}", out), c.replay(&id0, ctx.seed, "batch honest"));
            }
        }
        let _ = outcome;
        counts(ctx, &c);
        ctx.rep.case(&format!("{} out-of-domain requests", c.desc()), Some(format!("ipa-ood/{}/{}", c.s, i % 2)));
    }
    flush(ctx, "C17-ipa");
}
