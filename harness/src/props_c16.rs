//! Property C16 — the public algebraic helpers satisfy their defining identities:
//! (a) `LinearCombination` operators, (b) `evaluate_query_set`, (c) `SuccinctCheckPolynomial`.
//! Every case runs the real library code, checks the identity on the implementation itself
//! (expectation) and compares the outcome with the Lean model (correspondence).
use crate::common::*;
use crate::wire::{self, Req, Val};
use crate::Ctx;
use ark_bls12_381::Fr;
use ark_ff::{Field, One, UniformRand, Zero};
use ark_poly::univariate::DensePolynomial;
use ark_poly_commit::ipa_pc::SuccinctCheckPolynomial;
use ark_poly_commit::{
    evaluate_query_set, LCTerm, LabeledPolynomial, LinearCombination, QuerySet,
};
use std::collections::{BTreeMap, BTreeSet};

/// small pool, so that labels repeat inside one combination (the code must not merge them);
/// contains the empty label, a prefix pair and a multi-byte label
const POOL: [&str; 6] = ["p", "q", "pq", "", "w_0", "\u{3b6}"];

fn coeff(rng: &mut Rng) -> Fr {
    match range(rng, 0, 7) {
        0 => Fr::zero(),
        1 => Fr::one(),
        2 => -Fr::one(),
        3 => Fr::from(range(rng, 2, 9) as u64),
        _ => Fr::rand(rng),
    }
}

fn term(rng: &mut Rng) -> LCTerm {
    if range(rng, 0, 4) == 0 {
        LCTerm::One
    } else {
        LCTerm::PolyLabel(POOL[range(rng, 0, POOL.len() - 1)].to_string())
    }
}

fn terms(rng: &mut Rng, max: usize) -> Vec<(Fr, LCTerm)> {
    let n = range(rng, 0, max);
    (0..n).map(|_| (coeff(rng), term(rng))).collect()
}

/// an operand built through one of the public constructors
fn operand(rng: &mut Rng, name: &str, max: usize) -> LinearCombination<Fr> {
    match range(rng, 0, 3) {
        0 => {
            // `new` with `&str` labels (no constant term possible this way)
            let n = range(rng, 0, max);
            let ts: Vec<(Fr, &str)> = (0..n)
                .map(|_| (coeff(rng), POOL[range(rng, 0, POOL.len() - 1)]))
                .collect();
            LinearCombination::new(name, ts)
        }
        1 => {
            // `empty` + `push`
            let mut lc = LinearCombination::empty(name);
            for t in terms(rng, max) {
                lc.push(t);
            }
            lc
        }
        _ => LinearCombination::new(name, terms(rng, max)),
    }
}

fn w_term_label(t: &LCTerm) -> Val {
    match t {
        LCTerm::One => Val::None,
        LCTerm::PolyLabel(l) => Val::Some(Box::new(wire::label(l))),
    }
}
fn w_terms(ts: &[(Fr, LCTerm)]) -> Val {
    Val::L(ts
        .iter()
        .map(|(c, t)| Val::L(vec![wire::fe(c), w_term_label(t)]))
        .collect())
}

/// the meaning of a term list under an assignment (`One ↦ 1`), computed by the harness
fn value_of(ts: &[(Fr, LCTerm)], sigma: &BTreeMap<String, Fr>) -> Fr {
    let mut acc = Fr::zero();
    for (c, t) in ts {
        let v = match t {
            LCTerm::One => Fr::one(),
            LCTerm::PolyLabel(l) => *sigma.get(l).unwrap_or(&Fr::zero()),
        };
        acc += *c * v;
    }
    acc
}

fn show_terms(ts: &[(Fr, LCTerm)]) -> String {
    ts.iter()
        .map(|(c, t)| match t {
            LCTerm::One => format!("{}*1", wire::fe(c)),
            LCTerm::PolyLabel(l) => format!("{}*{:?}", wire::fe(c), l),
        })
        .collect::<Vec<_>>()
        .join(" + ")
}

fn lc_cases(ctx: &mut Ctx) {
    let n = ctx.n(300, 3000);
    for i in 0..n {
        let id = format!("C16/lc/{}", i);
        if !ctx.selected(&id) {
            continue;
        }
        let mut rng = rng_for(ctx.seed, "C16/lc", i as u64);
        let sigma: BTreeMap<String, Fr> =
            POOL.iter().map(|l| (l.to_string(), Fr::rand(&mut rng))).collect();
        let mut a = operand(&mut rng, "acc", 3);
        let init = a.terms.clone();
        let n_ops = range(&mut rng, 0, 12);
        let mut w_ops: Vec<Val> = vec![];
        let mut trace: Vec<String> = vec![format!("init: {}", show_terms(&init))];
        let mut expected = value_of(&a.terms, &sigma);
        let mut kinds = BTreeSet::new();
        let mut bad: Option<String> = None;
        for step in 0..n_ops {
            let before_terms = a.terms.clone();
            let before = value_of(&a.terms, &sigma);
            let kind = range(&mut rng, 0, 8);
            kinds.insert(kind);
            let c = coeff(&mut rng);
            // the operand: a fresh combination, or (kind 8) a snapshot of the accumulator itself
            let b = if kind == 8 { a.clone() } else { operand(&mut rng, "b", 4) };
            let bv = value_of(&b.terms, &sigma);
            let (what, want, w) = match kind {
                0 => {
                    a += (c, &b);
                    ("+= (c, lc)", before + c * bv, Val::L(vec![wire::nat(0), wire::fe(&c), w_terms(&b.terms)]))
                }
                1 => {
                    a -= (c, &b);
                    ("-= (c, lc)", before - c * bv, Val::L(vec![wire::nat(1), wire::fe(&c), w_terms(&b.terms)]))
                }
                2 => {
                    a += &b;
                    ("+= lc", before + bv, Val::L(vec![wire::nat(2), w_terms(&b.terms)]))
                }
                3 => {
                    a -= &b;
                    ("-= lc", before - bv, Val::L(vec![wire::nat(3), w_terms(&b.terms)]))
                }
                4 => {
                    a += c;
                    ("+= const", before + c, Val::L(vec![wire::nat(4), wire::fe(&c)]))
                }
                5 => {
                    a -= c;
                    ("-= const", before - c, Val::L(vec![wire::nat(5), wire::fe(&c)]))
                }
                6 => {
                    a *= c;
                    ("*= const", before * c, Val::L(vec![wire::nat(6), wire::fe(&c)]))
                }
                7 => {
                    let t = term(&mut rng);
                    let tv = value_of(&[(Fr::one(), t.clone())], &sigma);
                    a.push((c, t.clone()));
                    ("push", before + c * tv, Val::L(vec![wire::nat(7), wire::fe(&c), w_term_label(&t)]))
                }
                _ => {
                    // self-referential use through a clone: a -= (c, &a.clone())
                    a -= (c, &b);
                    ("-= (c, self)", before - c * bv, Val::L(vec![wire::nat(1), wire::fe(&c), w_terms(&b.terms)]))
                }
            };
            ctx.rep.count(&format!("lc/op {}", what));
            w_ops.push(w);
            trace.push(format!(
                "step {}: {} c={} operand=[{}]",
                step,
                what,
                wire::fe(&c),
                show_terms(&b.terms)
            ));
            let after = value_of(&a.terms, &sigma);
            if after != want && bad.is_none() {
                bad = Some(format!(
                    "step {} `{}`: value {} but operands give {} (before: [{}])",
                    step,
                    what,
                    wire::fe(&after),
                    wire::fe(&want),
                    show_terms(&before_terms)
                ));
            }
            // nothing but `*=` may touch the existing terms
            if kind != 6
                && (a.terms.len() < before_terms.len() || a.terms[..before_terms.len()] != before_terms[..])
                && bad.is_none()
            {
                bad = Some(format!("step {} `{}` changed existing terms", step, what));
            }
            expected = want;
        }
        let fin = value_of(&a.terms, &sigma);
        if a.label() != "acc" || a.is_empty() != a.terms.is_empty() || a.len() != a.terms.len() {
            bad.get_or_insert(format!("label / is_empty / deref inconsistent: {:?}", a.label()));
        }
        let replay = format!(
            "# LinearCombination operators\n# case {}\n# sigma: {}\n# {}\n# result: {}\n",
            id,
            sigma
                .iter()
                .map(|(l, v)| format!("{:?}={}", l, wire::fe(v)))
                .collect::<Vec<_>>()
                .join(" "),
            trace.join("\n# "),
            show_terms(&a.terms)
        );
        if let Some(b) = bad {
            ctx.rep.expect_fail(&id, "lc/operator-changes-meaning", &b, replay.clone());
        }
        if fin != expected {
            ctx.rep.expect_fail(
                &id,
                "lc/sequence-changes-meaning",
                "value of the result differs from the same arithmetic on the operands' values",
                replay,
            );
        }
        let w_sigma = Val::L(
            sigma
                .iter()
                .map(|(l, v)| Val::L(vec![wire::label(l), wire::fe(v)]))
                .collect(),
        );
        let coeffs: Vec<Fr> = a.terms.iter().map(|(c, _)| *c).collect();
        let labels = Val::L(a.terms.iter().map(|(_, t)| w_term_label(t)).collect());
        ctx.ses.ask(
            &id,
            Req::new("c16.lc")
                .arg("init", w_terms(&init))
                .arg("ops", Val::L(w_ops))
                .arg("sigma", w_sigma),
            ImplOutcome::Ok(vec![
                ("coeffs".into(), Expect::Fes(coeffs)),
                ("labels".into(), Expect::Raw(labels)),
                ("value".into(), Expect::Fe(fin)),
                ("spec".into(), Expect::Fe(expected)),
            ]),
        );
        let mut labels_seen = BTreeSet::new();
        let mut repeated = false;
        for (_, t) in &a.terms {
            repeated |= !labels_seen.insert(t.clone());
        }
        ctx.rep.count(if repeated { "lc/repeated-label" } else { "lc/no-repeated-label" });
        ctx.rep.case(
            &format!("lc ops={} terms={} kinds={:?}", n_ops, a.terms.len(), kinds),
            if n_ops >= 2 {
                Some(format!("lc/{}/{:?}/{}", n_ops, kinds, a.terms.len()))
            } else {
                None
            },
        );
    }
    ctx.flush_model("C16-lc");
}

fn horner(cs: &[Fr], z: Fr) -> Fr {
    let mut acc = Fr::zero();
    for c in cs.iter().rev() {
        acc = acc * z + *c;
    }
    acc
}

fn point(rng: &mut Rng) -> Fr {
    match range(rng, 0, 5) {
        0 => Fr::zero(),
        1 => Fr::one(),
        2 => -Fr::one(),
        _ => Fr::rand(rng),
    }
}

fn qs_cases(ctx: &mut Ctx) {
    let n = ctx.n(150, 1500);
    for i in 0..n {
        let id = format!("C16/qs/{}", i);
        if !ctx.selected(&id) {
            continue;
        }
        let mut rng = rng_for(ctx.seed, "C16/qs", i as u64);
        // polynomials: labels from the pool; now and then a label is used twice
        let np = range(&mut rng, 1, 5);
        let dup = range(&mut rng, 0, 5) == 0;
        let mut polys: Vec<LabeledPolynomial<Fr, DensePolynomial<Fr>>> = vec![];
        let mut used: Vec<usize> = vec![];
        for _ in 0..np {
            let li = loop {
                let li = range(&mut rng, 0, POOL.len() - 1);
                if dup || !used.contains(&li) {
                    break li;
                }
            };
            used.push(li);
            let d = range(&mut rng, 0, 6);
            let cs: Vec<Fr> = (0..=d).map(|_| coeff(&mut rng)).collect();
            polys.push(LabeledPolynomial::new(
                POOL[li].to_string(),
                DensePolynomial { coeffs: cs },
                None,
                None,
            ));
        }
        // shared points with point labels; the same point may carry two labels
        let npt = range(&mut rng, 1, 4);
        let pts: Vec<(String, Fr)> = (0..npt)
            .map(|j| (format!("z{}", j % 3), point(&mut rng)))
            .collect();
        let unknown = range(&mut rng, 0, 9) == 0;
        let mut qs: QuerySet<Fr> = BTreeSet::new();
        let nq = range(&mut rng, 0, 8);
        for _ in 0..nq {
            let l = POOL[used[range(&mut rng, 0, used.len() - 1)]].to_string();
            let (pl, pt) = pts[range(&mut rng, 0, pts.len() - 1)].clone();
            qs.insert((l, (pl, pt)));
        }
        if unknown {
            let (pl, pt) = pts[0].clone();
            qs.insert(("missing".to_string(), (pl, pt)));
        }
        let out = guarded(|| evaluate_query_set(polys.iter(), &qs));
        // the polynomial registered under a label: the last one (BTreeMap::from_iter)
        let registered: BTreeMap<String, &LabeledPolynomial<Fr, DensePolynomial<Fr>>> =
            polys.iter().map(|p| (p.label().clone(), p)).collect();
        let w_polys = Val::L(
            polys
                .iter()
                .map(|p| Val::L(vec![wire::label(p.label()), wire::fes(&p.polynomial().coeffs)]))
                .collect(),
        );
        let w_qs = Val::L(
            qs.iter()
                .map(|(l, (pl, pt))| Val::L(vec![wire::label(l), wire::label(pl), wire::fe(pt)]))
                .collect(),
        );
        let replay = format!(
            "# evaluate_query_set\n# case {}\nc16.qs polys={} qs={}\n",
            id, w_polys, w_qs
        );
        let outcome = match &out {
            Err(e) => {
                if !unknown {
                    ctx.rep.expect_fail(
                        &id,
                        "qs/panic-on-known-labels",
                        &format!("evaluate_query_set panicked although every label is known: {}", e),
                        replay.clone(),
                    );
                }
                ImplOutcome::Refuse("abort".into())
            }
            Ok(evals) => {
                if unknown {
                    ctx.rep.expect_fail(
                        &id,
                        "qs/unknown-label-accepted",
                        "evaluate_query_set returned although a queried label has no polynomial",
                        replay.clone(),
                    );
                }
                let keys: BTreeSet<(String, Fr)> =
                    qs.iter().map(|(l, (_, pt))| (l.clone(), *pt)).collect();
                let got: BTreeSet<(String, Fr)> = evals.keys().cloned().collect();
                if keys != got {
                    ctx.rep.expect_fail(
                        &id,
                        "qs/keys-differ",
                        &format!("result has {} keys, query set has {} distinct (label, point)", got.len(), keys.len()),
                        replay.clone(),
                    );
                }
                for (l, (_, pt)) in &qs {
                    let direct = registered.get(l).map(|p| horner(&p.polynomial().coeffs, *pt));
                    if evals.get(&(l.clone(), *pt)).cloned() != direct {
                        ctx.rep.expect_fail(
                            &id,
                            "qs/wrong-evaluation",
                            &format!("entry ({:?}, {}) is not the polynomial's evaluation", l, wire::fe(pt)),
                            replay.clone(),
                        );
                        break;
                    }
                }
                ImplOutcome::Ok(vec![
                    (
                        "labels".into(),
                        Expect::Raw(Val::L(evals.keys().map(|(l, _)| wire::label(l)).collect())),
                    ),
                    ("points".into(), Expect::Fes(evals.keys().map(|(_, p)| *p).collect())),
                    ("vals".into(), Expect::Fes(evals.values().cloned().collect())),
                ])
            }
        };
        ctx.ses.ask(
            &id,
            Req::new("c16.qs").arg("polys", w_polys).arg("qs", w_qs),
            outcome,
        );
        ctx.rep.count(if unknown { "qs/unknown-label" } else { "qs/known-labels" });
        if dup {
            ctx.rep.count("qs/duplicate-poly-labels-allowed");
        }
        ctx.rep.case(
            &format!("query set polys={} points={} queries={} unknown={}", np, npt, qs.len(), unknown),
            if qs.len() >= 2 {
                Some(format!("qs/{}/{}/{}/{}", np, npt, qs.len(), unknown))
            } else {
                None
            },
        );
    }
    ctx.flush_model("C16-qs");
}

fn succinct_cases(ctx: &mut Ctx) {
    let per_len = ctx.n(12, 120);
    for k in 0..=10usize {
        for j in 0..per_len {
            let id = format!("C16/succinct/{}/{}", k, j);
            if !ctx.selected(&id) {
                continue;
            }
            let mut rng = rng_for(ctx.seed, "C16/succinct", (k * 1000 + j) as u64);
            let special = j % 4 == 0;
            let us: Vec<Fr> = (0..k)
                .map(|_| if special { coeff(&mut rng) } else { Fr::rand(&mut rng) })
                .collect();
            let z = if j % 3 == 0 { point(&mut rng) } else { Fr::rand(&mut rng) };
            let scp = SuccinctCheckPolynomial(us.clone());
            let coeffs = scp.compute_coeffs();
            let v = scp.evaluate(z);
            let h = horner(&coeffs, z);
            // the product form, written independently: u_i pairs with z^(2^(k-i)), i = 1..k
            let mut prod = Fr::one();
            for (idx, u) in us.iter().enumerate() {
                let mut zp = z;
                for _ in 0..(k - 1 - idx) {
                    zp = zp.square();
                }
                prod *= Fr::one() + *u * zp;
            }
            let replay = format!(
                "# SuccinctCheckPolynomial\n# case {}\nc16.succinct us={} z={}\n# implementation: len={} evaluate={} horner={}\n",
                id,
                wire::fes(&us),
                wire::fe(&z),
                coeffs.len(),
                wire::fe(&v),
                wire::fe(&h)
            );
            if coeffs.len() != 1usize << k {
                ctx.rep.expect_fail(
                    &id,
                    "succinct/length",
                    &format!("compute_coeffs returned {} coefficients for {} challenges", coeffs.len(), k),
                    replay.clone(),
                );
            }
            if v != h {
                ctx.rep.expect_fail(
                    &id,
                    "succinct/evaluate-differs-from-coeffs",
                    "evaluate(z) != Horner(compute_coeffs(), z)",
                    replay.clone(),
                );
            }
            if v != prod {
                ctx.rep.expect_fail(
                    &id,
                    "succinct/product-form",
                    "evaluate(z) != prod (1 + u_i z^(2^(k-i)))",
                    replay.clone(),
                );
            }
            ctx.ses.ask(
                &id,
                Req::new("c16.succinct").arg("us", wire::fes(&us)).arg("z", wire::fe(&z)),
                ImplOutcome::Ok(vec![
                    ("coeffs".into(), Expect::Fes(coeffs.clone())),
                    ("len".into(), Expect::Nat(coeffs.len())),
                    ("value".into(), Expect::Fe(v)),
                    ("horner".into(), Expect::Fe(h)),
                ]),
            );
            ctx.rep.count(&format!("succinct/k={}", k));
            ctx.rep.case(
                &format!("succinct k={} special={} len={}", k, special, coeffs.len()),
                if k >= 1 { Some(format!("succinct/{}/{}", k, j)) } else { None },
            );
        }
    }
    // long challenge lists (the expanded vector has 2^k entries and cannot be materialised): evaluate against
    // the defining product form, computed here by repeated squaring
    for k in [11usize, 16, 24, 31, 32, 33, 40, 48, 63, 64] {
        for j in 0..ctx.n(2, 8) {
            let id = format!("C16/succinct-long/{}/{}", k, j);
            if !ctx.selected(&id) {
                continue;
            }
            let mut rng = rng_for(ctx.seed, "C16/succinct-long", (k * 1000 + j) as u64);
            let us: Vec<Fr> = (0..k).map(|_| Fr::rand(&mut rng)).collect();
            let z = Fr::rand(&mut rng);
            let v = guarded(|| SuccinctCheckPolynomial(us.clone()).evaluate(z));
            let mut prod = Fr::one();
            for (idx, u) in us.iter().enumerate() {
                let mut zp = z;
                for _ in 0..(k - 1 - idx) {
                    zp = zp.square();
                }
                prod *= Fr::one() + *u * zp;
            }
            if v.as_ref().ok() != Some(&prod) {
                ctx.rep.expect_fail(&id, "succinct/product-form",
                    &format!("evaluate(z) != prod (1 + u_i z^(2^(k-i))) for {} challenges ({})", k, if v.is_err() { "aborted" } else { "different value" }),
                    format!("# SuccinctCheckPolynomial with {} challenges\n# case {}\nc16.succinct-long us={} z={}\n", k, id, wire::fes(&us), wire::fe(&z)));
            }
            ctx.rep.count(&format!("succinct-long/k={}", k));
            ctx.rep.case(&format!("succinct-long k={}", k), Some(format!("succinct-long/{}/{}", k, j)));
        }
    }
    ctx.flush_model("C16-succinct");
}

pub fn run(ctx: &mut Ctx) {
    lc_cases(ctx);
    qs_cases(ctx);
    succinct_cases(ctx);
}
