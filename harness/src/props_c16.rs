//! Property C16 — correspondence / expectation run (see DESIGN.md §5, C16).
use crate::Ctx;

pub fn run(ctx: &mut Ctx) {
    let _ = ctx;
}
