//! Property C07 — correspondence / expectation run (see DESIGN.md §5, C07).
use crate::Ctx;

pub fn run(ctx: &mut Ctx) {
    let _ = ctx;
}
