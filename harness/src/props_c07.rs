//! Property C07 — hiding: blinding comes from the caller's RNG with h+2 coefficients.
use crate::common::*;
use crate::generic;
use crate::kzg::*;
use crate::wire::{self, Req};
use crate::Ctx;
use ark_bls12_381::Fr;
use ark_ff::{UniformRand, Zero};
use ark_poly::Polynomial;

pub fn run(ctx: &mut Ctx) {
    kzg10(ctx);
    generic::c07_all(ctx);
    bounded_parts_independent(ctx);
    blinding_covers_the_key(ctx);
    ctx.flush_model("C07");
}

fn kzg10(ctx: &mut Ctx) {
    let n = ctx.n(60, 800);
    for i in 0..n {
        let id = format!("C07/kzg10/{}", i);
        if !ctx.selected(&id) {
            continue;
        }
        let mut rng = rng_for(ctx.seed, "C07/kzg10", i as u64);
        let max_degree = range(&mut rng, 2, 24);
        let trap = Trap::random(&mut rng, max_degree);
        let pp = trap.params(false);
        let supported = range(&mut rng, 2, max_degree);
        let (powers, _vk) = trim(&pp, supported);
        let (p, kind) = gen_poly(&mut rng, supported);
        let h = range(&mut rng, 0, supported - 1);
        // replay: the draws the committer will take from this RNG state
        let mut replay = rng.clone();
        let draws: Vec<Fr> = (0..h + 6).map(|_| Fr::rand(&mut replay)).collect();
        let mut crng = CountRng::new(rng.clone());
        let res = guarded(|| Kzg::commit(&powers, &p, Some(h), Some(&mut crng)));
        let (comm, rand) = match res {
            Ok(Ok(x)) => x,
            other => {
                ctx.rep.expect_fail(&id, "kzg10/hiding-commit-refused",
                    &format!("in-domain hiding commit refused: {:?}", other.map(|r| r.map(|_| ()).map_err(|e| err_kind(&e)))),
                    format!("# scheme: kzg10\n# case {}\n# supported={} h={}\n", id, supported, h));
                continue;
            }
        };
        let blind = rand.blinding_polynomial.coeffs.clone();
        // structural identities on the implementation itself
        let expect_c = trap.g * p.evaluate(&trap.beta) + trap.gamma * rand.blinding_polynomial.evaluate(&trap.beta);
        let mut ok = g1(expect_c) == comm.0;
        ok &= blind.len() == h + 2 && !blind.last().map(|x| x.is_zero()).unwrap_or(true);
        ok &= blind.len() >= h + 1 && blind[..h + 1] == draws[..h + 1];
        if !ok {
            ctx.rep.expect_fail(&id, "kzg10/blinding-structure",
                "commitment != plain + gamma*blind(beta), or blinding polynomial is not h+2 caller-RNG draws",
                format!("# scheme: kzg10\n# case {}\n# supported={} h={} blind={}\n# draws={}\n", id, supported, h, wire::fes(&blind), wire::fes(&draws)));
        }
        // model: same draws -> same blinding polynomial and commitment
        let pg = trap.pg()[..=supported].to_vec();
        let pgg = trap.pgg()[..=supported].to_vec();
        let req = Req::new("kzg.commit")
            .arg("pg", wire::fes(&pg))
            .arg("pgg", wire::fes(&pgg))
            .arg("p", wire::fes(&p.coeffs))
            .arg("hb", wire::opt_nat(Some(h)))
            .arg("rng", wire::boolean(true))
            .arg("draws", wire::fes(&draws));
        ctx.ses.ask(&id, req, ImplOutcome::Ok(vec![
            ("c".into(), Expect::G1(comm.0)),
            ("blind".into(), Expect::Fes(blind.clone())),
            ("used".into(), Expect::Nat(h + 2)),
        ]));
        // same seed -> same commitment; different seed -> different commitment
        let mut r1 = rng.clone();
        let (c_same, _) = Kzg::commit(&powers, &p, Some(h), Some(&mut r1)).unwrap();
        let mut r2 = rng_for(ctx.seed ^ 0xabcdef, "C07/kzg10-other", i as u64);
        let (c_other, rand_other) = Kzg::commit(&powers, &p, Some(h), Some(&mut r2)).unwrap();
        if c_same != comm {
            ctx.rep.expect_fail(&id, "kzg10/same-seed-differs", "same RNG seed gave a different commitment",
                format!("# scheme: kzg10\n# case {}\n", id));
        }
        if c_other == comm {
            ctx.rep.expect_fail(&id, "kzg10/other-seed-equal", "independent RNG streams gave the same commitment",
                format!("# scheme: kzg10\n# case {}\n", id));
        }
        // proofs differ too, and random_v is the blinding polynomial's value at the point
        let z = Fr::rand(&mut rng);
        let pr1 = Kzg::open(&powers, &p, z, &rand).unwrap();
        let pr2 = Kzg::open(&powers, &p, z, &rand_other).unwrap();
        if pr1.random_v != Some(rand.blinding_polynomial.evaluate(&z)) || pr1 == pr2 {
            ctx.rep.expect_fail(&id, "kzg10/proof-blinding", "random_v != blind(z) or proofs of independent streams coincide",
                format!("# scheme: kzg10\n# case {}\n", id));
        }
        // no RNG -> refused
        let no = guarded(|| Kzg::commit(&powers, &p, Some(h), None));
        if matches!(no, Ok(Ok(_))) {
            ctx.rep.expect_fail(&id, "kzg10/missing-rng-answered", "hiding commit without RNG returned a commitment",
                format!("# scheme: kzg10\n# case {}\n", id));
        }
        let req = Req::new("kzg.commit")
            .arg("pg", wire::fes(&pg)).arg("pgg", wire::fes(&pgg)).arg("p", wire::fes(&p.coeffs))
            .arg("hb", wire::opt_nat(Some(h))).arg("rng", wire::boolean(false)).arg("draws", wire::fes(&draws));
        ctx.ses.ask(&id, req, match no { Ok(Ok(_)) => ImplOutcome::Ok(vec![]), Ok(Err(e)) => ImplOutcome::Refuse(err_kind(&e)), Err(a) => ImplOutcome::Refuse(a) });
        // no hiding bound: deterministic, empty state, RNG untouched
        let mut crng2 = CountRng::new(rng.clone());
        let (c_plain, r_plain) = Kzg::commit(&powers, &p, None, Some(&mut crng2)).unwrap();
        if crng2.bytes != 0 || !r_plain.blinding_polynomial.is_zero() || g1(trap.g * p.evaluate(&trap.beta)) != c_plain.0 {
            ctx.rep.expect_fail(&id, "kzg10/nonhiding-not-deterministic", "non-hiding commit used the RNG or carries blinding",
                format!("# scheme: kzg10\n# case {}\n", id));
        }
        ctx.rep.count(&format!("kzg10/h-{}", if h == 0 { "0".to_string() } else if h < 4 { "1-3".into() } else { "4+".into() }));
        ctx.rep.case(&format!("kzg10 hiding s={} h={} poly={} rng-bytes={}", supported, h, kind, crng.bytes),
            Some(format!("kzg10/{}/{}", supported, h)));
    }
}

/// A hiding commitment WITH a degree bound consists of two blinded commitments (plain and shifted).  Each must
/// carry its own fresh blinding: the two blinding values of the state differ, the difference `comm − shifted`
/// changes with the RNG stream (if both parts shared their blinding it would be a deterministic function of the
/// polynomial), and the committer draws more from the RNG than for the same polynomial without bound.
/// MarlinKZG10 and the inner-product argument (the schemes with shifted commitments).
fn bounded_parts_independent(ctx: &mut Ctx) {
    use ark_ec::{AffineRepr, CurveGroup};
    use ark_poly_commit::{LabeledPolynomial, PolynomialCommitment};
    type G1 = ark_bls12_381::G1Projective;
    fn go<PC, FD, FS>(ctx: &mut Ctx, name: &str, diff: FD, same_blinding: FS)
    where
        PC: PolynomialCommitment<Fr, generic::UniPoly>,
        FD: Fn(&PC::Commitment) -> Option<G1>,
        FS: Fn(&PC::CommitmentState) -> Option<bool>,
    {
        for i in 0..ctx.n(6, 40) {
            let id = format!("C07/bounded-parts/{}/{}", name, i);
            if !ctx.selected(&id) {
                continue;
            }
            let mut rng = rng_for(ctx.seed, "C07/bounded-parts", i as u64);
            let supported = range(&mut rng, 4, 16);
            let bound = range(&mut rng, 2, supported);
            let deg = range(&mut rng, 1, bound);
            let h = range(&mut rng, 1, 2.min(bound));
            let r = guarded(|| -> Result<(), String> {
                let pp = PC::setup(supported, None, &mut rng).map_err(|e| format!("setup {:?}", e))?;
                let (ck, _vk) = PC::trim(&pp, supported, h, Some(&[bound])).map_err(|e| format!("trim {:?}", e))?;
                let poly = <generic::UniPoly as ark_poly::DenseUVPolynomial<Fr>>::rand(deg, &mut rng);
                let lb = LabeledPolynomial::new("p".to_string(), poly.clone(), Some(bound), Some(h));
                let lu = LabeledPolynomial::new("p".to_string(), poly.clone(), None, Some(h));
                let mut ra = CountRng::new(rng_for(ctx.seed ^ 0xa, &id, 0));
                let mut rb = CountRng::new(rng_for(ctx.seed ^ 0xb, &id, 1));
                let mut ru = CountRng::new(rng_for(ctx.seed ^ 0xa, &id, 0));
                let (ca, sa) = PC::commit(&ck, [&lb], Some(&mut ra)).map_err(|e| format!("commit {:?}", e))?;
                let (cb, _sb) = PC::commit(&ck, [&lb], Some(&mut rb)).map_err(|e| format!("commit {:?}", e))?;
                let (_cu, _su) = PC::commit(&ck, [&lu], Some(&mut ru)).map_err(|e| format!("commit {:?}", e))?;
                let txt = format!("# scheme: {}\n# case: {}\n# seed: {}\n# supported={} bound={} degree={} hiding={}\n# rerun: .build/cargo/debug/pcv-harness C07 --seed {} --only {}\n",
                    name, id, ctx.seed, supported, bound, deg, h, ctx.seed, id);
                match (diff(ca[0].commitment()), diff(cb[0].commitment())) {
                    (Some(da), Some(db)) => {
                        if da == db {
                            ctx.rep.expect_fail(&id, &format!("{}/bounded-parts-share-blinding/difference-seed-independent", name),
                                "comm - shifted_comm of a hiding bounded commitment is the same under independent RNG streams: the two parts carry the same blinding", txt.clone());
                        }
                    }
                    _ => ctx.rep.expect_fail(&id, &format!("{}/bounded-commitment-without-shifted-part", name),
                        "a commitment made under a degree bound has no shifted part", txt.clone()),
                }
                if same_blinding(&sa[0]) != Some(false) {
                    ctx.rep.expect_fail(&id, &format!("{}/bounded-parts-share-blinding/state", name),
                        "the commitment state of a hiding bounded commitment has equal (or no) blinding for its two parts", txt.clone());
                }
                if ra.bytes < ru.bytes + 31 {
                    ctx.rep.expect_fail(&id, &format!("{}/bounded-parts-share-blinding/rng-draws", name),
                        &format!("the bounded hiding commit drew {} bytes from the RNG, the unbounded one {}: no fresh randomness for the shifted part", ra.bytes, ru.bytes), txt.clone());
                }
                ctx.rep.case(&format!("{} bounded parts supported={} bound={} deg={} h={} bytes {}/{}", name, supported, bound, deg, h, ra.bytes, ru.bytes),
                    Some(format!("bounded-parts/{}/{}/{}", name, bound, h)));
                Ok(())
            });
            if let Ok(Err(e)) | Err(e) = r {
                ctx.rep.expect_fail(&id, &format!("{}/hiding-commit-refused", name), &format!("in-domain bounded hiding commit refused: {}", e),
                    format!("# scheme: {}\n# case: {}\n# seed: {}\n", name, id, ctx.seed));
            }
        }
    }
    go::<generic::MarlinPC, _, _>(ctx, "marlin",
        |c| c.shifted_comm.as_ref().map(|s| c.comm.0.into_group() - s.0.into_group()),
        |st| st.shifted_rand.as_ref().map(|s| s.blinding_polynomial == st.rand.blinding_polynomial));
    go::<generic::IpaPC, _, _>(ctx, "ipa",
        |c| c.shifted_comm.as_ref().map(|s| c.comm.into_group() - s.into_group()),
        |st| st.shifted_rand.as_ref().map(|s| *s == st.rand));
    let _ = G1::default().into_affine();
}

/// "Sufficient randomness": the blinding must cover what the KEY can reveal, not just the polynomial at hand.
/// IPA `open` of a hiding polynomial draws a fresh hiding polynomial over all `d+1` coefficient positions of the
/// key (plus its own blinder), however low the degree of the opened polynomial; MarlinPST13 `commit` draws
/// `1 + n·(h+1)` blinding coefficients for the key's `n` variables, however few variables the polynomial declares.
fn blinding_covers_the_key(ctx: &mut Ctx) {
    use ark_poly::multivariate::{SparsePolynomial, SparseTerm, Term};
    use ark_poly::DenseMVPolynomial;
    use ark_poly_commit::{LabeledPolynomial, PolynomialCommitment};
    for i in 0..ctx.n(4, 16) {
        let id = format!("C07/blinding-covers-key/ipa/{}", i);
        if !ctx.selected(&id) {
            continue;
        }
        let mut rng = rng_for(ctx.seed, "C07/blinding-covers-key/ipa", i as u64);
        let d = [7usize, 15, 3, 31][i % 4];
        let deg = [0usize, 2, 1, 0][i % 4].min(d);
        let r = guarded(|| -> Result<u64, String> {
            let pp = generic::IpaPC::setup(d, None, &mut rng).map_err(|e| format!("{:?}", e))?;
            let (ck, _vk) = generic::IpaPC::trim(&pp, d, 1, None).map_err(|e| format!("{:?}", e))?;
            let p = <generic::UniPoly as ark_poly::DenseUVPolynomial<Fr>>::rand(deg, &mut rng);
            let lp = LabeledPolynomial::new("p".to_string(), p, None, Some(1));
            let (c, st) = generic::IpaPC::commit(&ck, [&lp], Some(&mut rng)).map_err(|e| format!("{:?}", e))?;
            let z = Fr::rand(&mut rng);
            let mut cr = CountRng::new(rng.clone());
            let mut sp = generic::fresh_sponge();
            generic::IpaPC::open(&ck, [&lp], &c, &z, &mut sp, &st, Some(&mut cr)).map_err(|e| format!("{:?}", e))?;
            Ok(cr.bytes)
        });
        match r {
            Ok(Ok(bytes)) => {
                let need = ((d + 2) * 31) as u64;
                if bytes < need {
                    ctx.rep.expect_fail(&id, "ipa/open-blinding-shorter-than-key",
                        &format!("open of a hiding polynomial of degree {} under a key of degree {} drew {} bytes from the RNG; a hiding polynomial over all {} positions plus its blinder needs at least {}", deg, d, bytes, d + 1, need),
                        format!("# scheme: ipa\n# case: {}\n# seed: {}\n# key degree {}, polynomial degree {}, hiding bound 1\n# rerun: .build/cargo/debug/pcv-harness C07 --seed {} --only {}\n", id, ctx.seed, d, deg, ctx.seed, id));
                }
                ctx.rep.case(&format!("ipa open blinding: key {} poly deg {} rng bytes {}", d, deg, bytes), Some(format!("blinding-covers-key/ipa/{}/{}", d, deg)));
            }
            Ok(Err(e)) | Err(e) => ctx.rep.expect_fail(&id, "ipa/hiding-open-refused", &format!("in-domain hiding open refused: {}", e), format!("# case: {}\n", id)),
        }
    }
    for i in 0..ctx.n(4, 16) {
        let id = format!("C07/blinding-covers-key/pst13/{}", i);
        if !ctx.selected(&id) {
            continue;
        }
        let mut rng = rng_for(ctx.seed, "C07/blinding-covers-key/pst13", i as u64);
        let nv = 2 + i % 3;
        let h = 1 + i % 3;
        let declared = [0usize, 1, 0, nv - 1][i % 4];
        let r = guarded(|| -> Result<u64, String> {
            let pp = generic::Pst13PC::setup(3, Some(nv), &mut rng).map_err(|e| format!("{:?}", e))?;
            let (ck, _vk) = generic::Pst13PC::trim(&pp, 3, h, None).map_err(|e| format!("{:?}", e))?;
            // a constant, declared over `declared` variables
            let p: generic::MvPoly = SparsePolynomial::from_coefficients_vec(declared, vec![(Fr::rand(&mut rng), SparseTerm::new(vec![]))]);
            let lp = LabeledPolynomial::new("p".to_string(), p, None, Some(h));
            let mut cr = CountRng::new(rng.clone());
            generic::Pst13PC::commit(&ck, [&lp], Some(&mut cr)).map_err(|e| format!("{:?}", e))?;
            Ok(cr.bytes)
        });
        match r {
            Ok(Ok(bytes)) => {
                let need = ((1 + nv * (h + 1)) * 31) as u64;
                if bytes < need {
                    ctx.rep.expect_fail(&id, "pst13/commit-blinding-shorter-than-key",
                        &format!("commit of a hiding constant declared over {} variables under a key of {} variables (hiding bound {}) drew {} bytes; 1 + n(h+1) = {} blinding coefficients need at least {}", declared, nv, h, bytes, 1 + nv * (h + 1), need),
                        format!("# scheme: pst13\n# case: {}\n# seed: {}\n# rerun: .build/cargo/debug/pcv-harness C07 --seed {} --only {}\n", id, ctx.seed, ctx.seed, id));
                }
                ctx.rep.case(&format!("pst13 commit blinding: key nv {} declared {} h {} rng bytes {}", nv, declared, h, bytes), Some(format!("blinding-covers-key/pst13/{}/{}/{}", nv, declared, h)));
            }
            // a polynomial declared over fewer variables may be refused by a scheme; it is an answer either way
            Ok(Err(e)) | Err(e) => ctx.rep.case(&format!("pst13 constant declared over {} variables refused: {}", declared, e.chars().take(40).collect::<String>()), Some("blinding-covers-key/pst13/refused".into())),
        }
    }
}
