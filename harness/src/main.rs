//! pcv-harness: correspondence and expectation runs for the properties C01..C19 (DESIGN §2.4).
mod common;
mod generic;
mod kzg;
mod marlin;
mod props_marlin;
mod props_sonic;
mod props_ipa;
mod props_hyrax;
mod props_lincode;
mod props_mlpc;
mod props_default;
mod props_attacks;
mod props_kzg;
mod props_c04;
mod props_c06;
mod props_c07;
mod props_c08;
mod props_c09;
mod props_c11;
mod props_c12;
mod props_c13;
mod props_c14;
mod props_c15;
mod props_c16;
mod props_c17;
mod props_c18;
mod props_c19;
mod wire;

use common::*;

/// location of the most recent panic (library panics caught by `guarded` included)
pub static LAST_PANIC: std::sync::Mutex<String> = std::sync::Mutex::new(String::new());
/// id of the case most recently started (`Ctx::selected`)
pub static LAST_CASE: std::sync::Mutex<String> = std::sync::Mutex::new(String::new());

pub struct Ctx {
    pub rep: Report,
    pub ses: Session,
    pub seed: u64,
    pub thorough: bool,
    pub drv: String,
    pub workdir: String,
    pub only: Option<String>,
    /// C18: this process is a child that prints `digest <case> <sha256>` lines and exits
    pub child: bool,
    /// C18: path of the harness binary built without the `parallel` feature (if built)
    pub nopar_bin: Option<String>,
}

impl Ctx {
    /// number of cases: `q` for the quick tier, `t` for thorough
    pub fn n(&self, q: usize, t: usize) -> usize {
        if self.thorough {
            t
        } else {
            q
        }
    }
    pub fn selected(&self, id: &str) -> bool {
        if let Ok(mut g) = LAST_CASE.lock() {
            *g = id.to_string();
        }
        match &self.only {
            None => true,
            Some(o) => id.starts_with(o.as_str()) || o.starts_with(id),
        }
    }
    pub fn flush_model(&mut self, tag: &str) {
        self.rep.model_requests += self.ses.pending.len() as u64;
        let fails = self.ses.run(&self.drv, &self.workdir, tag);
        self.rep.model_disagreements.extend(fails);
    }
}

macro_rules! all_schemes {
    ($f:ident, $ctx:expr $(, $arg:expr)*) => {{
        generic::$f::<generic::Marlin>($ctx $(, $arg)*);
        generic::$f::<generic::Sonic>($ctx $(, $arg)*);
        generic::$f::<generic::Ipa>($ctx $(, $arg)*);
        generic::$f::<generic::Pst13>($ctx $(, $arg)*);
        generic::$f::<generic::Hyrax>($ctx $(, $arg)*);
        generic::$f::<generic::UniLigero>($ctx $(, $arg)*);
        generic::$f::<generic::MlLigero>($ctx $(, $arg)*);
        generic::$f::<generic::Brakedown>($ctx $(, $arg)*);
    }};
}

fn main() {
    let args: Vec<String> = std::env::args().collect();
    let mut prop = String::new();
    let mut tier = "quick".to_string();
    let mut seed: u64 = 1;
    let mut out = String::new();
    let mut drv = "/verif/lean/PCV/.lake/build/bin/pcvdrv".to_string();
    let mut workdir = "/verif/.build/run".to_string();
    let mut only: Option<String> = None;
    let mut child = false;
    let mut nopar_bin: Option<String> = None;
    let mut i = 1;
    while i < args.len() {
        match args[i].as_str() {
            "--tier" => {
                tier = args[i + 1].clone();
                i += 1
            }
            "--seed" => {
                seed = args[i + 1].parse().unwrap_or(1);
                i += 1
            }
            "--out" => {
                out = args[i + 1].clone();
                i += 1
            }
            "--drv" => {
                drv = args[i + 1].clone();
                i += 1
            }
            "--child" => {
                child = true;
            }
            "--nopar-bin" => {
                nopar_bin = Some(args[i + 1].clone());
                i += 1
            }
            "--only" => {
                only = Some(args[i + 1].clone());
                i += 1
            }
            "--workdir" => {
                workdir = args[i + 1].clone();
                i += 1
            }
            p => prop = p.to_string(),
        }
        i += 1;
    }
    // silence panic messages of caught aborts
    std::panic::set_hook(Box::new(|info| {
        // silent, but remember where the last panic came from (used when the harness itself aborts)
        let loc = info.location().map(|l| format!("{}:{}", l.file(), l.line())).unwrap_or_default();
        if let Ok(mut g) = LAST_PANIC.lock() {
            *g = loc;
        }
    }));
    let mut ctx = Ctx {
        rep: Report::new(&prop),
        ses: Session::new(),
        seed,
        thorough: tier == "thorough",
        drv,
        workdir: workdir.clone(),
        only,
        child,
        nopar_bin,
    };
    // the harness' own unwraps may fire when the library under test refuses something it should answer:
    // turn that into a reported failure with the case at hand instead of dying without a report
    let run = std::panic::catch_unwind(std::panic::AssertUnwindSafe(|| {
    match prop.as_str() {
        "C01" => {
            props_kzg::c01(&mut ctx);
            props_marlin::c01(&mut ctx);
            let n = ctx.n(12, 150);
            all_schemes!(c01, &mut ctx, n);
            props_c14::completeness(&mut ctx, "C01");
        }
        "C02" => {
            props_kzg::c02(&mut ctx);
            props_marlin::c02(&mut ctx);
            let n = ctx.n(6, 80);
            all_schemes!(c02_c05, &mut ctx, "C02", n);
        }
        "C03" => {
            props_kzg::c03(&mut ctx);
            props_marlin::c03(&mut ctx);
            let n = ctx.n(5, 60);
            all_schemes!(c02_c05, &mut ctx, "C03", n);
        }
        "C05" => {
            props_kzg::c05(&mut ctx);
            props_marlin::c05(&mut ctx);
            let n = ctx.n(6, 80);
            all_schemes!(c02_c05, &mut ctx, "C05", n);
            // the streaming multi-polynomial / multi-point verifier is a batched verifier too
            props_c14::interop(&mut ctx, "C05");
        }
        "C10" => {
            props_kzg::c10(&mut ctx);
            props_marlin::c10(&mut ctx);
            props_c14::interop(&mut ctx, "C10");
        }
        "C04" => props_c04::run(&mut ctx),
        "C06" => props_c06::run(&mut ctx),
        "C07" => props_c07::run(&mut ctx),
        "C08" => props_c08::run(&mut ctx),
        "C09" => {
            props_c09::run(&mut ctx);
            props_c14::interop(&mut ctx, "C09");
        }
        "C11" => props_c11::run(&mut ctx),
        "C12" => props_c12::run(&mut ctx),
        "C13" => props_c13::run(&mut ctx),
        "C14" => props_c14::run(&mut ctx),
        "C15" => props_c15::run(&mut ctx),
        "C16" => props_c16::run(&mut ctx),
        "C17" => props_c17::run(&mut ctx),
        "C18" => props_c18::run(&mut ctx),
        "C19" => props_c19::run(&mut ctx),
        _ => {
            eprintln!("unknown property {}", prop);
            std::process::exit(2);
        }
    }
    if !ctx.child {
        props_sonic::run(&mut ctx, &prop);
        props_ipa::run(&mut ctx, &prop);
        props_hyrax::run(&mut ctx, &prop);
        props_lincode::run(&mut ctx, &prop);
        props_mlpc::run(&mut ctx, &prop);
        props_default::run(&mut ctx, &prop);
        props_attacks::run(&mut ctx, &prop);
        props_c15::run_prop(&mut ctx, &prop);
    }
    }));
    if let Err(e) = run {
        let msg = if let Some(x) = e.downcast_ref::<&str>() { x.to_string() } else if let Some(x) = e.downcast_ref::<String>() { x.clone() } else { "panic".to_string() };
        let case = LAST_CASE.lock().map(|g| g.clone()).unwrap_or_default();
        let loc = LAST_PANIC.lock().map(|g| g.clone()).unwrap_or_default();
        ctx.ses.pending.clear();
        ctx.rep.expect_fail(&case, "harness/aborted",
            &format!("the run aborted in case {} at {}: {}", case, loc, msg.chars().take(200).collect::<String>()),
            format!("# case: {}\n# seed: {}\n# the harness expected the library to answer an in-domain request here and it did not: {}\n# at {}\n# rerun: .build/cargo/debug/pcv-harness {} --seed {} --only {}\n", case, seed, msg, loc, prop, seed, case));
    }
    ctx.flush_model(&format!("{}-final", prop));
    let json = ctx.rep.to_json(&format!("{}/replays", workdir));
    if out.is_empty() {
        println!("{}", json);
    } else {
        std::fs::write(&out, json).unwrap();
    }
}
