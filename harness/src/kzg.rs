//! KZG10 (`ark_poly_commit::kzg10`) in trapdoor mode: keys are built from known scalars through
//! the public struct fields, so every group element the library produces can be compared with
//! `scalar · generator` where the scalar comes from the Lean model.
use crate::common::*;
use crate::wire::{self, Req};
use crate::Ctx;
use ark_bls12_381::{Bls12_381, Fr, G1Affine};
use ark_ec::pairing::Pairing;
use ark_ff::{Field, One, UniformRand, Zero};
use ark_poly::{univariate::DensePolynomial, DenseUVPolynomial, Polynomial};
use ark_poly_commit::kzg10::{
    Commitment, Powers, Proof, Randomness, UniversalParams, VerifierKey, KZG10,
};
use ark_poly_commit::PCCommitmentState;
use ark_std::rand::RngCore;
use std::collections::BTreeMap;

pub type UniPoly = DensePolynomial<Fr>;
pub type Kzg = KZG10<Bls12_381, UniPoly>;

#[derive(Clone)]
pub struct Trap {
    pub beta: Fr,
    pub g: Fr,
    pub gamma: Fr, // scalar of gamma_g
    pub h: Fr,
    pub max_degree: usize,
}

impl Trap {
    pub fn random(rng: &mut Rng, max_degree: usize) -> Self {
        Trap {
            beta: rand_nonzero(rng),
            g: rand_nonzero(rng),
            gamma: rand_nonzero(rng),
            h: rand_nonzero(rng),
            max_degree,
        }
    }
    pub fn pg(&self) -> Vec<Fr> {
        let mut v = vec![];
        let mut cur = self.g;
        for _ in 0..=self.max_degree {
            v.push(cur);
            cur *= self.beta;
        }
        v
    }
    pub fn pgg(&self) -> Vec<Fr> {
        let mut v = vec![];
        let mut cur = self.gamma;
        for _ in 0..=self.max_degree + 1 {
            v.push(cur);
            cur *= self.beta;
        }
        v
    }
    pub fn neg_h(&self) -> Vec<Fr> {
        let binv = self.beta.inverse().unwrap();
        let mut v = vec![];
        let mut cur = self.h;
        for _ in 0..=self.max_degree {
            v.push(cur);
            cur *= binv;
        }
        v
    }
    /// The universal parameters `KZG10::setup` would produce for this trapdoor.
    pub fn params(&self, produce_g2_powers: bool) -> UniversalParams<Bls12_381> {
        let powers_of_g = g1s(&self.pg());
        let powers_of_gamma_g: BTreeMap<usize, G1Affine> =
            g1s(&self.pgg()).into_iter().enumerate().collect();
        let h = g2(self.h);
        let beta_h = g2(self.h * self.beta);
        let neg_powers_of_h = if produce_g2_powers {
            g2s(&self.neg_h()).into_iter().enumerate().collect()
        } else {
            BTreeMap::new()
        };
        UniversalParams {
            powers_of_g,
            powers_of_gamma_g,
            h,
            beta_h,
            neg_powers_of_h,
            prepared_h: h.into(),
            prepared_beta_h: beta_h.into(),
        }
    }
}

/// the `trim` helper of the crate's own KZG10 tests
pub fn trim(
    pp: &UniversalParams<Bls12_381>,
    supported: usize,
) -> (Powers<'static, Bls12_381>, VerifierKey<Bls12_381>) {
    let powers_of_g = pp.powers_of_g[..=supported].to_vec();
    let powers_of_gamma_g = (0..=supported).map(|i| pp.powers_of_gamma_g[&i]).collect();
    let powers = Powers {
        powers_of_g: ark_std::borrow::Cow::Owned(powers_of_g),
        powers_of_gamma_g: ark_std::borrow::Cow::Owned(powers_of_gamma_g),
    };
    let vk = VerifierKey {
        g: pp.powers_of_g[0],
        gamma_g: pp.powers_of_gamma_g[&0],
        h: pp.h,
        beta_h: pp.beta_h,
        prepared_h: pp.prepared_h.clone(),
        prepared_beta_h: pp.prepared_beta_h.clone(),
    };
    (powers, vk)
}

/// Structured polynomial generator: degrees over the whole range, zero polynomial, low/high zero
/// coefficients, sparse.
pub fn gen_poly(rng: &mut Rng, max_deg: usize) -> (UniPoly, &'static str) {
    let kind = range(rng, 0, 9);
    match kind {
        0 => (UniPoly::from_coefficients_vec(vec![]), "zero"),
        1 => (
            UniPoly::from_coefficients_vec(vec![Fr::rand(rng)]),
            "constant",
        ),
        2 => {
            // low-order zeros
            let d = range(rng, 0, max_deg);
            let k = range(rng, 0, d);
            let mut c: Vec<Fr> = (0..=d).map(|_| Fr::rand(rng)).collect();
            for x in c.iter_mut().take(k) {
                *x = Fr::zero();
            }
            (UniPoly::from_coefficients_vec(c), "low-zeros")
        }
        3 => {
            // high-order zeros in the input vector (normalised away by the constructor)
            let d = range(rng, 0, max_deg);
            let mut c: Vec<Fr> = (0..=d).map(|_| Fr::rand(rng)).collect();
            let k = range(rng, 0, d);
            for x in c.iter_mut().skip(d + 1 - k) {
                *x = Fr::zero();
            }
            (UniPoly::from_coefficients_vec(c), "high-zeros")
        }
        4 => {
            let d = range(rng, 0, max_deg);
            let mut c = vec![Fr::zero(); d + 1];
            for _ in 0..3 {
                let i = range(rng, 0, d);
                c[i] = Fr::rand(rng);
            }
            (UniPoly::from_coefficients_vec(c), "sparse")
        }
        5 => (UniPoly::rand(max_deg, rng), "max-degree"),
        _ => {
            let d = range(rng, 0, max_deg);
            (UniPoly::rand(d, rng), "dense")
        }
    }
}

pub struct Transcript {
    pub trap: Trap,
    pub supported: usize,
    pub powers: Powers<'static, Bls12_381>,
    pub vk: VerifierKey<Bls12_381>,
    pub p: UniPoly,
    pub kind: &'static str,
    pub hb: Option<usize>,
    pub comm: Commitment<Bls12_381>,
    pub rand: Randomness<Fr, UniPoly>,
    pub z: Fr,
    pub v: Fr,
    pub proof: Proof<Bls12_381>,
}

impl Transcript {
    pub fn desc(&self) -> String {
        format!(
            "kzg10 D={} s={} deg={} kind={} hb={:?}",
            self.trap.max_degree,
            self.supported,
            self.p.degree(),
            self.kind,
            self.hb
        )
    }
    pub fn powers_args(&self, r: Req) -> Req {
        let pg = self.trap.pg()[..=self.supported].to_vec();
        let pgg = self.trap.pgg()[..=self.supported].to_vec();
        r.arg("pg", wire::fes(&pg)).arg("pgg", wire::fes(&pgg))
    }
    pub fn vk_args(&self, r: Req) -> Req {
        r.arg("g", wire::fe(&self.trap.g))
            .arg("gamma_g", wire::fe(&self.trap.gamma))
            .arg("h", wire::fe(&self.trap.h))
            .arg("beta_h", wire::fe(&(self.trap.h * self.trap.beta)))
    }
}

/// Generate an honest transcript; `None` if the request is outside the domain (reported
/// separately by C17).
pub fn honest(rng: &mut Rng, max_d: usize) -> Transcript {
    let max_degree = range(rng, 1, max_d);
    let trap = Trap::random(rng, max_degree);
    let pp = trap.params(false);
    let supported = range(rng, 1, max_degree);
    let (powers, vk) = trim(&pp, supported);
    let (p, kind) = gen_poly(rng, supported);
    // hiding bound h needs h+2 gamma powers; the test trim publishes supported+1 of them
    let hb = if supported >= 2 && coin(rng) {
        Some(range(rng, 1, supported - 1))
    } else if supported >= 1 && range(rng, 0, 3) == 0 {
        Some(0)
    } else {
        None
    };
    let (comm, rand) = Kzg::commit(&powers, &p, hb, Some(rng)).expect("in-domain commit");
    let z = Fr::rand(rng);
    let v = p.evaluate(&z);
    let proof = Kzg::open(&powers, &p, z, &rand).expect("in-domain open");
    Transcript {
        trap,
        supported,
        powers,
        vk,
        p,
        kind,
        hb,
        comm,
        rand,
        z,
        v,
        proof,
    }
}

pub fn check_impl(
    vk: &VerifierKey<Bls12_381>,
    c: &Commitment<Bls12_381>,
    z: Fr,
    v: Fr,
    proof: &Proof<Bls12_381>,
) -> ImplOutcome {
    match guarded(|| Kzg::check(vk, c, z, v, proof)) {
        Ok(Ok(b)) => ImplOutcome::Ok(vec![("b".into(), Expect::Bool(b))]),
        Ok(Err(e)) => ImplOutcome::Refuse(err_kind(&e)),
        Err(a) => ImplOutcome::Refuse(a),
    }
}

pub fn accepted(o: &ImplOutcome) -> bool {
    matches!(o, ImplOutcome::Ok(kvs) if kvs.iter().any(|(k, e)| k == "b" && matches!(e, Expect::Bool(true))))
}

/// Ask the model for commit/open of an honest transcript and compare all outputs (C01, C08).
pub fn ask_commit_open(ctx: &mut Ctx, id: &str, t: &Transcript) {
    let blind = t.rand.blinding_polynomial.coeffs.clone();
    // draws: the blinding coefficients themselves (the leading one is non-zero, so exactly one
    // draw each); C07 replays the real RNG stream instead.
    let req = t
        .powers_args(Req::new("kzg.commit"))
        .arg("p", wire::fes(&t.p.coeffs))
        .arg("hb", wire::opt_nat(t.hb))
        .arg("rng", wire::boolean(true))
        .arg("draws", wire::fes(&blind));
    ctx.ses.ask(
        id,
        req,
        ImplOutcome::Ok(vec![
            ("c".into(), Expect::G1(t.comm.0)),
            ("blind".into(), Expect::Fes(blind.clone())),
        ]),
    );
    let req = t
        .powers_args(Req::new("kzg.open"))
        .arg("p", wire::fes(&t.p.coeffs))
        .arg("z", wire::fe(&t.z))
        .arg("blind", wire::fes(&blind));
    ctx.ses.ask(
        id,
        req,
        ImplOutcome::Ok(vec![
            ("w".into(), Expect::G1(t.proof.w)),
            ("rv".into(), Expect::OptFe(t.proof.random_v)),
        ]),
    );
}

/// Ask the model to decide a (possibly mutated) claim given in scalar form.
pub fn ask_check(
    ctx: &mut Ctx,
    id: &str,
    t: &Transcript,
    vk_s: (Fr, Fr, Fr, Fr),
    c_s: Fr,
    z: Fr,
    v: Fr,
    w_s: Fr,
    rv: Option<Fr>,
    outcome: ImplOutcome,
) {
    let _ = t;
    let req = Req::new("kzg.check")
        .arg("g", wire::fe(&vk_s.0))
        .arg("gamma_g", wire::fe(&vk_s.1))
        .arg("h", wire::fe(&vk_s.2))
        .arg("beta_h", wire::fe(&vk_s.3))
        .arg("c", wire::fe(&c_s))
        .arg("z", wire::fe(&z))
        .arg("v", wire::fe(&v))
        .arg("w", wire::fe(&w_s))
        .arg("rv", wire::opt_fe(&rv));
    ctx.ses.ask(id, req, outcome);
}

/// Scalars of the commitment and witness of an honest transcript (computed by the harness from
/// the trapdoor, then *checked* against the library's group elements).
pub fn scalars(t: &Transcript) -> Option<(Fr, Fr)> {
    let beta = t.trap.beta;
    let r = &t.rand.blinding_polynomial;
    let c_s = t.trap.g * t.p.evaluate(&beta) + t.trap.gamma * r.evaluate(&beta);
    let div = UniPoly::from_coefficients_vec(vec![-t.z, Fr::one()]);
    let w = &t.p / &div;
    let wr = r / &div;
    let w_s = t.trap.g * w.evaluate(&beta) + t.trap.gamma * wr.evaluate(&beta);
    if g1(c_s) == t.comm.0 && g1(w_s) == t.proof.w {
        Some((c_s, w_s))
    } else {
        None
    }
}

pub fn vk_scalars(t: &Transcript) -> (Fr, Fr, Fr, Fr) {
    (t.trap.g, t.trap.gamma, t.trap.h, t.trap.h * t.trap.beta)
}

pub fn vk_from(s: (Fr, Fr, Fr, Fr)) -> VerifierKey<Bls12_381> {
    let h = g2(s.2);
    let bh = g2(s.3);
    VerifierKey {
        g: g1(s.0),
        gamma_g: g1(s.1),
        h,
        beta_h: bh,
        prepared_h: h.into(),
        prepared_beta_h: bh.into(),
    }
}

#[derive(Clone, Copy, Debug, PartialEq, Eq)]
pub enum Mutation {
    Value,
    Point,
    CommOtherPoly,
    CommRandom,
    Witness,
    RandomV,
    RandomVToggle,
    VkG,
    VkGamma,
    VkH,
    VkBetaH,
    ProofOfOtherPoly,
    ProofOtherPoint,
}

pub const ALL_MUTATIONS: &[Mutation] = &[
    Mutation::Value,
    Mutation::Point,
    Mutation::CommOtherPoly,
    Mutation::CommRandom,
    Mutation::Witness,
    Mutation::RandomV,
    Mutation::RandomVToggle,
    Mutation::VkG,
    Mutation::VkGamma,
    Mutation::VkH,
    Mutation::VkBetaH,
    Mutation::ProofOfOtherPoly,
    Mutation::ProofOtherPoint,
];

/// Apply one mutation to the honest transcript, run the library verifier, queue the model request.
/// Returns (accepted by the implementation, claim is false).
pub fn mutate_and_check(
    ctx: &mut Ctx,
    rng: &mut Rng,
    id: &str,
    t: &Transcript,
    m: Mutation,
) -> Option<(bool, bool)> {
    let (c_s, w_s) = scalars(t)?;
    let mut vk_s = vk_scalars(t);
    let mut c = c_s;
    let mut z = t.z;
    let mut v = t.v;
    let mut w = w_s;
    let mut rv = t.proof.random_v;
    // does the mutated statement still describe a true evaluation claim about the committed p?
    let mut claim_false = false;
    match m {
        Mutation::Value => {
            v += rand_nonzero(rng);
            claim_false = true;
        }
        Mutation::Point => {
            let z2 = loop {
                let x = Fr::rand(rng);
                if x != z {
                    break x;
                }
            };
            z = z2;
            claim_false = t.p.evaluate(&z) != v;
        }
        Mutation::CommOtherPoly => {
            let q = UniPoly::rand(range(rng, 0, t.supported), rng);
            c = t.trap.g * q.evaluate(&t.trap.beta);
            claim_false = q.evaluate(&z) != v || true;
        }
        Mutation::CommRandom => {
            c = Fr::rand(rng);
            claim_false = true;
        }
        Mutation::Witness => {
            w = Fr::rand(rng);
        }
        Mutation::RandomV => {
            rv = Some(Fr::rand(rng));
        }
        Mutation::RandomVToggle => {
            rv = match rv {
                Some(_) => None,
                None => Some(rand_nonzero(rng)),
            };
        }
        Mutation::VkG => vk_s.0 = rand_nonzero(rng),
        Mutation::VkGamma => vk_s.1 = rand_nonzero(rng),
        Mutation::VkH => vk_s.2 = rand_nonzero(rng),
        Mutation::VkBetaH => vk_s.3 = rand_nonzero(rng),
        Mutation::ProofOfOtherPoly => {
            // honest prover run on q against commitment(p), claiming q(z)
            let q = UniPoly::rand(range(rng, 1, t.supported), rng);
            let pr = Kzg::open(&t.powers, &q, z, &t.rand).ok()?;
            let div = UniPoly::from_coefficients_vec(vec![-z, Fr::one()]);
            let wq = &q / &div;
            let wr = &t.rand.blinding_polynomial / &div;
            w = t.trap.g * wq.evaluate(&t.trap.beta) + t.trap.gamma * wr.evaluate(&t.trap.beta);
            if g1(w) != pr.w {
                return None;
            }
            v = q.evaluate(&z);
            claim_false = v != t.p.evaluate(&z);
        }
        Mutation::ProofOtherPoint => {
            // proof for (p, z') replayed at z with a false value
            let z2 = Fr::rand(rng);
            let pr = Kzg::open(&t.powers, &t.p, z2, &t.rand).ok()?;
            let div = UniPoly::from_coefficients_vec(vec![-z2, Fr::one()]);
            let wq = &t.p / &div;
            let wr = &t.rand.blinding_polynomial / &div;
            w = t.trap.g * wq.evaluate(&t.trap.beta) + t.trap.gamma * wr.evaluate(&t.trap.beta);
            if g1(w) != pr.w {
                return None;
            }
            rv = pr.random_v;
            v = t.p.evaluate(&z2);
            claim_false = v != t.p.evaluate(&z);
        }
    }
    let vk = vk_from(vk_s);
    let comm = Commitment::<Bls12_381>(g1(c));
    let proof = Proof::<Bls12_381> {
        w: g1(w),
        random_v: rv,
    };
    let out = check_impl(&vk, &comm, z, v, &proof);
    let acc = accepted(&out);
    ask_check(ctx, id, t, vk_s, c, z, v, w, rv, out);
    Some((acc, claim_false))
}

/// batch_check on k transcripts sharing one key, with a chosen subset of false claims.
pub struct Batch {
    pub trap: Trap,
    pub supported: usize,
    pub items: Vec<Transcript>,
}

pub fn honest_batch(rng: &mut Rng, max_d: usize, k: usize) -> Batch {
    let first = honest(rng, max_d);
    let trap = first.trap.clone();
    let supported = first.supported;
    let pp = trap.params(false);
    let (powers, vk) = trim(&pp, supported);
    let mut items = vec![first];
    while items.len() < k {
        let (p, kind) = gen_poly(rng, supported);
        let hb = if supported >= 2 && coin(rng) {
            Some(range(rng, 1, supported - 1))
        } else {
            None
        };
        let (comm, rand) = Kzg::commit(&powers, &p, hb, Some(rng)).expect("commit");
        let z = Fr::rand(rng);
        let v = p.evaluate(&z);
        let proof = Kzg::open(&powers, &p, z, &rand).expect("open");
        items.push(Transcript {
            trap: trap.clone(),
            supported,
            powers: powers.clone(),
            vk: vk.clone(),
            p,
            kind,
            hb,
            comm,
            rand,
            z,
            v,
            proof,
        });
    }
    Batch {
        trap,
        supported,
        items,
    }
}

/// the `u128` randomizers `KZG10::batch_check` will draw from a clone of `rng`
pub fn replay_u128(rng: &Rng, n: usize) -> Vec<Fr> {
    let mut r = rng.clone();
    (0..n).map(|_| Fr::from(u128::rand(&mut r))).collect()
}

pub fn batch_check_impl(
    vk: &VerifierKey<Bls12_381>,
    cs: &[Commitment<Bls12_381>],
    zs: &[Fr],
    vs: &[Fr],
    ps: &[Proof<Bls12_381>],
    rng: &mut Rng,
) -> ImplOutcome {
    match guarded(|| Kzg::batch_check(vk, cs, zs, vs, ps, rng)) {
        Ok(Ok(b)) => ImplOutcome::Ok(vec![("b".into(), Expect::Bool(b))]),
        Ok(Err(e)) => ImplOutcome::Refuse(err_kind(&e)),
        Err(a) => ImplOutcome::Refuse(a),
    }
}

pub fn pairing_probe() -> bool {
    // sanity: e(aG, bH) == e(abG, H)
    let a = Fr::from(5u64);
    let b = Fr::from(7u64);
    Bls12_381::pairing(g1(a), g2(b)) == Bls12_381::pairing(g1(a * b), g2(Fr::one()))
}

pub fn _unused(_: &mut dyn RngCore) {}
