//! Model-backed runs for the multilinear PST scheme (`multilinear_pc`): `run(ctx, prop)` is called for
//! every property; properties the scheme has nothing to add to return immediately.
//! Case ids are `<prop>/mlpc/…`.
#[path = "mlpc.rs"]
pub mod mlpc;

use crate::common::*;
use crate::wire::{self, Req};
use crate::Ctx;
use ark_bls12_381::{Bls12_381, Fr};
use ark_ec::{AffineRepr, CurveGroup};
use ark_ff::{UniformRand, Zero};
use ark_poly::{DenseMultilinearExtension, MultilinearExtension};
use ark_serialize::{CanonicalDeserialize, CanonicalSerialize, Compress, Validate};
use mlpc::*;

pub fn run(ctx: &mut Ctx, prop: &str) {
    match prop {
        "C01" => c01(ctx),
        "C02" => mutation_run(ctx, "C02", Which::Statement),
        "C03" => {
            mutation_run(ctx, "C03", Which::Proof);
            real_setup_foreign_polynomial(ctx, "C03");
        }
        "C10" => mutation_run(ctx, "C10", Which::All),
        "C08" => {
            c08(ctx);
            real_setup_foreign_polynomial(ctx, "C08");
        }
        "C09" => c09(ctx),
        "C12" => c12(ctx),
        "C17" => c17(ctx),
        "C19" => c19(ctx),
        _ => return,
    }
    ctx.flush_model(&format!("{}-mlpc", prop));
}

fn max_nv(ctx: &Ctx) -> usize {
    if ctx.thorough {
        10
    } else {
        6
    }
}

/// sizes of case `i`: the first cases walk through every `nv`, the rest are random
fn sizes(rng: &mut Rng, i: usize, max: usize) -> (usize, usize) {
    if i < max {
        (max.min(i + 1 + range(rng, 0, 1)), i + 1)
    } else {
        let nv = range(rng, 1, max);
        (range(rng, nv, max), nv)
    }
}

fn new_transcript(ctx: &mut Ctx, rng: &mut Rng, id: &str, i: usize, max: usize) -> Option<Transcript> {
    let (nv_max, nv) = sizes(rng, i, max);
    match honest(rng, nv_max, nv) {
        Ok(t) => Some(t),
        Err(e) => {
            ctx.rep.expect_fail(
                id,
                "mlpc/in-domain-refused",
                &format!("trim / commit / open aborted on an in-domain request (nv_max={}, nv={}): {}", nv_max, nv, e),
                format!("# scheme: mlpc\n# case: {}\n# seed: {}\n# nv_max={} nv={}\n# {}\n# rerun: .build/cargo/debug/pcv-harness {} --seed {} --only {}\n",
                    id, ctx.seed, nv_max, nv, e, id.split('/').next().unwrap_or(""), ctx.seed, id),
            );
            None
        }
    }
}

/// scalars of commitment and proof, or an expectation failure (the commitment / a proof element is
/// not the trapdoor-defined value)
fn checked_scalars(ctx: &mut Ctx, id: &str, t: &Transcript) -> Option<(Fr, Vec<Fr>)> {
    let s = scalars(t);
    if s.is_none() {
        ctx.rep.expect_fail(
            id,
            "mlpc/not-key-defined",
            "commitment != g·f~(t) or a proof element != h·q~_i(t_{>i})",
            t.replay(id, ctx.seed, "commitment or proof element differs from the trapdoor-defined value"),
        );
    }
    s
}

// ------------------------------------------------------------------------------------------------
// C01
// ------------------------------------------------------------------------------------------------

fn c01(ctx: &mut Ctx) {
    let n = ctx.n(30, 300);
    let max = max_nv(ctx);
    for i in 0..n {
        let id = format!("C01/mlpc/{}", i);
        if !ctx.selected(&id) {
            continue;
        }
        let mut rng = rng_for(ctx.seed, "C01/mlpc", i as u64);
        let t = match new_transcript(ctx, &mut rng, &id, i, max) {
            Some(t) => t,
            None => continue,
        };
        ctx.rep.count(&format!("mlpc/poly-{}", t.kind));
        ctx.rep.count(&format!("mlpc/nv-{}", t.nv()));
        ask_honest(ctx, &id, &t);
        let out = check_impl(&t.vk, &t.comm, &t.point, t.v, &t.proof);
        let acc = accepted(&out);
        if let Some((c, ps)) = checked_scalars(ctx, &id, &t) {
            ctx.ses.ask(&id, ScalarClaim::of(&t, c, &ps).req(), out);
        }
        if !acc {
            ctx.rep.expect_fail(
                &id,
                "mlpc/honest-rejected",
                "honest proof of a true claim was not accepted",
                t.replay(&id, ctx.seed, "MultilinearPC::check(honest) != true"),
            );
        }
        ctx.rep.case(&t.desc(), Some(format!("mlpc/{}/{}/{}", t.trap.nv(), t.nv(), t.kind)));
    }
    // the same on library-made keys (real-setup mode): must-accept, commitment = naive key sum
    let nr = ctx.n(6, 40);
    for i in 0..nr {
        let id = format!("C01/mlpc-real/{}", i);
        if !ctx.selected(&id) {
            continue;
        }
        let mut rng = rng_for(ctx.seed, "C01/mlpc-real", i as u64);
        let (nv_max, nv) = sizes(&mut rng, i, max.min(8));
        let res = real_setup(nv_max, &mut rng).and_then(|rs| {
            let (ck, vk) = guarded(|| ML::trim(&rs.pp, nv))?;
            let (poly, kind) = gen_poly(&mut rng, nv);
            let point: Vec<Fr> = (0..nv).map(|_| Fr::rand(&mut rng)).collect();
            let v = poly.evaluate(&point);
            let comm = guarded(|| poly.commit(&ck))?;
            let proof = guarded(|| poly.open(&ck, &point))?;
            let b = guarded(|| ML::check(&vk, &comm, &point, v, &proof))?;
            Ok((kind, b, proof.proofs.len()))
        });
        match res {
            Ok((kind, b, plen)) => {
                if !b || plen != nv {
                    ctx.rep.expect_fail(&id, "mlpc/honest-rejected", "honest proof on library-made keys rejected (or proof of the wrong length)",
                        format!("# scheme: mlpc real setup\n# case: {}\n# nv_max={} nv={} kind={}\n# rerun: .build/cargo/debug/pcv-harness C01 --seed {} --only {}\n", id, nv_max, nv, kind, ctx.seed, id));
                }
                ctx.rep.count("mlpc/real-setup-transcript");
                ctx.rep.case(&format!("mlpc real-setup nv_max={} nv={} kind={}", nv_max, nv, kind), Some(format!("mlpc-real/{}/{}/{}", nv_max, nv, kind)));
            }
            Err(e) => ctx.rep.expect_fail(&id, "mlpc/in-domain-refused", &format!("in-domain request aborted on library-made keys: {}", e),
                format!("# scheme: mlpc real setup\n# case: {}\n# nv_max={} nv={}\n# {}\n", id, nv_max, nv, e)),
        }
    }
}

// ------------------------------------------------------------------------------------------------
// mutation catalogue (C02: statement, C03: proof, C10: single-fault neighbourhood)
// ------------------------------------------------------------------------------------------------

#[derive(Clone, Copy, PartialEq, Eq)]
enum Which {
    Statement,
    Proof,
    All,
}

struct Mut {
    name: String,
    claim: ScalarClaim,
    /// the mutated statement is a FALSE evaluation claim: the verifier must not accept
    claim_false: bool,
}

fn other_than(rng: &mut Rng, x: Fr) -> Fr {
    loop {
        let y = Fr::rand(rng);
        if y != x {
            return y;
        }
    }
}

fn statement_mutations(rng: &mut Rng, t: &Transcript, base: &ScalarClaim) -> Vec<Mut> {
    let mut v = vec![];
    let nv = t.nv();
    {
        let mut c = base.clone();
        c.v += rand_nonzero(rng);
        v.push(Mut { name: "value".into(), claim: c, claim_false: true });
    }
    for i in 0..nv {
        let mut c = base.clone();
        c.point[i] = other_than(rng, c.point[i]);
        let f = t.poly.evaluate(&c.point) != c.v;
        v.push(Mut { name: format!("point-{}", i), claim: c, claim_false: f });
    }
    {
        // commitment of another polynomial q
        let q = DenseMultilinearExtension::<Fr>::rand(nv, rng);
        let mut c = base.clone();
        c.c = commit_scalar(&t.key, &q.to_evaluations());
        let f = Poly::Dense(q).evaluate(&c.point) != c.v;
        v.push(Mut { name: "commitment-other-poly".into(), claim: c, claim_false: f });
    }
    {
        // a random group element = the commitment of the constant c/g
        let mut c = base.clone();
        c.c = Fr::rand(rng);
        let f = c.c != c.g * c.v;
        v.push(Mut { name: "commitment-random".into(), claim: c, claim_false: f });
    }
    v
}

fn proof_mutations(rng: &mut Rng, t: &Transcript, base: &ScalarClaim) -> Vec<Mut> {
    let mut v = vec![];
    let nv = t.nv();
    let delta = rand_nonzero(rng);
    for i in 0..nv {
        // element i replaced, true claim (the honest element is the only accepted one) …
        let mut c = base.clone();
        c.proofs[i] = other_than(rng, c.proofs[i]);
        v.push(Mut { name: format!("proof-elem-{}", i), claim: c.clone(), claim_false: false });
        // … and together with a false value
        c.v += delta;
        v.push(Mut { name: format!("proof-elem-{}+value", i), claim: c, claim_false: true });
        // identity element with a false value
        let mut c = base.clone();
        c.proofs[i] = Fr::zero();
        c.v += delta;
        v.push(Mut { name: format!("proof-elem-{}-identity+value", i), claim: c, claim_false: true });
    }
    // shapes: every shorter list, longer lists; with the true and with a false value
    for k in 0..nv {
        let mut c = base.clone();
        c.proofs.truncate(k);
        v.push(Mut { name: format!("proof-truncated-{}", k), claim: c.clone(), claim_false: false });
        c.v += delta;
        v.push(Mut { name: format!("proof-truncated-{}+value", k), claim: c, claim_false: true });
    }
    for extra in 1..=2 {
        let mut c = base.clone();
        for _ in 0..extra {
            c.proofs.push(if coin(rng) { Fr::zero() } else { Fr::rand(rng) });
        }
        v.push(Mut { name: format!("proof-extended-{}", extra), claim: c.clone(), claim_false: false });
        c.v += delta;
        v.push(Mut { name: format!("proof-extended-{}+value", extra), claim: c, claim_false: true });
    }
    {
        // all-identity proof list with the value that makes C - v·g vanish only for constants
        let mut c = base.clone();
        c.proofs = vec![Fr::zero(); nv];
        c.v += delta;
        v.push(Mut { name: "proof-all-identity+value".into(), claim: c, claim_false: true });
    }
    {
        // honest prover run on q against commitment(p), claiming q(z)
        let q = DenseMultilinearExtension::<Fr>::rand(nv, rng);
        let qe = q.to_evaluations();
        let mut c = base.clone();
        c.proofs = proof_scalars(&t.key, &qe, &c.point);
        let lib = guarded(|| ML::open(&t.ck, &q, &c.point));
        let same = matches!(&lib, Ok(p) if p.proofs == g2s(&c.proofs));
        if same {
            c.v = Poly::Dense(q).evaluate(&c.point);
            let f = c.v != t.v;
            v.push(Mut { name: "proof-of-other-poly".into(), claim: c, claim_false: f });
        }
    }
    {
        // proof for (p, z') replayed at z with the value p(z')
        let z2: Vec<Fr> = (0..nv).map(|_| Fr::rand(rng)).collect();
        let mut c = base.clone();
        c.proofs = proof_scalars(&t.key, &t.evals, &z2);
        c.v = t.poly.evaluate(&z2);
        let f = c.v != t.v;
        v.push(Mut { name: "proof-for-other-point".into(), claim: c, claim_false: f });
    }
    v
}

fn vk_mutations(rng: &mut Rng, t: &Transcript, base: &ScalarClaim) -> Vec<Mut> {
    let mut v = vec![];
    let nv = t.nv();
    let mut c = base.clone();
    c.g = other_than(rng, c.g);
    v.push(Mut { name: "vk-g".into(), claim: c, claim_false: false });
    let mut c = base.clone();
    c.h = other_than(rng, c.h);
    v.push(Mut { name: "vk-h".into(), claim: c, claim_false: false });
    for i in 0..nv {
        let mut c = base.clone();
        c.mask[i] = other_than(rng, c.mask[i]);
        v.push(Mut { name: format!("vk-mask-{}", i), claim: c, claim_false: false });
    }
    let mut c = base.clone();
    c.vnv = nv - 1;
    v.push(Mut { name: "vk-nv-minus-1".into(), claim: c, claim_false: false });
    let mut c = base.clone();
    c.vnv = nv + 1;
    v.push(Mut { name: "vk-nv-plus-1".into(), claim: c, claim_false: false });
    let mut c = base.clone();
    c.mask.pop();
    v.push(Mut { name: "vk-mask-short".into(), claim: c, claim_false: false });
    let mut c = base.clone();
    c.cnv = nv + 3;
    v.push(Mut { name: "commitment-nv-tag".into(), claim: c, claim_false: false });
    v
}

fn mutation_run(ctx: &mut Ctx, prop: &str, which: Which) {
    let n = match which {
        Which::Statement => ctx.n(24, 300),
        Which::Proof => ctx.n(12, 200),
        Which::All => ctx.n(8, 200),
    };
    let max = if ctx.thorough { 10 } else { 5 };
    let tag = format!("{}/mlpc", prop);
    for i in 0..n {
        let id0 = format!("{}/{}", tag, i);
        if !ctx.selected(&id0) {
            continue;
        }
        let mut rng = rng_for(ctx.seed, &tag, i as u64);
        let t = match new_transcript(ctx, &mut rng, &id0, i, max) {
            Some(t) => t,
            None => continue,
        };
        let (c, ps) = match checked_scalars(ctx, &id0, &t) {
            Some(x) => x,
            None => continue,
        };
        let base = ScalarClaim::of(&t, c, &ps);
        let mut muts = vec![];
        if which != Which::Proof {
            muts.extend(statement_mutations(&mut rng, &t, &base));
        }
        if which != Which::Statement {
            muts.extend(proof_mutations(&mut rng, &t, &base));
        }
        if which == Which::All {
            muts.extend(vk_mutations(&mut rng, &t, &base));
        }
        for m in muts {
            let id = format!("{}/{}", id0, m.name);
            let out = m.claim.run();
            let acc = accepted(&out);
            ctx.ses.ask(&id, m.claim.req(), out);
            let kind = m.name.trim_end_matches(|ch: char| ch.is_ascii_digit() || ch == '-');
            ctx.rep.count(&format!("mlpc/mut-{}", kind));
            if m.claim_false && acc && which != Which::All {
                ctx.rep.expect_fail(
                    &id,
                    &format!("mlpc/false-claim-accepted/{}", m.name),
                    "verifier accepted a false claim / changed statement",
                    t.replay(&id, ctx.seed, &format!("mutation {} accepted; mutated claim: {}", m.name, m.claim.req().line())),
                );
            }
            ctx.rep.case(
                &format!("{} mutation={} false={} accepted={}", t.desc(), m.name, m.claim_false, acc),
                Some(format!("mlpc/{}/{}/{}", kind, t.nv(), t.kind)),
            );
        }
    }
}

// ------------------------------------------------------------------------------------------------
// C08
// ------------------------------------------------------------------------------------------------

fn c08(ctx: &mut Ctx) {
    let n = ctx.n(20, 200);
    let max = if ctx.thorough { 9 } else { 6 };
    for i in 0..n {
        let id = format!("C08/mlpc/{}", i);
        if !ctx.selected(&id) {
            continue;
        }
        let mut rng = rng_for(ctx.seed, "C08/mlpc", i as u64);
        let real = i % 2 == 0;
        let (nv_max, nv) = sizes(&mut rng, i / 2, max);
        // keys: library-made (even cases) or trapdoor (odd cases)
        let (ck, key): (CK, Option<Trap>) = if real {
            match real_setup(nv_max, &mut rng).and_then(|rs| guarded(|| ML::trim(&rs.pp, nv))) {
                Ok((ck, _)) => (ck, None),
                Err(e) => {
                    ctx.rep.expect_fail(&id, "mlpc/in-domain-refused", &format!("setup/trim aborted: {}", e), format!("# scheme: mlpc\n# case: {}\n# nv_max={} nv={}\n", id, nv_max, nv));
                    continue;
                }
            }
        } else {
            let trap = Trap::random(&mut rng, nv_max);
            match guarded(|| ML::trim(&trap.params(), nv)) {
                Ok((ck, _)) => (ck, Some(trap.suffix(nv))),
                Err(e) => {
                    ctx.rep.expect_fail(&id, "mlpc/in-domain-refused", &format!("trim aborted: {}", e), format!("# scheme: mlpc\n# case: {}\n# nv_max={} nv={}\n", id, nv_max, nv));
                    continue;
                }
            }
        };
        let (p, kind) = gen_poly(&mut rng, nv);
        let (q, _) = gen_poly(&mut rng, nv);
        let (pe, qe) = (p.evals(), q.evals());
        let a = Fr::rand(&mut rng);
        let sum: Vec<Fr> = pe.iter().zip(&qe).map(|(x, y)| *x + a * y).collect();
        let r = guarded(|| (p.commit(&ck), q.commit(&ck), dense(nv, sum.clone()).commit(&ck)));
        let (cp, cq, cs) = match r {
            Ok(x) => x,
            Err(e) => {
                ctx.rep.expect_fail(&id, "mlpc/in-domain-refused", &format!("commit aborted: {}", e), format!("# scheme: mlpc\n# case: {}\n# nv={} kind={}\n", id, nv, kind));
                continue;
            }
        };
        // equals-spec: the naive Σ over the published key points (double-and-add, no MSM code shared)
        let naive = crate::props_c08::naive_sum(&ck.powers_of_g[0], &pe).into_affine();
        if naive != cp.g_product || cp.nv != nv {
            ctx.rep.expect_fail(&id, "mlpc/commitment-not-key-sum", "commit != Σ evals[x]·powers_of_g[0][x] (or wrong nv tag)",
                format!("# scheme: mlpc\n# case: {}\n# real_setup={} nv_max={} nv={} kind={}\n# evals={}\n# rerun: .build/cargo/debug/pcv-harness C08 --seed {} --only {}\n", id, real, nv_max, nv, kind, wire::fes(&pe), ctx.seed, id));
        }
        // homomorphism on the implementation: commit(p + a·q) = commit(p) + a·commit(q)
        let lin = (cp.g_product.into_group() + cq.g_product.into_group() * a).into_affine();
        if lin != cs.g_product {
            ctx.rep.expect_fail(&id, "mlpc/commitment-not-linear", "commit(p + a·q) != commit(p) + a·commit(q)",
                format!("# scheme: mlpc\n# case: {}\n# real_setup={} nv={} kind={}\n# p={}\n# q={}\n# a={}\n", id, real, nv, kind, wire::fes(&pe), wire::fes(&qe), wire::fe(&a)));
        }
        // equals-model in trapdoor mode
        if let Some(key) = key {
            let full = Trap { t: key.t.clone(), g: key.g, h: key.h };
            ctx.ses.ask(
                &id,
                full.pp_args(Req::new("mlpc.commit"))
                    .arg("supported", wire::nat(nv))
                    .arg("pnv", wire::nat(nv))
                    .arg("evals", wire::fes(&pe)),
                ImplOutcome::Ok(vec![("cnv".into(), Expect::Nat(cp.nv)), ("c".into(), Expect::G1(cp.g_product))]),
            );
        }
        ctx.rep.count(&format!("mlpc/commit-{}", if real { "real-setup" } else { "trapdoor" }));
        ctx.rep.count(&format!("mlpc/poly-{}", kind));
        ctx.rep.case(&format!("mlpc commit real_setup={} nv_max={} nv={} kind={} sparse={}", real, nv_max, nv, kind, p.is_sparse()),
            Some(format!("mlpc/{}/{}/{}", real, nv, kind)));
    }
}

// ------------------------------------------------------------------------------------------------
// C09
// ------------------------------------------------------------------------------------------------

fn c09(ctx: &mut Ctx) {
    let max = if ctx.thorough { 8 } else { 6 };
    let seeds = ctx.n(2, 6);
    // real setup against the recovered trapdoor, through pairings, and against the model
    for nv in 1..=max {
        for s in 0..seeds {
            let id = format!("C09/mlpc/setup/{}/{}", nv, s);
            if !ctx.selected(&id) {
                continue;
            }
            let mut rng = rng_for(ctx.seed, "C09/mlpc/setup", (nv * 100 + s) as u64);
            let rs = match real_setup(nv, &mut rng) {
                Ok(rs) => rs,
                Err(e) => {
                    ctx.rep.expect_fail(&id, "mlpc/setup-refused-or-not-replayable", &format!("setup({}) aborted or its draws could not be replayed: {}", nv, e),
                        format!("# scheme: mlpc\n# case: {}\n# nv={}\n# {}\n# rerun: .build/cargo/debug/pcv-harness C09 --seed {} --only {}\n", id, nv, e, ctx.seed, id));
                    continue;
                }
            };
            let mut bad = verify_params(&rs);
            bad.extend(pairing_relations(&rs.pp, &mut rng, if ctx.thorough { 24 } else { 6 }));
            if !bad.is_empty() {
                ctx.rep.expect_fail(&id, "mlpc/setup-not-well-formed", &format!("published parameters are not the eq-tables of one trapdoor: {}", bad.join("; ")),
                    format!("# scheme: mlpc\n# case: {}\n# nv={}\n# recovered t={}\n# {}\n# rerun: .build/cargo/debug/pcv-harness C09 --seed {} --only {}\n", id, nv, wire::fes(&rs.t), bad.join("\n# "), ctx.seed, id));
            }
            // the model's setup with unit generators gives the bare eq-tables of the recovered trapdoor
            // (the library's elements were just checked to be these scalars times g / h)
            let tabs = eq_tables(&rs.t);
            let unit = Trap { t: rs.t.clone(), g: Fr::from(1u64), h: Fr::from(1u64) };
            ctx.ses.ask(&id, unit.pp_args(Req::new("mlpc.setup")),
                ImplOutcome::Ok(vec![
                    ("nv".into(), Expect::Nat(rs.pp.num_vars)),
                    ("pg".into(), Expect::Raw(wire::fess(&tabs))),
                    ("ph".into(), Expect::Raw(wire::fess(&tabs))),
                    ("mask".into(), Expect::Fes(rs.t.clone())),
                ]));
            ctx.ses.ask(&id, Req::new("mlpc.tables").arg("c", wire::nat(1)).arg("t", wire::fes(&rs.t)),
                ImplOutcome::Ok(vec![("tables".into(), Expect::Raw(wire::fess(&tabs)))]));
            // trim: faithful sub-keys for every supported number of variables, refusal beyond
            for sup in 0..=nv + 2 {
                let tid = format!("{}/trim-{}", id, sup);
                let r = guarded(|| ML::trim(&rs.pp, sup));
                match (&r, sup <= nv) {
                    (Ok((ck, vk)), true) => {
                        let d = nv - sup;
                        let ok = ck.nv == sup && vk.nv == sup
                            && ck.g == rs.pp.g && vk.g == rs.pp.g && ck.h == rs.pp.h && vk.h == rs.pp.h
                            && ck.powers_of_g == rs.pp.powers_of_g[d..].to_vec()
                            && ck.powers_of_h == rs.pp.powers_of_h[d..].to_vec()
                            && vk.g_mask_random == rs.pp.g_mask[d..].to_vec();
                        if !ok {
                            ctx.rep.expect_fail(&tid, "mlpc/trim-not-subkey", "trim did not return the last `supported` tables / mask elements with the same generators",
                                format!("# scheme: mlpc\n# case: {}\n# nv={} supported={}\n", tid, nv, sup));
                        }
                    }
                    (Err(_), false) => {}
                    (Ok(_), false) => ctx.rep.expect_fail(&tid, "mlpc/out-of-range-trim-answered", "trim beyond the parameters returned keys",
                        format!("# scheme: mlpc\n# case: {}\n# nv={} supported={}\n", tid, nv, sup)),
                    (Err(e), true) => ctx.rep.expect_fail(&tid, "mlpc/in-domain-refused", &format!("in-range trim aborted: {}", e),
                        format!("# scheme: mlpc\n# case: {}\n# nv={} supported={}\n", tid, nv, sup)),
                }
                ctx.rep.count(if sup <= nv { "mlpc/trim-in-range" } else { "mlpc/trim-out-of-range" });
            }
            ctx.rep.count("mlpc/real-setup");
            ctx.rep.case(&format!("mlpc real setup nv={} seed#{}", nv, s), Some(format!("mlpc/setup/{}/{}", nv, s)));
        }
    }
    // trapdoor-mode parameters (own eq-tables) against the model's setup and trim
    let n = ctx.n(8, 40);
    for i in 0..n {
        let id = format!("C09/mlpc/trapdoor/{}", i);
        if !ctx.selected(&id) {
            continue;
        }
        let mut rng = rng_for(ctx.seed, "C09/mlpc/trapdoor", i as u64);
        let nv = 1 + i % max;
        let trap = Trap::random(&mut rng, nv);
        let pp = trap.params();
        let mut exp = vec![
            ("nv".to_string(), Expect::Nat(pp.num_vars)),
            ("g".to_string(), Expect::G1(pp.g)),
            ("h".to_string(), Expect::G2(pp.h)),
            ("mask".to_string(), Expect::G1s(pp.g_mask.clone())),
            ("ph".to_string(), Expect::Raw(wire::fess(&trap.ph()))),
        ];
        for (j, tb) in pp.powers_of_g.iter().enumerate() {
            exp.push((format!("pg{}", j), Expect::G1s(tb.clone())));
        }
        ctx.ses.ask(&id, trap.pp_args(Req::new("mlpc.setup")), ImplOutcome::Ok(exp));
        for sup in 0..=nv + 1 {
            let tid = format!("{}/trim-{}", id, sup);
            let req = trap.pp_args(Req::new("mlpc.trim")).arg("supported", wire::nat(sup));
            match guarded(|| ML::trim(&pp, sup)) {
                Ok((ck, vk)) => match trim_expect(&ck, &vk, &trap.suffix(sup.min(nv))) {
                    Some(exp) => ctx.ses.ask(&tid, req, ImplOutcome::Ok(exp)),
                    None => ctx.rep.expect_fail(&tid, "mlpc/trim-not-subkey", "G2 side of the trimmed key is not the sub-table list",
                        format!("# scheme: mlpc\n# case: {}\n# nv={} supported={}\n", tid, nv, sup)),
                },
                Err(a) => {
                    if sup <= nv {
                        ctx.rep.expect_fail(&tid, "mlpc/in-domain-refused", &format!("in-range trim aborted: {}", a),
                            format!("# scheme: mlpc\n# case: {}\n# nv={} supported={}\n", tid, nv, sup));
                    }
                    ctx.ses.ask(&tid, req, ImplOutcome::Refuse(a));
                }
            }
            ctx.rep.case(&format!("mlpc trapdoor trim nv={} supported={}", nv, sup), Some(format!("mlpc/trim/{}/{}", nv, sup)));
        }
    }
}

// ------------------------------------------------------------------------------------------------
// C12
// ------------------------------------------------------------------------------------------------

fn roundtrip<T: CanonicalSerialize + CanonicalDeserialize>(x: &T) -> Result<Vec<T>, String> {
    let mut outs = vec![];
    for c in [Compress::Yes, Compress::No] {
        let mut bytes = vec![];
        x.serialize_with_mode(&mut bytes, c).map_err(|e| format!("serialize: {:?}", e))?;
        if bytes.len() != x.serialized_size(c) {
            return Err(format!("serialized_size {} != {} bytes written", x.serialized_size(c), bytes.len()));
        }
        for v in [Validate::Yes, Validate::No] {
            let y = T::deserialize_with_mode(&bytes[..], c, v).map_err(|e| format!("deserialize: {:?}", e))?;
            let mut again = vec![];
            y.serialize_with_mode(&mut again, c).map_err(|e| format!("re-serialize: {:?}", e))?;
            if again != bytes {
                return Err("re-serialization differs".into());
            }
            outs.push(y);
        }
        // truncated input errs
        if !bytes.is_empty() && T::deserialize_with_mode(&bytes[..bytes.len() - 1], c, Validate::Yes).is_ok() {
            return Err("a proper prefix deserialized".into());
        }
    }
    Ok(outs)
}

fn c12(ctx: &mut Ctx) {
    let n = ctx.n(6, 30);
    let max = max_nv(ctx).min(7);
    for i in 0..n {
        let id = format!("C12/mlpc/{}", i);
        if !ctx.selected(&id) {
            continue;
        }
        let mut rng = rng_for(ctx.seed, "C12/mlpc", i as u64);
        let t = match new_transcript(ctx, &mut rng, &id, i, max) {
            Some(t) => t,
            None => continue,
        };
        let pp = t.trap.params();
        let bad = t.v + rand_nonzero(&mut rng);
        let res: Result<(), String> = (|| {
            roundtrip(&pp).map_err(|e| format!("universal-params: {}", e))?;
            let cks = roundtrip(&t.ck).map_err(|e| format!("committer-key: {}", e))?;
            let vks = roundtrip(&t.vk).map_err(|e| format!("verifier-key: {}", e))?;
            let cs = roundtrip(&t.comm).map_err(|e| format!("commitment: {}", e))?;
            let ps = roundtrip(&t.proof).map_err(|e| format!("proof: {}", e))?;
            for j in 0..vks.len() {
                let h = guarded(|| ML::check(&vks[j], &cs[j], &t.point, t.v, &ps[j]));
                let b = guarded(|| ML::check(&vks[j], &cs[j], &t.point, bad, &ps[j]));
                if h != Ok(true) || b != Ok(false) {
                    return Err(format!("decisions with deserialized vk/commitment/proof: honest {:?}, tampered {:?}", h, b));
                }
                let c2 = guarded(|| t.poly.commit(&cks[j]))?;
                let p2 = guarded(|| t.poly.open(&cks[j], &t.point))?;
                if c2.g_product != t.comm.g_product || p2.proofs != t.proof.proofs {
                    return Err("commit/open with the deserialized committer key differ".into());
                }
            }
            Ok(())
        })();
        if let Err(e) = res {
            ctx.rep.expect_fail(&id, "mlpc/serialization", &e, t.replay(&id, ctx.seed, &e));
        }
        ctx.rep.count("mlpc/roundtrip-params+keys+commitment+proof");
        ctx.rep.case(&format!("{} serialization round trips", t.desc()), Some(format!("mlpc/ser/{}/{}", t.trap.nv(), t.nv())));
    }
}

// ------------------------------------------------------------------------------------------------
// C17
// ------------------------------------------------------------------------------------------------

/// an out-of-domain request: the property wants a refusal (Err / abort)
fn ood(ctx: &mut Ctx, id: &str, what: &str, answered: bool, sig: &str, replay: String) {
    if answered {
        ctx.rep.expect_fail(id, &format!("mlpc/out-of-domain-answered/{}", sig), what, replay);
    }
    ctx.rep.count(&format!("mlpc/ood-{}", sig));
    ctx.rep.case(&format!("mlpc out-of-domain {} answered={}", sig, answered), Some(format!("mlpc/ood/{}/{}", sig, id)));
}

fn c17(ctx: &mut Ctx) {
    // nv = 0 at setup
    for s in 0..ctx.n(2, 6) {
        let id = format!("C17/mlpc/setup-zero/{}", s);
        if !ctx.selected(&id) {
            continue;
        }
        let mut rng = rng_for(ctx.seed, "C17/mlpc/setup-zero", s as u64);
        let r = guarded(|| ML::setup(0, &mut rng));
        let out = match &r {
            Ok(_) => ImplOutcome::Ok(vec![]),
            Err(a) => ImplOutcome::Refuse(a.clone()),
        };
        ctx.ses.ask(&id, Req::new("mlpc.setup").arg("nv", wire::nat(0)).arg("g", wire::nat(5)).arg("h", wire::nat(7)).arg("t", wire::fes::<Fr>(&[])), out);
        ood(ctx, &id, "setup with zero variables returned parameters", r.is_ok(), "setup-zero-vars",
            format!("# scheme: mlpc\n# case: {}\n# MultilinearPC::setup(0, rng)\n", id));
    }
    let n = ctx.n(10, 80);
    let max = if ctx.thorough { 8 } else { 5 };
    for i in 0..n {
        let id0 = format!("C17/mlpc/{}", i);
        if !ctx.selected(&id0) {
            continue;
        }
        let mut rng = rng_for(ctx.seed, "C17/mlpc", i as u64);
        let t = match new_transcript(ctx, &mut rng, &id0, i, max) {
            Some(t) => t,
            None => continue,
        };
        let nv = t.nv();
        let (c, ps) = match checked_scalars(ctx, &id0, &t) {
            Some(x) => x,
            None => continue,
        };
        let base = ScalarClaim::of(&t, c, &ps);
        // --- trim beyond the parameters
        for sup in [t.trap.nv() + 1, t.trap.nv() + 2, usize::MAX] {
            let id = format!("{}/trim-{}", id0, sup);
            let pp = t.trap.params();
            let r = guarded(|| ML::trim(&pp, sup));
            if sup != usize::MAX {
                let out = match &r { Ok(_) => ImplOutcome::Ok(vec![]), Err(a) => ImplOutcome::Refuse(a.clone()) };
                ctx.ses.ask(&id, t.trap.pp_args(Req::new("mlpc.trim")).arg("supported", wire::nat(sup)), out);
            }
            ood(ctx, &id, "trim beyond the parameters returned keys", r.is_ok(), "trim-too-large", t.replay(&id, ctx.seed, &format!("trim(pp, {})", sup)));
        }
        // --- polynomial with a number of variables other than the key's: commit and open
        let mut others = vec![nv + 1, nv + 2];
        if nv >= 1 {
            others.push(nv - 1);
        }
        for pnv in others {
            let q = DenseMultilinearExtension::<Fr>::rand(pnv, &mut rng);
            let qe = q.to_evaluations();
            let id = format!("{}/commit-nv-{}", id0, pnv);
            let r = guarded(|| ML::commit(&t.ck, &q));
            let out = match &r {
                Ok(cm) => ImplOutcome::Ok(vec![("cnv".into(), Expect::Nat(cm.nv)), ("c".into(), Expect::G1(cm.g_product))]),
                Err(a) => ImplOutcome::Refuse(a.clone()),
            };
            ctx.ses.ask(&id, t.key_args(Req::new("mlpc.commit")).arg("pnv", wire::nat(pnv)).arg("evals", wire::fes(&qe)), out);
            ood(ctx, &id, &format!("commit of a polynomial with {} variables under a key for {} variables returned a commitment (D14: the MSM would silently truncate to the shorter operand)", pnv, nv),
                r.is_ok(), if pnv > nv { "commit-more-vars-than-key" } else { "commit-fewer-vars-than-key" },
                t.replay(&id, ctx.seed, &format!("MultilinearPC::commit(ck with nv={}, polynomial with num_vars={}) -> Commitment; polynomial evals={}", nv, pnv, wire::fes(&qe))));
            let id = format!("{}/open-nv-{}", id0, pnv);
            let zq: Vec<Fr> = (0..pnv).map(|_| Fr::rand(&mut rng)).collect();
            let r = guarded(|| ML::open(&t.ck, &q, &zq));
            let out = match &r {
                Ok(p) => ImplOutcome::Ok(vec![("n".into(), Expect::Nat(p.proofs.len()))]),
                Err(a) => ImplOutcome::Refuse(a.clone()),
            };
            ctx.ses.ask(&id, t.key_args(Req::new("mlpc.open")).arg("pnv", wire::nat(pnv)).arg("evals", wire::fes(&qe)).arg("point", wire::fes(&zq)), out);
            ood(ctx, &id, "open of a polynomial whose number of variables differs from the key's returned a proof", r.is_ok(), "open-nv-mismatch",
                t.replay(&id, ctx.seed, &format!("open(ck nv={}, polynomial num_vars={})", nv, pnv)));
        }
        // --- point of the wrong length: open
        for (len, sig) in [(nv - 1, "open-point-too-short"), (nv + 1, "open-point-too-long")] {
            let id = format!("{}/open-point-{}", id0, len);
            let mut z = t.point.clone();
            z.truncate(len);
            while z.len() < len {
                z.push(Fr::rand(&mut rng));
            }
            let r = guarded(|| t.poly.open(&t.ck, &z));
            let out = match &r {
                Ok(p) => {
                    let mut e = vec![("n".to_string(), Expect::Nat(p.proofs.len()))];
                    for (j, x) in p.proofs.iter().enumerate() {
                        e.push((format!("pi{}", j), Expect::G2(*x)));
                    }
                    ImplOutcome::Ok(e)
                }
                Err(a) => ImplOutcome::Refuse(a.clone()),
            };
            ctx.ses.ask(&id, t.key_args(Req::new("mlpc.open")).arg("pnv", wire::nat(nv)).arg("evals", wire::fes(&t.evals)).arg("point", wire::fes(&z)), out);
            ood(ctx, &id, &format!("open at a point with {} coordinates for a {}-variate polynomial returned a proof (D14: surplus coordinates never read)", len, nv),
                r.is_ok(), sig, t.replay(&id, ctx.seed, &format!("open at point {}", wire::fes(&z))));
        }
        // --- point of the wrong length: check (honest proof, true value)
        for (len, sig) in [(nv - 1, "check-point-too-short"), (nv + 1, "check-point-too-long")] {
            let id = format!("{}/check-point-{}", id0, len);
            let mut cl = base.clone();
            cl.point.truncate(len);
            while cl.point.len() < len {
                cl.point.push(Fr::rand(&mut rng));
            }
            let out = cl.run();
            let acc = accepted(&out);
            ctx.ses.ask(&id, cl.req(), out);
            ood(ctx, &id, &format!("check at a point with {} coordinates under a key for {} variables returned true (D14: surplus coordinates never read)", len, nv),
                acc, sig, t.replay(&id, ctx.seed, &format!("check at point {} -> true", wire::fes(&cl.point))));
        }
        // --- proof list of the wrong length
        for len in [0, nv - 1, nv + 1] {
            if len == nv {
                continue;
            }
            let id = format!("{}/check-proofs-{}", id0, len);
            let mut cl = base.clone();
            cl.proofs.truncate(len);
            while cl.proofs.len() < len {
                cl.proofs.push(Fr::zero());
            }
            let out = cl.run();
            let acc = accepted(&out);
            ctx.ses.ask(&id, cl.req(), out);
            ood(ctx, &id, "check with a proof list of the wrong length returned true", acc, "check-proof-length",
                t.replay(&id, ctx.seed, &format!("check with {} proof elements -> true", len)));
        }
        // --- the chain the two unchecked inputs of D14 allowed: a polynomial f with nv+1 variables is
        // "committed" under the nv-key (commitment of its restriction f' to x_nv = 0), f' is opened at
        // z[..nv], and the verifier is asked about the (nv+1)-coordinate point z: it accepts f'(z[..nv]),
        // which is not f(z).
        {
            let id = format!("{}/oversized-chain", id0);
            let f = DenseMultilinearExtension::<Fr>::rand(nv + 1, &mut rng);
            let fe = f.to_evaluations();
            let z: Vec<Fr> = (0..nv + 1).map(|_| Fr::rand(&mut rng)).collect();
            let restr = DenseMultilinearExtension::from_evaluations_vec(nv, fe[..1 << nv].to_vec());
            let r = guarded(|| {
                let cm = ML::commit(&t.ck, &f);
                let pr = ML::open(&t.ck, &restr, &z[..nv]);
                let v = ark_poly::Polynomial::evaluate(&restr, &z[..nv].to_vec());
                (ML::check(&t.vk, &cm, &z, v, &pr), v)
            });
            let truth = ark_poly::Polynomial::evaluate(&f, &z);
            let bad = matches!(r, Ok((true, v)) if v != truth);
            if bad {
                ctx.rep.expect_fail(&id, "mlpc/out-of-domain-answered/oversized-polynomial-chain",
                    &format!("commit(ck nv={}, f with {} variables) returned a commitment, and check(vk nv={}, that commitment, point with {} coordinates, value != f(point)) returned true", nv, nv + 1, nv, nv + 1),
                    t.replay(&id, ctx.seed, &format!("f evals={}\n# z={}\n# accepted value={} but f(z)={}", wire::fes(&fe), wire::fes(&z), r.as_ref().map(|x| wire::fe(&x.1).to_string()).unwrap_or_default(), wire::fe(&truth))));
            }
            ctx.rep.count("mlpc/ood-oversized-chain");
            ctx.rep.case(&format!("mlpc oversized-polynomial chain nv={} accepted-false={}", nv, bad), Some(format!("mlpc/ood/chain/{}", nv)));
        }
    }
}

// ------------------------------------------------------------------------------------------------
// C19
// ------------------------------------------------------------------------------------------------

fn c19(ctx: &mut Ctx) {
    let max = if ctx.thorough { 12 } else { 8 };
    for nv in 1..=max {
        let id = format!("C19/mlpc/{}", nv);
        if !ctx.selected(&id) {
            continue;
        }
        let mut rng = rng_for(ctx.seed, "C19/mlpc", nv as u64);
        let t = match honest(&mut rng, nv, nv) {
            Ok(t) => t,
            Err(e) => {
                ctx.rep.expect_fail(&id, "mlpc/in-domain-refused", &format!("in-domain request aborted: {}", e), format!("# scheme: mlpc\n# case: {}\n# nv={}\n", id, nv));
                continue;
            }
        };
        let (g1c, g2c) = (t.vk.g.serialized_size(Compress::Yes), t.vk.h.serialized_size(Compress::Yes));
        let (g1u, g2u) = (t.vk.g.serialized_size(Compress::No), t.vk.h.serialized_size(Compress::No));
        let mut problems = vec![];
        if t.proof.proofs.len() != nv {
            problems.push(format!("proof has {} G2 elements for {} variables", t.proof.proofs.len(), nv));
        }
        for (c, g1z, g2z) in [(Compress::Yes, g1c, g2c), (Compress::No, g1u, g2u)] {
            if t.proof.serialized_size(c) != 8 + nv * g2z {
                problems.push(format!("proof size {} != 8 + {}·{}", t.proof.serialized_size(c), nv, g2z));
            }
            if t.comm.serialized_size(c) != 8 + g1z {
                problems.push(format!("commitment size {} != 8 + {}", t.comm.serialized_size(c), g1z));
            }
        }
        if !problems.is_empty() {
            ctx.rep.expect_fail(&id, "mlpc/size-law", &problems.join("; "), t.replay(&id, ctx.seed, &problems.join("; ")));
        }
        // the model's proof shape
        ctx.ses.ask(&id, t.key_args(Req::new("mlpc.open")).arg("pnv", wire::nat(nv)).arg("evals", wire::fes(&t.evals)).arg("point", wire::fes(&t.point)),
            ImplOutcome::Ok(vec![("n".into(), Expect::Nat(t.proof.proofs.len()))]));
        ctx.rep.count("mlpc/size-ladder");
        ctx.rep.case(&format!("mlpc nv={} N={} proof={}B commitment={}B", nv, 1usize << nv, t.proof.serialized_size(Compress::Yes), t.comm.serialized_size(Compress::Yes)),
            Some(format!("mlpc/size/{}", nv)));
    }
}

#[allow(dead_code)]
fn _unused(_: Bls12_381) {}

/// Under the LIBRARY's own setup (the trapdoor harness cannot see how `setup` samples its secret point): a
/// polynomial that agrees with `p` wherever two coordinates coincide, `p' = p + c·(x_i − x_j)`, is a different
/// polynomial — its commitment must differ from `p`'s, and the library's proof for `p'` must not verify the value
/// `p'(z)` against the commitment of `p`.
fn real_setup_foreign_polynomial(ctx: &mut Ctx, prop: &str) {
    use ark_poly::{DenseMultilinearExtension, MultilinearExtension, Polynomial};
    for i in 0..ctx.n(4, 16) {
        let id = format!("{}/mlpc-real-setup-foreign-polynomial/{}", prop, i);
        if !ctx.selected(&id) {
            continue;
        }
        let mut rng = rng_for(ctx.seed, "mlpc-real-setup-foreign-polynomial", i as u64);
        let nv = 2 + i % 4;
        let r = guarded(|| -> Result<(bool, bool), String> {
            let pp = ML::setup(nv, &mut rng);
            let (ck, vk) = ML::trim(&pp, nv);
            let evals: Vec<Fr> = (0..1usize << nv).map(|_| Fr::rand(&mut rng)).collect();
            let (a, b) = (i % nv, (i + 1) % nv);
            let c = rand_nonzero(&mut rng);
            // x_a − x_b on the hypercube (little-endian variable order of `DenseMultilinearExtension`)
            let evals2: Vec<Fr> = evals.iter().enumerate().map(|(x, e)| {
                let (xa, xb) = ((x >> a) & 1, (x >> b) & 1);
                *e + c * (Fr::from(xa as u64) - Fr::from(xb as u64))
            }).collect();
            let p = DenseMultilinearExtension::from_evaluations_vec(nv, evals);
            let p2 = DenseMultilinearExtension::from_evaluations_vec(nv, evals2);
            let (cp, cp2) = (ML::commit(&ck, &p), ML::commit(&ck, &p2));
            let z: Vec<Fr> = (0..nv).map(|_| Fr::rand(&mut rng)).collect();
            let v2 = p2.evaluate(&z);
            if v2 == p.evaluate(&z) {
                return Err("degenerate point".into());
            }
            let pf2 = ML::open(&ck, &p2, &z);
            Ok((cp.g_product == cp2.g_product, ML::check(&vk, &cp, &z, v2, &pf2)))
        });
        match r {
            Ok(Ok((same, accepted))) => {
                if same || accepted {
                    ctx.rep.expect_fail(&id, "mlpc/real-setup-not-binding/foreign-polynomial",
                        &format!("under the library's own setup, p and p + c(x_a - x_b) {}{}", if same { "have the SAME commitment" } else { "" }, if accepted { "; the library's proof for the other polynomial verified a false value against p's commitment" } else { "" }),
                        format!("# scheme: mlpc\n# case: {}\n# seed: {}\n# nv={}\n# rerun: .build/cargo/debug/pcv-harness {} --seed {} --only {}\n", id, ctx.seed, nv, prop, ctx.seed, id));
                }
                ctx.rep.case(&format!("mlpc real setup nv={} foreign polynomial: same commitment {} accepted {}", nv, same, accepted), Some(format!("mlpc-real-foreign/{}", nv)));
            }
            Ok(Err(e)) | Err(e) => ctx.rep.notes.push(format!("{}: not run ({})", id, e.chars().take(60).collect::<String>())),
        }
    }
}
