//! Model-backed runs for the mlpc scheme: `run(ctx, prop)` is called for every property; handle the
//! properties this scheme takes part in and return immediately for the others.
use crate::Ctx;

pub fn run(ctx: &mut Ctx, prop: &str) {
    let _ = (ctx, prop);
}
