//! Property C04 — degree bounds are enforced by committer and verifier (Marlin, Sonic, IPA).
use crate::Ctx;

pub fn run(ctx: &mut Ctx) {
    crate::props_marlin::c04(ctx);
}
