//! Property C04 — degree bounds are enforced by committer and verifier (Marlin, Sonic, IPA).
use crate::common::*;
use crate::generic::{self, Scheme};
use crate::Ctx;
use ark_bls12_381::Fr;
use ark_ff::UniformRand;
use ark_poly::Polynomial;
use ark_poly_commit::{LabeledPolynomial, PolynomialCommitment};

pub fn run(ctx: &mut Ctx) {
    crate::props_marlin::c04(ctx);
    open_admission::<generic::Marlin>(ctx);
    open_admission::<generic::Sonic>(ctx);
}

/// The PROVER's half of C04: `open` must refuse a polynomial whose degree exceeds its declared bound — also
/// when it is not the first polynomial of the opening and an earlier polynomial legitimately carries the SAME
/// bound (a validation remembered per bound would skip it).  `commit` refuses the offender, so its commitment
/// and state come from committing it honestly under a LARGER enforced bound, relabelled to the small one.
fn open_admission<S: Scheme>(ctx: &mut Ctx)
where
    <S::P as Polynomial<Fr>>::Point: Clone + Ord + std::fmt::Debug,
{
    for i in 0..ctx.n(6, 30) {
        let id = format!("C04/{}/open-admission/{}", S::NAME, i);
        if !ctx.selected(&id) {
            continue;
        }
        let mut rng = rng_for(ctx.seed, &format!("C04/{}/open-admission", S::NAME), i as u64);
        let max_degree = 12 + i % 5;
        let b = 3 + i % 4;
        let b2 = b + 2;
        let sizes = generic::Sizes { max_degree, supported: max_degree, num_vars: None };
        let r = guarded(|| -> Result<Vec<(String, bool)>, String> {
            let pp = S::PC::setup(max_degree, None, &mut rng).map_err(|e| format!("setup {:?}", e))?;
            let (ck, _vk) = S::PC::trim(&pp, max_degree, 1, Some(&[b, b2])).map_err(|e| format!("trim {:?}", e))?;
            let ok1 = LabeledPolynomial::new("ok1".to_string(), S::rand_poly(&mut rng, &sizes, b), Some(b), None);
            let ok2 = LabeledPolynomial::new("ok2".to_string(), S::rand_poly(&mut rng, &sizes, b - 1), Some(b2), None);
            let bad = LabeledPolynomial::new("bad".to_string(), S::rand_poly(&mut rng, &sizes, b + 1), Some(b), None);
            // the offender's commitment and state: committed honestly under the larger enforced bound, relabelled
            let bad_b2 = LabeledPolynomial::new("bad".to_string(), bad.polynomial().clone(), Some(b2), None);
            let (comms, sts) = S::PC::commit(&ck, [&ok1, &ok2, &bad_b2], None).map_err(|e| format!("commit {:?}", e))?;
            let cbad = ark_poly_commit::LabeledCommitment::new("bad".to_string(), comms[2].commitment().clone(), Some(b));
            let empty = sts[2].clone();
            let z = S::rand_point(&mut rng, &sizes);
            let mut out = vec![];
            // the offender alone, after a polynomial with the same bound, after two, and first
            let orders: Vec<(&str, Vec<usize>)> = vec![("alone", vec![2]), ("after-same-bound", vec![0, 2]), ("after-two", vec![1, 0, 2]), ("first", vec![2, 0])];
            for (name, order) in orders {
                let polys: Vec<&LabeledPolynomial<Fr, S::P>> = order.iter().map(|k| [&ok1, &ok2, &bad][*k]).collect();
                let cs: Vec<&ark_poly_commit::LabeledCommitment<_>> = order.iter().map(|k| [&comms[0], &comms[1], &cbad][*k]).collect();
                let ss: Vec<&_> = order.iter().map(|k| [&sts[0], &sts[1], &empty][*k]).collect();
                let mut sp = generic::fresh_sponge();
                let answered = matches!(guarded(|| S::PC::open(&ck, polys.clone(), cs.clone(), &z, &mut sp, ss.clone(), None)), Ok(Ok(_)));
                out.push((name.to_string(), answered));
            }
            Ok(out)
        });
        match r {
            Ok(Ok(outs)) => {
                for (name, answered) in &outs {
                    if *answered {
                        ctx.rep.expect_fail(&id, &format!("{}/degree-above-bound-opened/{}", S::NAME, name),
                            &format!("open answered for a polynomial of degree {} declared with bound {} ({})", b + 1, b, name),
                            format!("# scheme: {}\n# case: {}\n# seed: {}\n# keys trimmed for bounds [{}, {}]; polynomials ok1 (deg {}, bound {}), ok2 (deg {}, bound {}), bad (deg {}, bound {}); order: {}\n# rerun: .build/cargo/debug/pcv-harness C04 --seed {} --only {}\n",
                                S::NAME, id, ctx.seed, b, b2, b, b, b - 1, b2, b + 1, b, name, ctx.seed, id));
                    }
                }
                ctx.rep.case(&format!("{} open admission bound {} -> {:?}", S::NAME, b, outs), Some(format!("{}/open-admission/{}", S::NAME, b)));
            }
            Ok(Err(e)) | Err(e) => ctx.rep.notes.push(format!("{}: not run ({})", id, e.chars().take(80).collect::<String>())),
        }
    }
}
