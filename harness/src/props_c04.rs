//! Property C04 — correspondence / expectation run (see DESIGN.md §5, C04).
use crate::Ctx;

pub fn run(ctx: &mut Ctx) {
    let _ = ctx;
}
