//! Property runs for MarlinKZG10 (model-backed, trapdoor mode).
use crate::common::*;
use crate::marlin::*;
use crate::Ctx;
use ark_bls12_381::Fr;
use ark_ff::{Field, UniformRand, Zero};
use ark_poly::{DenseUVPolynomial, Polynomial};

fn replay(c: &Case, id: &str, seed: u64, extra: &str) -> String {
    format!(
        "# scheme: marlin\n# case: {}\n# seed: {}\n# {}\n# trapdoor beta={} g={} gamma={} h={}\n# {}\n# rerun: .build/cargo/debug/pcv-harness {} --seed {} --only {}\n",
        id, seed, c.desc(),
        crate::wire::fe(&c.trap.beta), crate::wire::fe(&c.trap.g), crate::wire::fe(&c.trap.gamma), crate::wire::fe(&c.trap.h),
        extra, id.split('/').next().unwrap_or(""), seed, id
    )
}

fn new_case(ctx: &mut Ctx, rng: &mut Rng, id: &str, npoly: usize) -> Option<Case> {
    new_case_b(ctx, rng, id, npoly, true)
}

fn new_case_b(ctx: &mut Ctx, rng: &mut Rng, id: &str, npoly: usize, want_bounds: bool) -> Option<Case> {
    let max_d = if ctx.thorough { 48 } else { 20 };
    match guarded(|| gen_case(rng, max_d, npoly, want_bounds, true)) {
        Ok(Ok(c)) => Some(c),
        Ok(Err(e)) | Err(e) => {
            ctx.rep.expect_fail(id, "marlin/in-domain-setup-refused", &format!("trim/commit refused an in-domain request: {}", e),
                format!("# scheme: marlin\n# case: {}\n# seed: {}\n# {}\n", id, ctx.seed, e));
            None
        }
    }
}

pub fn c01(ctx: &mut Ctx) {
    let n = ctx.n(25, 300);
    for i in 0..n {
        let id = format!("C01/marlin/{}", i);
        if !ctx.selected(&id) { continue; }
        let mut rng = rng_for(ctx.seed, "C01/marlin", i as u64);
        let npoly = range(&mut rng, 1, 4);
        let c = match new_case(ctx, &mut rng, &id, npoly) { Some(c) => c, None => continue };
        ask_trim_commit(ctx, &id, &c);
        let cs = match c.comm_scalars() {
            Some(x) => x,
            None => {
                ctx.rep.expect_fail(&id, "marlin/commitment-not-key-defined", "commitment differs from g*p(beta)+gamma*r(beta) (or shifted part)", replay(&c, &id, ctx.seed, ""));
                continue;
            }
        };
        match open_all(ctx, &mut rng, &id, &c) {
            Ok(o) => {
                if g1(o.w_s) != o.proof.w {
                    ctx.rep.expect_fail(&id, "marlin/witness-not-key-defined", "witness differs from the trapdoor-defined value", replay(&c, &id, ctx.seed, ""));
                } else {
                    let out = check_scalar(ctx, &id, &c, &c.vk, &cs, o.z, &o.values, o.w_s, o.proof.random_v);
                    if out != Outcome3::Accept {
                        ctx.rep.expect_fail(&id, "marlin/honest-rejected", &format!("honest proof not accepted: {:?}", out), replay(&c, &id, ctx.seed, "check(honest)"));
                    }
                }
            }
            Err(e) => ctx.rep.expect_fail(&id, "marlin/honest-open-refused", &format!("open refused: {}", e), replay(&c, &id, ctx.seed, "")),
        }
        // batch
        let nl = range(&mut rng, 1, 3);
        let (qs, ev) = gen_queries(&mut rng, &c, nl);
        match batch_open(ctx, &mut rng, &id, &c, &qs) {
            Ok((proofs, ws)) => {
                if ws.len() == proofs.len() && ws.iter().zip(&proofs).all(|(w, p)| g1(*w) == p.w) {
                    let rvs: Vec<Option<Fr>> = proofs.iter().map(|p| p.random_v).collect();
                    let out = batch_check_scalar(ctx, &mut rng, &id, &c, &cs, &qs, &ev, &ws, &rvs);
                    if out != Outcome3::Accept {
                        ctx.rep.expect_fail(&id, "marlin/honest-batch-rejected", &format!("honest batch not accepted: {:?}", out), replay(&c, &id, ctx.seed, "batch_check(honest)"));
                    }
                } else {
                    ctx.rep.expect_fail(&id, "marlin/witness-not-key-defined", "batch witness differs from the trapdoor-defined value", replay(&c, &id, ctx.seed, ""));
                }
            }
            Err(e) => ctx.rep.expect_fail(&id, "marlin/honest-open-refused", &format!("batch_open refused: {}", e), replay(&c, &id, ctx.seed, "")),
        }
        for k in &c.kinds { ctx.rep.count(&format!("marlin/poly-{}", k)); }
        ctx.rep.count(&format!("marlin/bounded-{}", c.polys.iter().filter(|p| p.degree_bound().is_some()).count()));
        ctx.rep.count(&format!("marlin/hiding-{}", c.polys.iter().filter(|p| p.hiding_bound().is_some()).count()));
        ctx.rep.case(&c.desc(), Some(format!("marlin/{}/{}/{}", npoly, c.polys.iter().filter(|p| p.degree_bound().is_some()).count(), c.polys.iter().filter(|p| p.hiding_bound().is_some()).count())));
    }
    ctx.flush_model("C01-marlin");
}

#[derive(Clone, Copy, Debug, PartialEq, Eq)]
pub enum M {
    Value, Point, Comm, CommOtherPoly, Shifted, ShiftedDrop, ShiftedAdd, ShiftedSwap, BoundRelabel, BoundDrop,
    BoundAdd, BoundRelabelUnenforced,
    Witness, RandomV, RandomVToggle, VkG, VkGamma, VkH, VkBetaH, VkShift,
}
pub const STATEMENT: &[M] = &[M::Value, M::Point, M::Comm, M::CommOtherPoly];
pub const BOUNDS: &[M] = &[M::Shifted, M::ShiftedDrop, M::ShiftedAdd, M::ShiftedSwap, M::BoundRelabel, M::BoundDrop, M::BoundAdd, M::BoundRelabelUnenforced];
pub const PROOF: &[M] = &[M::Witness, M::RandomV, M::RandomVToggle];
pub const KEY: &[M] = &[M::VkG, M::VkGamma, M::VkH, M::VkBetaH, M::VkShift];

/// Apply one mutation to an honest single-point transcript; returns (outcome, must_refuse).
pub fn mutate(ctx: &mut Ctx, rng: &mut Rng, id: &str, c: &Case, cs0: &[CommS], o: &Opened, m: M) -> Option<(Outcome3, bool)> {
    let mut cs = cs0.to_vec();
    let mut vs = o.values.clone();
    let mut z = o.z;
    let mut w = o.w_s;
    let mut rv = o.proof.random_v;
    let mut vk = c.vk.clone();
    let j = range(rng, 0, cs.len() - 1);
    let bounded: Vec<usize> = (0..cs.len()).filter(|&i| cs[i].bound.is_some()).collect();
    let all_const = c.polys.iter().all(|p| p.polynomial().coeffs.len() <= 1)
        && c.rands.iter().all(|r| r.rand.blinding_polynomial.coeffs.len() <= 1);
    let must;
    match m {
        M::Value => { vs[j] += rand_nonzero(rng); must = true; }
        M::Point => { z += rand_nonzero(rng); must = !all_const && c.polys.iter().zip(&vs).any(|(p, v)| p.evaluate(&z) != *v); }
        M::Comm => { cs[j].c += rand_nonzero(rng); must = true; }
        M::CommOtherPoly => {
            let q = UniPoly::rand(range(rng, 0, c.supported), rng);
            let newc = c.trap.g * q.evaluate(&c.trap.beta);
            must = newc != cs[j].c;
            cs[j].c = newc;
        }
        M::Shifted => { let i = *bounded.get(0)?; cs[i].s = Some(cs[i].s? + rand_nonzero(rng)); must = true; }
        M::ShiftedDrop => { let i = *bounded.get(0)?; cs[i].s = None; must = true; }
        M::ShiftedAdd => { let i = (0..cs.len()).find(|&i| cs[i].bound.is_none())?; cs[i].s = Some(Fr::rand(rng)); must = true; }
        M::ShiftedSwap => {
            if bounded.len() < 2 { return None; }
            let (a, b) = (bounded[0], bounded[1]);
            let t = cs[a].s; cs[a].s = cs[b].s; cs[b].s = t;
            must = cs[a].s != cs[b].s;
        }
        M::BoundRelabel => {
            let i = *bounded.get(0)?;
            let enforced = c.ck.enforced_degree_bounds.clone()?;
            let other: Vec<usize> = enforced.iter().cloned().filter(|d| Some(*d) != cs[i].bound).collect();
            if other.is_empty() { return None; }
            cs[i].bound = Some(other[range(rng, 0, other.len() - 1)]);
            // accepted iff xi' * v * (beta^(D-d') - beta^(D-d)) = 0: refuse whenever v != 0
            must = !vs[i].is_zero();
        }
        M::BoundDrop => { let i = *bounded.get(0)?; cs[i].bound = None; must = true; }
        M::BoundAdd => {
            // an unbounded commitment presented under an enforced bound (no shifted part)
            let i = (0..cs.len()).find(|&i| cs[i].bound.is_none())?;
            let enforced = c.ck.enforced_degree_bounds.clone()?;
            if enforced.is_empty() { return None; }
            cs[i].bound = Some(enforced[range(rng, 0, enforced.len() - 1)]);
            must = true;
        }
        M::BoundRelabelUnenforced => {
            // relabelled to a bound the keys were not trimmed for (below / between / above the enforced ones)
            let i = *bounded.get(0)?;
            let enforced = c.ck.enforced_degree_bounds.clone()?;
            let cand: Vec<usize> = (1..=c.trap.max_degree + 1).filter(|d| !enforced.contains(d)).collect();
            if cand.is_empty() { return None; }
            cs[i].bound = Some(cand[range(rng, 0, cand.len() - 1)]);
            must = true;
        }
        M::Witness => { w = Fr::rand(rng); must = false; }
        M::RandomV => { rv = Some(Fr::rand(rng)); must = false; }
        M::RandomVToggle => { rv = match rv { Some(_) => None, None => Some(rand_nonzero(rng)) }; must = false; }
        M::VkG => { vk.vk.g = g1(rand_nonzero(rng)); must = false; }
        M::VkGamma => { vk.vk.gamma_g = g1(rand_nonzero(rng)); must = false; }
        M::VkH => { let h = g2(rand_nonzero(rng)); vk.vk.h = h; vk.vk.prepared_h = h.into(); must = false; }
        M::VkBetaH => { let h = g2(rand_nonzero(rng)); vk.vk.beta_h = h; vk.vk.prepared_beta_h = h.into(); must = false; }
        M::VkShift => {
            let sh = vk.degree_bounds_and_shift_powers.as_mut()?;
            if sh.is_empty() { return None; }
            let k = range(rng, 0, sh.len() - 1);
            sh[k].1 = g1(rand_nonzero(rng));
            must = false;
        }
    }
    // key mutations change the model's key too: those are sent with explicit key overrides, which the
    // marlin.check request does not support; they are decided against the expectation only (C10 runs
    // them through kzg.check of the combined commitment instead).
    let out = if matches!(m, M::VkG | M::VkGamma | M::VkH | M::VkBetaH | M::VkShift) {
        let comms = comms_from(&cs);
        let proof = ark_poly_commit::kzg10::Proof::<ark_bls12_381::Bls12_381> { w: g1(w), random_v: rv };
        let mut sp = LogSponge::fresh();
        use ark_poly_commit::PolynomialCommitment;
        match guarded(|| PC::check(&vk, &comms, &z, vs.iter().cloned(), &proof, &mut sp, None)) {
            Ok(Ok(true)) => Outcome3::Accept,
            Ok(Ok(false)) => Outcome3::Reject,
            _ => Outcome3::Refuse,
        }
    } else {
        check_scalar(ctx, id, c, &vk, &cs, z, &vs, w, rv)
    };
    Some((out, must))
}

fn mutation_run(ctx: &mut Ctx, prop: &str, muts: &[M], n: usize, all_must_be_false_claims: bool) {
    for i in 0..n {
        let id0 = format!("{}/marlin/{}", prop, i);
        if !ctx.selected(&id0) { continue; }
        let mut rng = rng_for(ctx.seed, &format!("{}/marlin", prop), i as u64);
        let npoly = range(&mut rng, 1, 3);
        let c = match new_case(ctx, &mut rng, &id0, npoly) { Some(c) => c, None => continue };
        let cs = match c.comm_scalars() { Some(x) => x, None => continue };
        let o = match open_all(ctx, &mut rng, &id0, &c) { Ok(o) => o, Err(_) => continue };
        if g1(o.w_s) != o.proof.w { continue; }
        for m in muts {
            let id = format!("{}/{:?}", id0, m);
            if let Some((out, must)) = mutate(ctx, &mut rng, &id, &c, &cs, &o, *m) {
                ctx.rep.count(&format!("marlin/mut-{:?}", m));
                if must && out == Outcome3::Accept {
                    ctx.rep.expect_fail(&id, &format!("marlin/false-claim-accepted/{:?}", m), "verifier accepted a changed statement", replay(&c, &id, ctx.seed, &format!("mutation {:?}", m)));
                }
                let _ = all_must_be_false_claims;
                ctx.rep.case(&format!("{} mutation={:?} out={:?}", c.desc(), m, out), Some(format!("marlin/{:?}/{}/{}", m, npoly, c.polys.iter().filter(|p| p.degree_bound().is_some()).count())));
            }
        }
    }
    ctx.flush_model(&format!("{}-marlin", prop));
}

pub fn c02(ctx: &mut Ctx) {
    let n = ctx.n(20, 300);
    mutation_run(ctx, "C02", STATEMENT, n, true);
    batch_mutations(ctx, "C02", ctx.n(10, 150));
}
pub fn c03(ctx: &mut Ctx) {
    let n = ctx.n(15, 200);
    mutation_run(ctx, "C03", &[M::Witness, M::RandomV, M::RandomVToggle, M::Shifted, M::ShiftedSwap], n, false);
    forged(ctx, "C03", ctx.n(15, 200));
}
pub fn c04(ctx: &mut Ctx) {
    let n = ctx.n(30, 400);
    mutation_run(ctx, "C04", BOUNDS, n, true);
    admission(ctx, ctx.n(40, 500));
}
pub fn c10(ctx: &mut Ctx) {
    let n = ctx.n(15, 250);
    let all: Vec<M> = STATEMENT.iter().chain(BOUNDS).chain(PROOF).chain(KEY).cloned().collect();
    mutation_run(ctx, "C10", &all, n, false);
}

/// forged proofs together with a false value: honest prover on another polynomial; proof for another point
fn forged(ctx: &mut Ctx, prop: &str, n: usize) {
    use ark_poly_commit::{LabeledPolynomial, PolynomialCommitment};
    for i in 0..n {
        let id = format!("{}/marlin-forge/{}", prop, i);
        if !ctx.selected(&id) { continue; }
        let mut rng = rng_for(ctx.seed, &format!("{}/marlin-forge", prop), i as u64);
        let c = match new_case(ctx, &mut rng, &id, 1) { Some(c) => c, None => continue };
        let cs = match c.comm_scalars() { Some(x) => x, None => continue };
        let p0 = &c.polys[0];
        // prover run on q (same bound / state) against commitment(p)
        let q = UniPoly::rand(p0.degree().max(1).min(c.supported), &mut rng);
        let lq = LabeledPolynomial::new(p0.label().clone(), q.clone(), p0.degree_bound(), p0.hiding_bound());
        let z = Fr::rand(&mut rng);
        let mut sp = LogSponge::fresh();
        let r = guarded(|| PC::open(&c.ck, [&lq], &c.comms, &z, &mut sp, &c.rands, Some(&mut rng.clone())));
        if let Ok(Ok(proof)) = r {
            let v = q.evaluate(&z);
            if v != p0.evaluate(&z) {
                let mut vsp = LogSponge::fresh();
                let out = guarded(|| PC::check(&c.vk, &c.comms, &z, [v], &proof, &mut vsp, None));
                let acc = matches!(out, Ok(Ok(true)));
                // model: the forged witness in scalar form
                let tmp = Case { trap: c.trap.clone(), supported: c.supported, shb: c.shb, tbounds: c.tbounds.clone(), ck: c.ck.clone(), vk: c.vk.clone(),
                    polys: vec![lq.clone()], kinds: vec![], comms: vec![], rands: c.rands.clone() };
                let w = witness_scalar(&tmp, &z, &sp.challenges());
                if g1(w) == proof.w {
                    check_scalar(ctx, &id, &c, &c.vk, &cs, z, &[v], w, proof.random_v);
                }
                if acc {
                    ctx.rep.expect_fail(&id, "marlin/forged-proof-accepted/other-polynomial", "proof made from another polynomial accepted for a false value", replay(&c, &id, ctx.seed, "prover run on q against commitment(p)"));
                }
                ctx.rep.count("marlin/forge-other-polynomial");
                ctx.rep.case(&format!("{} forge=other-polynomial", c.desc()), Some(format!("marlin/forge/otherpoly/{}", p0.degree())));
            }
        }
        // proof for (p, z') presented at z with the value p(z')
        let z2 = Fr::rand(&mut rng);
        let mut sp = LogSponge::fresh();
        if let Ok(Ok(proof)) = guarded(|| PC::open(&c.ck, &c.polys, &c.comms, &z2, &mut sp, &c.rands, Some(&mut rng.clone()))) {
            let v = p0.evaluate(&z2);
            if v != p0.evaluate(&z) {
                let w = witness_scalar(&c, &z2, &sp.challenges());
                if g1(w) == proof.w {
                    let out = check_scalar(ctx, &id, &c, &c.vk, &cs, z, &[v], w, proof.random_v);
                    if out == Outcome3::Accept {
                        ctx.rep.expect_fail(&id, "marlin/forged-proof-accepted/other-point", "proof for another point accepted", replay(&c, &id, ctx.seed, "replayed proof"));
                    }
                    ctx.rep.count("marlin/forge-other-point");
                    ctx.rep.case(&format!("{} forge=other-point", c.desc()), Some(format!("marlin/forge/otherpoint/{}", p0.degree())));
                }
            }
        }
    }
    ctx.flush_model(&format!("{}-marlin-forge", prop));
}

/// batches: false claims at every position, cancelling errors, proof-list shapes
pub fn batch_mutations(ctx: &mut Ctx, prop: &str, n: usize) {
    for i in 0..n {
        let id0 = format!("{}/marlin-batch/{}", prop, i);
        if !ctx.selected(&id0) { continue; }
        let mut rng = rng_for(ctx.seed, &format!("{}/marlin-batch", prop), i as u64);
        let npoly = range(&mut rng, 2, 4);
        let c = match new_case_b(ctx, &mut rng, &id0, npoly, i % 3 != 1) { Some(c) => c, None => continue };
        let cs = match c.comm_scalars() { Some(x) => x, None => continue };
        let nl = range(&mut rng, 2, 3);
        let (mut qs, mut ev) = gen_queries(&mut rng, &c, nl);
        if i % 3 == 1 {
            // two point labels carrying ONE point value, disjoint polynomials under them (+ a third label elsewhere)
            qs = ark_poly_commit::QuerySet::new();
            ev = ark_poly_commit::Evaluations::new();
            let z = Fr::rand(&mut rng);
            let z2 = Fr::rand(&mut rng);
            for (j, p) in c.polys.iter().enumerate() {
                // the two equal point values sit under labels (pt0, pt1), (pt0, pt2) or (pt1, pt2) in turn
                let (pl, pt) = match ((i / 3) % 3, j) {
                    (0, 0) => ("pt0", z), (0, 1) => ("pt1", z), (0, _) => ("pt2", z2),
                    (1, 0) => ("pt0", z), (1, 1) => ("pt2", z), (1, _) => ("pt1", z2),
                    (_, 0) => ("pt1", z), (_, 1) => ("pt2", z), (_, _) => ("pt0", z2),
                };
                qs.insert((p.label().clone(), (pl.to_string(), pt)));
                ev.insert((p.label().clone(), pt), p.evaluate(&pt));
            }
            if coin(&mut rng) {
                let p = &c.polys[0];
                let odd_label = ["pt2", "pt1", "pt0"][(i / 3) % 3];
                qs.insert((p.label().clone(), (odd_label.to_string(), z2)));
                ev.insert((p.label().clone(), z2), p.evaluate(&z2));
            }
        }
        let (proofs, ws) = match batch_open(ctx, &mut rng, &id0, &c, &qs) { Ok(x) => x, Err(_) => continue };
        if ws.len() != proofs.len() || !ws.iter().zip(&proofs).all(|(w, p)| g1(*w) == p.w) { continue; }
        let rvs: Vec<Option<Fr>> = proofs.iter().map(|p| p.random_v).collect();
        let keys: Vec<(String, Fr)> = ev.keys().cloned().collect();
        let honest = batch_check_scalar(ctx, &mut rng, &format!("{}/honest", id0), &c, &cs, &qs, &ev, &ws, &rvs);
        if honest != Outcome3::Accept {
            ctx.rep.expect_fail(&id0, "marlin/honest-batch-rejected", "honest batch rejected", replay(&c, &id0, ctx.seed, ""));
        }
        ctx.rep.case(&format!("{} batch honest", c.desc()), Some(format!("marlin-batch/{}/{}/honest", npoly, nl)));
        for k in 0..keys.len() {
            let id = format!("{}/value@{}", id0, k);
            let mut ev2 = ev.clone();
            *ev2.get_mut(&keys[k]).unwrap() += rand_nonzero(&mut rng);
            let out = batch_check_scalar(ctx, &mut rng, &id, &c, &cs, &qs, &ev2, &ws, &rvs);
            if out == Outcome3::Accept {
                ctx.rep.expect_fail(&id, "marlin/false-claim-accepted/batch-value", "batch with one false value accepted", replay(&c, &id, ctx.seed, &format!("value at {:?} perturbed", keys[k].0)));
            }
            ctx.rep.count("marlin/batch-value");
            ctx.rep.case(&format!("{} batch value@{} out={:?}", c.desc(), k, out), Some(format!("marlin-batch/{}/{}/value{}", npoly, nl, k)));
        }
        if keys.len() >= 2 {
            // cancelling errors within one point (two polynomials at the same point) when available
            let mut pair = None;
            for a in 0..keys.len() { for b in a + 1..keys.len() { if keys[a].1 == keys[b].1 && pair.is_none() { pair = Some((a, b)); } } }
            let (a, b) = pair.unwrap_or((0, 1));
            let id = format!("{}/cancel@{},{}", id0, a, b);
            let d = rand_nonzero(&mut rng);
            let mut ev2 = ev.clone();
            *ev2.get_mut(&keys[a]).unwrap() += d;
            *ev2.get_mut(&keys[b]).unwrap() -= d;
            let out = batch_check_scalar(ctx, &mut rng, &id, &c, &cs, &qs, &ev2, &ws, &rvs);
            if out == Outcome3::Accept {
                ctx.rep.expect_fail(&id, "marlin/false-claim-accepted/batch-cancelling", "cancelling errors accepted", replay(&c, &id, ctx.seed, "cancelling errors"));
            }
            ctx.rep.count(if pair.is_some() { "marlin/batch-cancel-same-point" } else { "marlin/batch-cancel-across-points" });
            ctx.rep.case(&format!("{} batch cancel out={:?}", c.desc(), out), Some(format!("marlin-batch/{}/{}/cancel{}", npoly, nl, pair.is_some())));
        }
        // errors that cancel across two query points *under the verifier's own challenge weights*:
        // the combined claims of two point labels move by +D and -D (unbounded polynomials only)
        {
            let groups = crate::generic::group(&qs);
            let mut k = 0usize; // index into the challenge stream
            let mut per_group: Vec<Vec<(String, Fr, Fr)>> = vec![]; // (label, point, challenge) of the unbounded polys
            let mut xis: Vec<Fr> = vec![];
            {
                // the verifier's challenges on a fresh sponge are the prover's (lock-step): replay them
                use ark_poly_commit::PolynomialCommitment;
                let mut sp = LogSponge::fresh();
                let _ = guarded(|| PC::batch_open(&c.ck, &c.polys, &c.comms, &qs, &mut sp, &c.rands, Some(&mut rng.clone())));
                xis = sp.challenges();
            }
            for (_, pt, labels) in &groups {
                let mut cands = vec![];
                for l in labels {
                    let p = c.polys.iter().find(|p| p.label() == l).unwrap();
                    if k >= xis.len() { break; }
                    if p.degree_bound().is_none() && !xis[k].is_zero() { cands.push((l.clone(), *pt, xis[k])); }
                    k += 1 + p.degree_bound().is_some() as usize;
                }
                per_group.push(cands);
            }
            // prefer two point labels that carry the SAME point value and two polynomials each queried under only
            // one of them (then the two per-label equations differ only by the verifier's randomizers)
            let mut best: Option<(usize, usize, (String, Fr, Fr), (String, Fr, Fr), bool)> = None;
            for ga in 0..per_group.len() {
                for gb in ga + 1..per_group.len() {
                    for ca in &per_group[ga] {
                        for cb in &per_group[gb] {
                            if (ca.0.clone(), ca.1) == (cb.0.clone(), cb.1) { continue; }
                            let same = ca.1 == cb.1 && !groups[gb].2.contains(&ca.0) && !groups[ga].2.contains(&cb.0);
                            if best.is_none() || (same && !best.as_ref().unwrap().4) {
                                best = Some((ga, gb, ca.clone(), cb.clone(), same));
                            }
                        }
                    }
                }
            }
            if let Some((ga, gb, (la, pa, xa), (lb, pb, xb), same)) = best {
                {
                    let id = format!("{}/weighted-cancel@{},{}", id0, ga, gb);
                    let dd = rand_nonzero(&mut rng);
                    let mut ev2 = ev.clone();
                    *ev2.get_mut(&(la, pa)).unwrap() += dd * xa.inverse().unwrap();
                    *ev2.get_mut(&(lb, pb)).unwrap() -= dd * xb.inverse().unwrap();
                    let out = batch_check_scalar(ctx, &mut rng, &id, &c, &cs, &qs, &ev2, &ws, &rvs);
                    if out == Outcome3::Accept {
                        ctx.rep.expect_fail(&id, "marlin/false-claim-accepted/batch-weighted-cancelling", "errors cancelling under the challenge weights across two query points accepted", replay(&c, &id, ctx.seed, "challenge-weighted cancelling errors"));
                    }
                    ctx.rep.count(if same { "marlin/batch-weighted-cancel-equal-point-values" } else { "marlin/batch-weighted-cancel" });
                    ctx.rep.case(&format!("{} batch weighted-cancel out={:?}", c.desc(), out), Some(format!("marlin-batch/{}/{}/wcancel", npoly, nl)));
                }
            }
        }
        if prop == "C05" || prop == "C03" {
            // shapes with a false claim planted
            let mut ev2 = ev.clone();
            *ev2.get_mut(&keys[0]).unwrap() += rand_nonzero(&mut rng);
            let mut shapes: Vec<(&str, Vec<Fr>, Vec<Option<Fr>>)> = vec![("empty", vec![], vec![])];
            shapes.push(("truncated", ws[..ws.len() - 1].to_vec(), rvs[..rvs.len() - 1].to_vec()));
            let mut e = ws.clone(); e.push(ws[0]); let mut er = rvs.clone(); er.push(rvs[0]);
            shapes.push(("extended", e, er));
            if ws.len() >= 2 {
                let mut p = ws.clone(); p.swap(0, 1); let mut pr = rvs.clone(); pr.swap(0, 1);
                shapes.push(("swapped", p, pr));
            }
            for (sname, w2, r2) in shapes {
                let id = format!("{}/shape-{}", id0, sname);
                let out = batch_check_scalar(ctx, &mut rng, &id, &c, &cs, &qs, &ev2, &w2, &r2);
                if out == Outcome3::Accept {
                    ctx.rep.expect_fail(&id, &format!("marlin/false-claim-accepted/shape-{}", sname), "false claim accepted with a malformed proof list", replay(&c, &id, ctx.seed, sname));
                }
                ctx.rep.count(&format!("marlin/shape-{}", sname));
                ctx.rep.case(&format!("{} shape={} out={:?}", c.desc(), sname, out), Some(format!("marlin-batch/{}/shape-{}", npoly, sname)));
            }
        }
    }
    ctx.flush_model(&format!("{}-marlin-batch", prop));
}

pub fn c05(ctx: &mut Ctx) {
    batch_mutations(ctx, "C05", ctx.n(15, 200));
}

/// C04(a): admission at commit/open around every boundary
fn admission(ctx: &mut Ctx, n: usize) {
    use ark_poly_commit::{LabeledPolynomial, PolynomialCommitment};
    for i in 0..n {
        let id = format!("C04/marlin-admission/{}", i);
        if !ctx.selected(&id) { continue; }
        let mut rng = rng_for(ctx.seed, "C04/marlin-admission", i as u64);
        let max_degree = range(&mut rng, 3, 16);
        let trap = crate::kzg::Trap::random(&mut rng, max_degree);
        let pp = trap.params(false);
        let supported = range(&mut rng, 1, max_degree);
        // enforced bounds: None / empty / unsorted with duplicates
        let tb: Option<Vec<usize>> = match range(&mut rng, 0, 3) {
            0 => None,
            1 => Some(vec![]),
            _ => { let k = range(&mut rng, 1, 3); let mut v: Vec<usize> = (0..k).map(|_| range(&mut rng, 1, max_degree)).collect(); if coin(&mut rng) { v.push(v[0]); } Some(v) }
        };
        let (ck, vk) = match guarded(|| PC::trim(&pp, supported, 1, tb.as_deref())) { Ok(Ok(k)) => k, _ => continue };
        let degs = [0usize, 1, supported.saturating_sub(1), supported, supported + 1];
        let deg = degs[range(&mut rng, 0, degs.len() - 1)].min(max_degree);
        let p = UniPoly::rand(deg, &mut rng);
        let cands: Vec<Option<usize>> = vec![None, Some(deg.max(1)), Some(deg.saturating_sub(1).max(1)), Some(supported), Some(supported + 1), Some(max_degree), Some(max_degree + 1),
            tb.as_ref().and_then(|v| v.first().cloned())];
        let bound = cands[range(&mut rng, 0, cands.len() - 1)];
        let lp = LabeledPolynomial::new("p".to_string(), p.clone(), bound, None);
        let r = guarded(|| PC::commit(&ck, [&lp], None));
        let enforced: Vec<usize> = ck.enforced_degree_bounds.clone().unwrap_or_default();
        let admissible = deg <= supported && match bound { None => true, Some(b) => enforced.contains(&b) && b >= deg && b <= max_degree };
        let answered = matches!(r, Ok(Ok(_)));
        if answered != admissible {
            ctx.rep.expect_fail(&id, if answered { "marlin/inadmissible-bound-committed" } else { "marlin/admissible-refused" },
                &format!("commit: admissible={} answered={} (deg {} bound {:?} enforced {:?} supported {} max {})", admissible, answered, deg, bound, enforced, supported, max_degree),
                format!("# scheme: marlin\n# case: {}\n# seed: {}\n", id, ctx.seed));
        }
        let c = Case { trap, supported, shb: 1, tbounds: tb.clone(), ck, vk, polys: vec![lp.clone()], kinds: vec!["dense"], comms: vec![], rands: vec![] };
        let req = c.polys_args(c.base("marlin.commit"), &c.polys).arg("rng", crate::wire::boolean(false)).arg("draws", crate::wire::fes::<Fr>(&[]));
        let out = match &r {
            Ok(Ok((cm, _))) => ImplOutcome::Ok(vec![
                ("cs".into(), Expect::G1s(cm.iter().map(|x| x.commitment().comm.0).collect())),
                ("ss".into(), Expect::OptG1List(cm.iter().map(|x| x.commitment().shifted_comm.map(|s| s.0)).collect())),
            ]),
            Ok(Err(e)) => ImplOutcome::Refuse(err_kind(e)),
            Err(a) => ImplOutcome::Refuse(a.clone()),
        };
        ctx.ses.ask(&id, req, out);
        ctx.rep.count(&format!("marlin/admissible-{}", admissible));
        ctx.rep.case(&format!("marlin admission D={} s={} B={:?} deg={} bound={:?} -> {}", max_degree, supported, tb, deg, bound, answered),
            Some(format!("marlin/adm/{}/{:?}/{}", deg as i64 - supported as i64, bound.map(|b| (b as i64 - deg as i64).signum()), admissible)));
    }
    ctx.flush_model("C04-marlin-admission");
}

/// C11 (model-backed): the challenges the verifier squeezes are the ones the prover squeezed, and
/// the model consumes exactly as many; a proof verified under other challenges equals the model
pub fn c11(ctx: &mut Ctx) {
    let n = ctx.n(20, 250);
    for i in 0..n {
        let id = format!("C11/marlin-model/{}", i);
        if !ctx.selected(&id) { continue; }
        let mut rng = rng_for(ctx.seed, "C11/marlin-model", i as u64);
        let npoly = range(&mut rng, 1, 3);
        let c = match new_case(ctx, &mut rng, &id, npoly) { Some(c) => c, None => continue };
        let cs = match c.comm_scalars() { Some(x) => x, None => continue };
        // open_all queues marlin.open with the prover's recorded challenges (`used` = #squeezes)
        let o = match open_all(ctx, &mut rng, &id, &c) { Ok(o) => o, Err(_) => continue };
        if g1(o.w_s) != o.proof.w { continue; }
        // check_scalar runs the verifier on a fresh sponge: its recorded challenges must be the prover's
        let out = check_scalar(ctx, &id, &c, &c.vk, &cs, o.z, &o.values, o.w_s, o.proof.random_v);
        if out != Outcome3::Accept {
            ctx.rep.expect_fail(&id, "marlin/history-rejected/open", "honest proof rejected", replay(&c, &id, ctx.seed, ""));
        }
        // displaced: verifier sponge with other prior absorbs -> other challenges; decision from the
        // implementation must equal the model's under the verifier's own challenges
        {
            use ark_crypto_primitives::sponge::CryptographicSponge;
            use ark_poly_commit::PolynomialCommitment;
            let mut vs = LogSponge::fresh();
            vs.absorb(&vec![9u8; 4]);
            vs.log.clear();
            let comms = comms_from(&cs);
            let r = guarded(|| PC::check(&c.vk, &comms, &o.z, o.values.iter().cloned(), &o.proof, &mut vs, None));
            let xis = vs.challenges();
            let outm = match &r {
                Ok(Ok(b)) => ImplOutcome::Ok(vec![("b".into(), Expect::Bool(*b)), ("used".into(), Expect::Nat(xis.len()))]),
                Ok(Err(e)) => ImplOutcome::Refuse(err_kind(e)),
                Err(a) => ImplOutcome::Refuse(a.clone()),
            };
            let req = comms_args(c.base("marlin.check"), &cs).arg("z", crate::wire::fe(&o.z)).arg("vs", crate::wire::fes(&o.values))
                .arg("w", crate::wire::fe(&o.w_s)).arg("rv", crate::wire::opt_fe(&o.proof.random_v)).arg("xis", crate::wire::fes(&xis));
            ctx.ses.ask(&format!("{}/displaced", id), req, outm);
            let nonconst = c.polys.iter().any(|p| p.polynomial().coeffs.len() > 1);
            if nonconst && matches!(r, Ok(Ok(true))) {
                ctx.rep.expect_fail(&id, "marlin/accepted-on-other-transcript/pre-state", "proof accepted under another transcript state", replay(&c, &id, ctx.seed, "displaced"));
            }
        }
        ctx.rep.case(&format!("{} lock-step challenges={}", c.desc(), o.xis.len()), Some(format!("marlin-model/{}/{}", npoly, o.xis.len())));
    }
    ctx.flush_model("C11-marlin");
}

// ------------------------------------------------------------------------------------------------
// C06 (model-backed): open_combinations / check_combinations of MarlinKZG10 against the model
// ------------------------------------------------------------------------------------------------
fn lcs_args(r: crate::wire::Req, lcs: &[ark_poly_commit::LinearCombination<Fr>]) -> crate::wire::Req {
    use crate::wire::{self, Val};
    use ark_poly_commit::LCTerm;
    r.arg("lclabels", Val::L(lcs.iter().map(|l| wire::label(l.label())).collect()))
        .arg("lccoeffs", Val::L(lcs.iter().map(|l| wire::fes(&l.iter().map(|t| t.0).collect::<Vec<_>>())).collect()))
        .arg("lcone", Val::L(lcs.iter().map(|l| Val::L(l.iter().map(|t| wire::nat(t.1.is_one() as usize)).collect())).collect()))
        .arg("lcterms", Val::L(lcs.iter().map(|l| Val::L(l.iter().map(|t| match &t.1 { LCTerm::One => wire::label(""), LCTerm::PolyLabel(s) => wire::label(s) }).collect())).collect()))
}

pub fn c06(ctx: &mut Ctx) {
    use ark_poly_commit::{Evaluations, LCTerm, LinearCombination, PolynomialCommitment, QuerySet};
    let n = ctx.n(25, 300);
    for i in 0..n {
        let id0 = format!("C06/marlin-model/{}", i);
        if !ctx.selected(&id0) { continue; }
        let mut rng = rng_for(ctx.seed, "C06/marlin-model", i as u64);
        let npoly = range(&mut rng, 2, 4);
        let c = match new_case(ctx, &mut rng, &id0, npoly) { Some(c) => c, None => continue };
        let cs = match c.comm_scalars() { Some(x) => x, None => continue };
        // combinations: in-policy ones and (sometimes) one that violates the degree-bound policy or names
        // an unknown polynomial
        let unbounded: Vec<usize> = (0..npoly).filter(|&k| c.polys[k].degree_bound().is_none()).collect();
        let bounded: Vec<usize> = (0..npoly).filter(|&k| c.polys[k].degree_bound().is_some()).collect();
        let nlc = range(&mut rng, 1, 3);
        let mut lcs: Vec<LinearCombination<Fr>> = vec![];
        let mut kind = "in-policy";
        for j in 0..nlc {
            let mut lc = LinearCombination::empty(format!("lc{}", j));
            let roll = range(&mut rng, 0, 9);
            if roll == 0 && !bounded.is_empty() {
                // policy violation: bounded polynomial mixed with something else / scaled
                let b = bounded[0];
                match range(&mut rng, 0, 2) {
                    0 => { lc.push((Fr::from(1u64), LCTerm::PolyLabel(c.polys[b].label().clone()))); lc.push((Fr::rand(&mut rng), LCTerm::One)); }
                    1 => { lc.push((Fr::from(2u64), LCTerm::PolyLabel(c.polys[b].label().clone()))); }
                    _ => { lc.push((Fr::from(1u64), LCTerm::PolyLabel(c.polys[b].label().clone()))); lc.push((Fr::rand(&mut rng), LCTerm::PolyLabel(c.polys[(b + 1) % npoly].label().clone()))); }
                }
                kind = "policy-violation";
            } else if roll == 1 {
                lc.push((Fr::rand(&mut rng), LCTerm::PolyLabel("nosuch".to_string())));
                kind = "unknown-label";
            } else if !bounded.is_empty() && (unbounded.is_empty() || roll == 2) {
                lc.push((Fr::from(1u64), LCTerm::PolyLabel(c.polys[bounded[range(&mut rng, 0, bounded.len() - 1)]].label().clone())));
            } else if !unbounded.is_empty() {
                let nt = range(&mut rng, 1, 5);
                for _ in 0..nt {
                    let coeff = match range(&mut rng, 0, 4) { 0 => Fr::zero(), 1 => Fr::from(1u64), 2 => -Fr::from(1u64), _ => Fr::rand(&mut rng) };
                    if range(&mut rng, 0, 4) == 0 { lc.push((coeff, LCTerm::One)); }
                    else { lc.push((coeff, LCTerm::PolyLabel(c.polys[unbounded[range(&mut rng, 0, unbounded.len() - 1)]].label().clone()))); }
                }
            } else { continue; }
            lcs.push(lc);
        }
        if lcs.is_empty() { continue; }
        // query set over the combinations, labels possibly sharing a point value
        let mut qs: QuerySet<Fr> = QuerySet::new();
        let mut ev: Evaluations<Fr, Fr> = Evaluations::new();
        let nl = range(&mut rng, 1, 3);
        let mut pts: Vec<Fr> = vec![];
        for l in 0..nl {
            let pt = if l > 0 && coin(&mut rng) { pts[0] } else { Fr::rand(&mut rng) };
            pts.push(pt);
            for (k, lc) in lcs.iter().enumerate() {
                if coin(&mut rng) || (l == 0 && k == 0) {
                    qs.insert((lc.label().clone(), (format!("pt{}", l), pt)));
                    let mut v = Fr::zero();
                    for (co, t) in lc.iter() {
                        match t { LCTerm::One => v += *co, LCTerm::PolyLabel(s) => { if let Some(p) = c.polys.iter().find(|p| p.label() == s) { v += *co * p.evaluate(&pt); } } }
                    }
                    ev.insert((lc.label().clone(), pt), v);
                }
            }
        }
        // prover
        let mut sp = LogSponge::fresh();
        let r = guarded(|| PC::open_combinations(&c.ck, &lcs, &c.polys, &c.comms, &qs, &mut sp, &c.rands, Some(&mut rng.clone())));
        let xis = sp.challenges();
        let req = crate::marlin::queries_args(lcs_args(comms_args(c.rands_args(c.polys_args(c.base("marlin.open_combinations"), &c.polys), &c.rands), &cs), &lcs), &qs)
            .arg("xis", crate::wire::fes(&{ let mut x = xis.clone(); let mut e = rng_for(3, &id0, 5); while x.len() < 2 * qs.len() + 2 { x.push(Fr::rand(&mut e)); } x }));
        let answered = matches!(r, Ok(Ok(_)));
        match &r {
            Ok(Ok(p)) => ctx.ses.ask(&id0, req, ImplOutcome::Ok(vec![
                ("ws".into(), Expect::G1s(p.proof.iter().map(|x| x.w).collect())),
                ("rvs".into(), Expect::Raw(crate::wire::Val::L(p.proof.iter().map(|x| crate::wire::opt_fe(&x.random_v)).collect()))),
            ])),
            Ok(Err(e)) => ctx.ses.ask(&id0, req, ImplOutcome::Refuse(err_kind(e))),
            Err(a) => ctx.ses.ask(&id0, req, ImplOutcome::Refuse(a.clone())),
        }
        if kind == "in-policy" && !answered {
            ctx.rep.expect_fail(&id0, "marlin/lc-honest-refused", "in-policy combination refused", replay(&c, &id0, ctx.seed, kind));
        }
        if kind != "in-policy" && answered && kind == "policy-violation" {
            ctx.rep.expect_fail(&id0, "marlin/lc-bound-dropped", "combination dropping an enforced degree bound was opened", replay(&c, &id0, ctx.seed, kind));
        }
        ctx.rep.count(&format!("marlin/lc-{}", kind));
        ctx.rep.case(&format!("{} lc kind={} lcs={} queries={} answered={}", c.desc(), kind, lcs.len(), qs.len(), answered), Some(format!("marlin-lc/{}/{}/{}", kind, lcs.len(), qs.len())));
        let proof = match r { Ok(Ok(p)) => p, _ => continue };
        // verifier: honest + perturbed values, must-accept / must-refuse and equals-model
        let lcc = match lc_case(&c, &lcs) { Some(x) => x, None => continue };
        let ws = group_witness_scalars(&lcc, &qs, &xis);
        if ws.len() != proof.proof.len() || !ws.iter().zip(proof.proof.iter()).all(|(w, p)| g1(*w) == p.w) {
            ctx.rep.expect_fail(&id0, "marlin/witness-not-key-defined", "combination witness differs from the trapdoor-defined value", replay(&c, &id0, ctx.seed, "lc witness"));
            continue;
        }
        let rvs: Vec<Option<Fr>> = proof.proof.iter().map(|p| p.random_v).collect();
        let mut variants: Vec<(&str, Vec<LinearCombination<Fr>>, Evaluations<Fr, Fr>)> = vec![("honest", lcs.clone(), ev.clone())];
        {
            let keys: Vec<_> = ev.keys().cloned().collect();
            let mut e2 = ev.clone();
            *e2.get_mut(&keys[range(&mut rng, 0, keys.len() - 1)]).unwrap() += rand_nonzero(&mut rng);
            variants.push(("value", lcs.clone(), e2));
            // a constant term changed on the verifier's side
            if let Some(li) = lcs.iter().position(|l| l.iter().any(|t| t.1.is_one())) {
                let mut terms: Vec<(Fr, LCTerm)> = lcs[li].iter().cloned().collect();
                let pos = terms.iter().position(|t| t.1.is_one()).unwrap();
                terms[pos].0 += rand_nonzero(&mut rng);
                let mut l2 = lcs.clone();
                l2[li] = LinearCombination::new(lcs[li].label().clone(), terms);
                if qs.iter().any(|q| &q.0 == lcs[li].label()) { variants.push(("constant", l2, ev.clone())); }
            }
        }
        for (vname, l2, e2) in variants {
            let id = format!("{}/{}", id0, vname);
            let mut vs = LogSponge::fresh();
            let rs = crate::kzg::replay_u128(&rng, ws.len() + 1);
            let out = guarded(|| PC::check_combinations(&c.vk, &l2, &c.comms, &qs, &e2, &proof, &mut vs, &mut rng));
            let acc = matches!(out, Ok(Ok(true)));
            {
                let mut x = vs.challenges();
                let mut e = rng_for(4, &id, 6);
                while x.len() < 2 * qs.len() + 2 { x.push(Fr::rand(&mut e)); }
                let req = crate::marlin::evals_args(crate::marlin::queries_args(lcs_args(comms_args(c.base("marlin.check_combinations"), &cs), &l2), &qs), &e2)
                    .arg("ws", crate::wire::fes(&ws))
                    .arg("rvs", crate::wire::Val::L(rvs.iter().map(|x| crate::wire::opt_fe(x)).collect()))
                    .arg("xis", crate::wire::fes(&x))
                    .arg("rs", crate::wire::fes(&rs));
                ctx.ses.ask(&id, req, match &out {
                    Ok(Ok(b)) => ImplOutcome::Ok(vec![("b".into(), Expect::Bool(*b))]),
                    Ok(Err(e)) => ImplOutcome::Refuse(err_kind(e)),
                    Err(a) => ImplOutcome::Refuse(a.clone()),
                });
            }
            if vname == "honest" && !acc {
                ctx.rep.expect_fail(&id, "marlin/lc-honest-rejected", &format!("honest combination proof not accepted: {:?}", out.as_ref().map(|r| r.as_ref().map_err(|e| err_kind(e)))), replay(&c, &id, ctx.seed, vname));
            }
            if vname != "honest" && acc {
                ctx.rep.expect_fail(&id, &format!("marlin/lc-false-accepted/{}", vname), "changed combination statement accepted", replay(&c, &id, ctx.seed, vname));
            }
            ctx.rep.count(&format!("marlin/lc-check-{}", vname));
            ctx.rep.case(&format!("{} lc check {} acc={}", c.desc(), vname, acc), Some(format!("marlin-lc-check/{}/{}", vname, i)));
        }
    }
    ctx.flush_model("C06-marlin");
}

/// C08 (state arithmetic): `marlin_pc::Randomness += (f, &other)` and `+= &other` against the model's
/// `Rand.addScaled`, covering every combination of present/absent shifted parts in accumulator and operand,
/// and the scalar law (a·s) + (b·s) = (a+b)·s on the implementation.
pub fn c08_rand_arith(ctx: &mut Ctx) {
    use ark_poly_commit::kzg10;
    use ark_poly_commit::PCCommitmentState;
    let n = ctx.n(48, 400);
    fn kr(c: Vec<Fr>) -> kzg10::Randomness<Fr, UniPoly> {
        let mut r = kzg10::Randomness::<Fr, UniPoly>::empty();
        r.blinding_polynomial = UniPoly::from_coefficients_vec(c);
        r
    }
    fn norm(c: &[Fr]) -> Vec<Fr> {
        let mut v = c.to_vec();
        while v.last().map(|x| x.is_zero()).unwrap_or(false) {
            v.pop();
        }
        v
    }
    for i in 0..n {
        let id = format!("C08/marlin-rand/{}", i);
        if !ctx.selected(&id) {
            continue;
        }
        let mut rng = rng_for(ctx.seed, "C08/marlin-rand", i as u64);
        let rv = |rng: &mut Rng, allow_empty: bool| -> Vec<Fr> {
            let l = if allow_empty { range(rng, 0, 5) } else { range(rng, 1, 5) };
            (0..l).map(|_| Fr::rand(rng)).collect()
        };
        // the four shapes, cycled so each is hit equally often: (acc shifted?, operand shifted?)
        let (acc_s, op_s) = [(false, true), (true, true), (true, false), (false, false)][i % 4];
        let a_rand = rv(&mut rng, true);
        let a_sh = if acc_s { Some(rv(&mut rng, true)) } else { None };
        let b_rand = rv(&mut rng, false);
        let b_sh = if op_s { Some(rv(&mut rng, false)) } else { None };
        let f = match range(&mut rng, 0, 5) {
            0 => Fr::from(1u64),
            1 => Fr::zero(),
            2 => -Fr::from(1u64),
            _ => Fr::rand(&mut rng),
        };
        let mk = |r: &Vec<Fr>, s: &Option<Vec<Fr>>| Rand { rand: kr(r.clone()), shifted_rand: s.clone().map(kr) };
        let a = mk(&a_rand, &a_sh);
        let b = mk(&b_rand, &b_sh);
        let mut acc = a.clone();
        acc += (f, &b);
        let req = crate::wire::Req::new("marlin.rand_add_scaled")
            .arg("a", crate::wire::fes(&a_rand))
            .arg("as", crate::wire::opt(a_sh.as_ref().map(|v| crate::wire::fes(v))))
            .arg("b", crate::wire::fes(&b_rand))
            .arg("bs", crate::wire::opt(b_sh.as_ref().map(|v| crate::wire::fes(v))))
            .arg("f", crate::wire::fe(&f));
        ctx.ses.ask(&id, req, ImplOutcome::Ok(vec![
            // compared as polynomials: ark-poly leaves `0·r` un-normalised ([0,…,0]); the model answers in normal form
            ("rand".into(), Expect::Fes(norm(&acc.rand.blinding_polynomial.coeffs))),
            ("srand".into(), Expect::Raw(crate::wire::opt(acc.shifted_rand.as_ref().map(|r| crate::wire::fes(&norm(&r.blinding_polynomial.coeffs)))))),
        ]));
        let key0 = |r: &Rand| (norm(&r.rand.blinding_polynomial.coeffs), r.shifted_rand.as_ref().map(|x| norm(&x.blinding_polynomial.coeffs)));
        // unscaled `+= &other` must agree with f = 1
        if f == Fr::from(1u64) {
            let mut acc1 = a.clone();
            acc1 += &b;
            if key0(&acc1) != key0(&acc) {
                ctx.rep.expect_fail(&id, "marlin/rand-add-unscaled-differs", "`+= &other` differs from `+= (1, &other)`",
                    format!("# scheme: marlin\n# case: {}\n# seed: {}\n# rerun: .build/cargo/debug/pcv-harness C08 --seed {} --only {}\n", id, ctx.seed, ctx.seed, id));
            }
        }
        // scalar law on the implementation, starting from the empty state
        let g = Fr::rand(&mut rng);
        let mut l1 = Rand::empty();
        l1 += (f, &b);
        l1 += (g, &b);
        let mut l2 = Rand::empty();
        l2 += (f + g, &b);
        let key = |r: &Rand| (norm(&r.rand.blinding_polynomial.coeffs), r.shifted_rand.as_ref().map(|x| norm(&x.blinding_polynomial.coeffs)));
        if key(&l1) != key(&l2) {
            ctx.rep.expect_fail(&id, "marlin/rand-scalar-law", "(f·s) + (g·s) != (f+g)·s for commitment states",
                format!("# scheme: marlin\n# case: {}\n# seed: {}\n# f={} g={} rand={} shifted={:?}\n# rerun: .build/cargo/debug/pcv-harness C08 --seed {} --only {}\n",
                    id, ctx.seed, crate::wire::fe(&f), crate::wire::fe(&g), crate::wire::fes(&b_rand), b_sh.as_ref().map(|v| crate::wire::fes(v)), ctx.seed, id));
        }
        ctx.rep.count(&format!("marlin-rand/acc-shifted={}/op-shifted={}", acc_s, op_s));
        ctx.rep.case(&format!("marlin-rand acc_s={} op_s={}", acc_s, op_s), None);
    }
}
