//! Property C17 — out-of-domain requests are refused; in-domain requests never abort.
use crate::common::*;
use crate::generic;
use crate::kzg::*;
use crate::wire::{self, Req};
use crate::Ctx;
use ark_bls12_381::Fr;
use ark_ff::UniformRand;
use ark_poly::DenseUVPolynomial;
use ark_poly_commit::PCCommitmentState;

pub fn run(ctx: &mut Ctx) {
    // plain KZG10, model-backed: boundary around the key size and the hiding bound
    let n = ctx.n(40, 400);
    for i in 0..n {
        let id = format!("C17/kzg10/{}", i);
        if !ctx.selected(&id) {
            continue;
        }
        let mut rng = rng_for(ctx.seed, "C17/kzg10", i as u64);
        let max_degree = range(&mut rng, 2, 16);
        let trap = Trap::random(&mut rng, max_degree);
        let pp = trap.params(false);
        let supported = range(&mut rng, 1, max_degree);
        let (powers, _vk) = trim(&pp, supported);
        let pg = trap.pg()[..=supported].to_vec();
        let pgg = trap.pgg()[..=supported].to_vec();
        // degree in {0, supported-1, supported, supported+1, supported+3}
        let degs = [0usize, supported.saturating_sub(1), supported, supported + 1, supported + 3];
        let deg = degs[range(&mut rng, 0, degs.len() - 1)];
        let mut p = UniPoly::rand(deg, &mut rng);
        // half of the cases: X^k·q — the low-order coefficients the committer skips must not hide an oversize degree
        let low_zeros = if deg >= 1 && coin(&mut rng) { range(&mut rng, 1, deg) } else { 0 };
        for c in p.coeffs.iter_mut().take(low_zeros) {
            *c = Fr::from(0u64);
        }
        // hiding in {None, 0, supported-1, supported, supported+1}
        let hbs = [None, Some(0usize), Some(supported.saturating_sub(1)), Some(supported), Some(supported + 1)];
        let hb = hbs[range(&mut rng, 0, hbs.len() - 1)];
        let with_rng = range(&mut rng, 0, 3) != 0;
        let mut replay = rng.clone();
        let draws: Vec<Fr> = (0..supported + 8).map(|_| Fr::rand(&mut replay)).collect();
        let mut r = rng.clone();
        let res = guarded(|| {
            if with_rng {
                Kzg::commit(&powers, &p, hb, Some(&mut r))
            } else {
                Kzg::commit(&powers, &p, hb, None)
            }
        });
        let in_domain = deg + 1 <= supported + 1 && match hb {
            None => true,
            Some(h) => with_rng && h + 1 < supported + 1,
        };
        let outcome = match &res {
            Ok(Ok((c, rand))) => ImplOutcome::Ok(vec![
                ("c".into(), Expect::G1(c.0)),
                ("blind".into(), Expect::Fes(rand.blinding_polynomial.coeffs.clone())),
            ]),
            Ok(Err(e)) => ImplOutcome::Refuse(err_kind(e)),
            Err(a) => ImplOutcome::Refuse(a.clone()),
        };
        let answered = matches!(res, Ok(Ok(_)));
        if answered != in_domain {
            ctx.rep.expect_fail(&id, if answered { "kzg10/out-of-domain-answered" } else { "kzg10/in-domain-refused" },
                &format!("commit: in_domain={} but answered={}", in_domain, answered),
                format!("# scheme: kzg10\n# case {}\n# supported={} deg={} low-order zero coefficients={} hb={:?} rng={}\n", id, supported, deg, low_zeros, hb, with_rng));
        }
        let req = Req::new("kzg.commit").arg("pg", wire::fes(&pg)).arg("pgg", wire::fes(&pgg))
            .arg("p", wire::fes(&p.coeffs)).arg("hb", wire::opt_nat(hb)).arg("rng", wire::boolean(with_rng))
            .arg("draws", wire::fes(&draws));
        ctx.ses.ask(&id, req, outcome);
        // open beyond the key
        let z = Fr::rand(&mut rng);
        let ro = guarded(|| Kzg::open(&powers, &p, z, &ark_poly_commit::kzg10::Randomness::<Fr, UniPoly>::empty()));
        let o_answered = matches!(ro, Ok(Ok(_)));
        if o_answered != (deg <= supported) {
            ctx.rep.expect_fail(&id, "kzg10/open-domain", &format!("open: deg={} supported={} answered={}", deg, supported, o_answered),
                format!("# scheme: kzg10\n# case {}\n", id));
        }
        let req = Req::new("kzg.open").arg("pg", wire::fes(&pg)).arg("pgg", wire::fes(&pgg))
            .arg("p", wire::fes(&p.coeffs)).arg("z", wire::fe(&z)).arg("blind", wire::fes::<Fr>(&[]));
        ctx.ses.ask(&id, req, match ro {
            Ok(Ok(pr)) => ImplOutcome::Ok(vec![("w".into(), Expect::G1(pr.w)), ("rv".into(), Expect::OptFe(pr.random_v))]),
            Ok(Err(e)) => ImplOutcome::Refuse(err_kind(&e)),
            Err(a) => ImplOutcome::Refuse(a),
        });
        ctx.rep.count(&format!("kzg10/in-domain-{}", in_domain));
        ctx.rep.case(&format!("kzg10 s={} deg={} lowzeros={} hb={:?} rng={} -> answered={}", supported, deg, low_zeros, hb, with_rng, answered),
            Some(format!("kzg10/{}/{}/{:?}/{}", deg as i64 - supported as i64, low_zeros > 0, hb.map(|h| h as i64 - supported as i64), with_rng)));
    }
    // setup(0)
    {
        let mut rng = rng_for(ctx.seed, "C17/kzg10-setup", 0);
        let r = guarded(|| Kzg::setup(0, false, &mut rng));
        if matches!(r, Ok(Ok(_))) {
            ctx.rep.expect_fail("C17/kzg10/setup0", "kzg10/out-of-domain-answered/setup-degree-0", "setup(0) returned parameters", "# scheme: kzg10 setup(0)\n".into());
        }
        ctx.rep.case("kzg10 setup(0)", Some("kzg10/setup0".into()));
    }
    generic::c17_all(ctx);
    ctx.flush_model("C17");
}
