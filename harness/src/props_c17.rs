//! Property C17 — correspondence / expectation run (see DESIGN.md §5, C17).
use crate::Ctx;

pub fn run(ctx: &mut Ctx) {
    let _ = ctx;
}
