//! Constructive attacks for C03: forgeries that exist exactly when a shape check of a verifier is
//! weakened. They turn "the model refuses what the implementation answers" into a concrete false value
//! that is accepted. On the unchanged tree every forgery must be refused.
use crate::common::*;
use crate::generic::{self, IpaPC, UniPoly};
use crate::Ctx;
use ark_bls12_381::{Fr, G1Affine, G1Projective};
use ark_crypto_primitives::sponge::CryptographicSponge;
use ark_ec::{AffineRepr, CurveGroup, VariableBaseMSM};
use ark_ff::{Field, One, UniformRand, Zero};
use ark_poly::{DenseUVPolynomial, Polynomial};
use ark_poly_commit::ipa_pc::Proof as IpaProof;
use ark_poly_commit::{LabeledPolynomial, PolynomialCommitment, CHALLENGE_SIZE};
use ark_serialize::CanonicalSerialize;
use blake2::{Blake2s256, Digest};

pub fn run(ctx: &mut Ctx, prop: &str) {
    if prop == "C03" {
        ipa_stretched(ctx);
    }
    if prop == "C14" || prop == "C17" {
        stream_surplus_points(ctx, prop);
    }
    if prop == "C14" || prop == "C17" || prop == "C03" {
        stream_zero_eval_points(ctx, prop);
    }
    if prop == "C14" || prop == "C17" || prop == "C08" {
        stream_oversize_polynomial(ctx, prop);
    }
    if prop == "C06" || prop == "C03" || prop == "C10" {
        ipa_stray_shifted_commitment(ctx, prop);
    }
    if prop == "C03" || prop == "C11" {
        ipa_round_challenges_bind_proof(ctx, prop);
    }
    if prop == "C14" || prop == "C03" || prop == "C02" {
        stream_repeated_point(ctx, prop);
    }
    if prop == "C03" || prop == "C04" || prop == "C06" || prop == "C10" {
        identity_shifted_relabel(ctx, prop);
    }
}

/// the scheme's random oracle (hash-and-retry into the scalar field)
fn ro(bytes: &[u8]) -> Fr {
    let mut i = 0u64;
    loop {
        let mut input = bytes.to_vec();
        input.extend(i.to_le_bytes());
        let hash = Blake2s256::digest(input.as_slice());
        if let Some(c) = Fr::from_random_bytes(&hash) {
            return c;
        }
        i += 1;
    }
}

fn msm(bases: &[G1Affine], scalars: &[Fr]) -> G1Projective {
    <G1Projective as VariableBaseMSM>::msm_unchecked(bases, scalars)
}

fn ip(a: &[Fr], b: &[Fr]) -> Fr {
    a.iter().zip(b).map(|(x, y)| *x * y).sum()
}

/// IPA, `k` halving rounds too many: the folding argument run over the key padded with identity points
/// proves ANY value if the verifier tolerates the longer `l_vec`/`r_vec` (its check polynomial then has
/// more coefficients than the key has generators and the MSM truncates). Single unbounded non-hiding
/// polynomial; also `k` rounds too few is tried with the truncated key.
fn ipa_stretched(ctx: &mut Ctx) {
    let n_cases = ctx.n(6, 40);
    for i in 0..n_cases {
        let id = format!("C03/attack-ipa-stretched/{}", i);
        if !ctx.selected(&id) {
            continue;
        }
        let mut rng = rng_for(ctx.seed, "C03/attack-ipa-stretched", i as u64);
        let degree = [1usize, 3, 7, 15][i % 4];
        let extra = 1 + (i / 4) % 2;
        let n = degree + 1;
        let r = guarded(|| -> Result<(bool, String), String> {
            let pp = IpaPC::setup(degree, None, &mut rng).map_err(|e| err_kind(&e))?;
            let (ck, vk) = IpaPC::trim(&pp, degree, 0, None).map_err(|e| err_kind(&e))?;
            if ck.comm_key.len() != n {
                return Err("key length".into());
            }
            let p = UniPoly::rand(degree, &mut rng);
            let lp = LabeledPolynomial::new("p".to_string(), p.clone(), None, None);
            let (comms, _states) = IpaPC::commit(&ck, [&lp], Some(&mut rng)).map_err(|e| err_kind(&e))?;
            let z = Fr::rand(&mut rng);
            let value = p.evaluate(&z);
            let false_value = value + Fr::one() + Fr::rand(&mut rng).square();
            if false_value == value {
                return Err("degenerate".into());
            }
            // opening challenge of the single polynomial, as `check` will derive it from a fresh sponge
            let ch: Fr = generic::fresh_sponge().squeeze_field_elements_with_sizes(&[CHALLENGE_SIZE])[0];
            let combined_commitment = (comms[0].commitment().comm * ch).into_affine();
            let combined_v = ch * false_value;
            let mut bytes = Vec::new();
            combined_commitment.serialize_uncompressed(&mut bytes).unwrap();
            z.serialize_uncompressed(&mut bytes).unwrap();
            combined_v.serialize_uncompressed(&mut bytes).unwrap();
            let mut round_challenge = ro(&bytes);
            let h_prime = (vk.h * round_challenge).into_affine();
            let big = n << extra;
            let mut coeffs: Vec<Fr> = p.coeffs().iter().map(|c| *c * ch).collect();
            coeffs.resize(big, Fr::zero());
            let z_to_n = z.pow([n as u64]);
            coeffs[n] = ch * (false_value - value) * z_to_n.inverse().ok_or("z = 0")?;
            let mut zs = Vec::with_capacity(big);
            let mut cur = Fr::one();
            for _ in 0..big {
                zs.push(cur);
                cur *= z;
            }
            let mut key: Vec<G1Affine> = ck.comm_key.clone();
            key.resize(big, G1Affine::zero());
            let (mut l_vec, mut r_vec) = (Vec::new(), Vec::new());
            let mut m = big;
            while m > 1 {
                let half = m / 2;
                let (c_l, c_r) = coeffs.split_at(half);
                let (z_l, z_r) = zs.split_at(half);
                let (k_l, k_r) = key.split_at(half);
                let l = (msm(k_l, c_r) + h_prime * ip(c_r, z_l)).into_affine();
                let rr = (msm(k_r, c_l) + h_prime * ip(c_l, z_r)).into_affine();
                l_vec.push(l);
                r_vec.push(rr);
                let mut bytes = Vec::new();
                round_challenge.serialize_uncompressed(&mut bytes).unwrap();
                l.serialize_uncompressed(&mut bytes).unwrap();
                rr.serialize_uncompressed(&mut bytes).unwrap();
                round_challenge = ro(&bytes);
                let inv = round_challenge.inverse().ok_or("zero challenge")?;
                let new_coeffs: Vec<Fr> = c_l.iter().zip(c_r).map(|(a, b)| *a + inv * b).collect();
                let new_zs: Vec<Fr> = z_l.iter().zip(z_r).map(|(a, b)| *a + round_challenge * b).collect();
                let new_key: Vec<G1Affine> = k_l.iter().zip(k_r).map(|(a, b)| (a.into_group() + *b * round_challenge).into_affine()).collect();
                coeffs = new_coeffs;
                zs = new_zs;
                key = new_key;
                m = half;
            }
            let forged = IpaProof::<G1Affine> { l_vec, r_vec, final_comm_key: key[0], c: coeffs[0], hiding_comm: None, rand: None };
            let single = matches!(guarded(|| IpaPC::check(&vk, &comms, &z, [false_value], &forged, &mut generic::fresh_sponge(), Some(&mut rng.clone()))), Ok(Ok(true)));
            Ok((single, format!("degree {} extra rounds {} proof rounds {}", degree, extra, forged.l_vec.len())))
        });
        match r {
            Ok(Ok((accepted, desc))) => {
                if accepted {
                    ctx.rep.expect_fail(&id, "ipa/forged-value-accepted/stretched-proof",
                        &format!("IPA check accepted a FALSE value from a forged proof with too many rounds ({})", desc),
                        format!("# scheme: ipa\n# case: {}\n# seed: {}\n# {}\n# forgery: folding argument over the key padded with identity points, lie placed in coefficient n\n# rerun: .build/cargo/debug/pcv-harness C03 --seed {} --only {}\n", id, ctx.seed, desc, ctx.seed, id));
                }
                ctx.rep.case(&format!("attack ipa stretched {} accepted={}", desc, accepted), Some(format!("attack-ipa/{}/{}", degree, extra)));
            }
            Ok(Err(e)) | Err(e) => {
                ctx.rep.notes.push(format!("{}: attack could not be mounted ({})", id, e));
            }
        }
    }
}

/// Streaming KZG, MORE evaluation points than the verifier key was made for (`max_eval_points`). The provers refuse
/// such a request; the verifier's MSMs over its `max_eval_points + 1` G2 powers / `max_eval_points` G1 powers
/// silently truncate the vanishing polynomial and the interpolant, and the truncated equation has solutions with
/// false evaluations: with one surplus point, two linear conditions on three claimed values. The forgery below is
/// computed from the public key only. It must be refused.
fn stream_surplus_points(ctx: &mut Ctx, prop: &str) {
    use ark_bls12_381::Bls12_381;
    use ark_poly_commit::streaming_kzg::{CommitterKey, EvaluationProof, VerifierKey};
    type E = Bls12_381;
    let n_cases = ctx.n(4, 24);
    for i in 0..n_cases {
        let id = format!("{}/attack-stream-surplus-points/{}", prop, i);
        if !ctx.selected(&id) {
            continue;
        }
        let mut rng = rng_for(ctx.seed, "attack-stream-surplus-points", i as u64);
        let mep = 2usize; // the key supports two points; three are presented
        let deg = 4 + i % 5;
        let r = guarded(|| -> Result<(bool, bool, String), String> {
            let ck = CommitterKey::<E>::new(deg + 2, mep, &mut rng);
            let vk = VerifierKey::from(&ck);
            let f: Vec<Fr> = (0..=deg).map(|_| Fr::rand(&mut rng)).collect();
            let c = ck.commit(&f);
            let pts: Vec<Fr> = (0..3).map(|_| Fr::rand(&mut rng)).collect();
            let (a0, a1, a2) = (pts[0], pts[1], pts[2]);
            // Z = X^3 + z2 X^2 + z1 X + z0; the verifier keeps z0 + z1 X + z2 X^2
            let z2 = -(a0 + a1 + a2);
            let z1 = a0 * a1 + a0 * a2 + a1 * a2;
            let z0 = -(a0 * a1 * a2);
            if z2.is_zero() {
                return Err("degenerate points".into());
            }
            // f = h·Z' + r, deg r <= 1 (long division by the quadratic Z')
            let mut rem = f.clone();
            let mut h = vec![Fr::zero(); f.len().saturating_sub(2)];
            let z2i = z2.inverse().unwrap();
            for k in (2..rem.len()).rev() {
                let q = rem[k] * z2i;
                h[k - 2] = q;
                rem[k] -= q * z2;
                rem[k - 1] -= q * z1;
                rem[k - 2] -= q * z0;
            }
            let (r0, r1) = (rem[0], rem[1]);
            // Lagrange basis over the three points, coefficients 0 and 1 (the verifier keeps only those of the interpolant)
            let lag = |j: usize| -> (Fr, Fr) {
                let (x, y, w) = (pts[j], pts[(j + 1) % 3], pts[(j + 2) % 3]);
                let d = ((x - y) * (x - w)).inverse().unwrap();
                (y * w * d, -(y + w) * d) // (X-y)(X-w)/d: constant y·w, linear -(y+w)
            };
            let (l0, l1, l2) = (lag(0), lag(1), lag(2));
            // choose v2 freely, solve i0 = r0, i1 = r1 for v0, v1
            let v2 = Fr::rand(&mut rng);
            let (b0, b1) = (r0 - v2 * l2.0, r1 - v2 * l2.1);
            let det = l0.0 * l1.1 - l1.0 * l0.1;
            if det.is_zero() {
                return Err("singular".into());
            }
            let di = det.inverse().unwrap();
            let v0 = (b0 * l1.1 - l1.0 * b1) * di;
            let v1 = (l0.0 * b1 - b0 * l0.1) * di;
            let horner = |p: &[Fr], x: Fr| p.iter().rev().fold(Fr::zero(), |acc, c| acc * x + c);
            let truth = [horner(&f, a0), horner(&f, a1), horner(&f, a2)];
            let claimed = vec![v0, v1, v2];
            let is_false = claimed[..] != truth[..];
            // π = commit(h), obtained through the public API as the opening of h·(X-α) at its root α
            let alpha = Fr::rand(&mut rng);
            let mut g = vec![Fr::zero(); h.len() + 1];
            for (k, hk) in h.iter().enumerate() {
                g[k + 1] += hk;
                g[k] -= *hk * alpha;
            }
            let (_zero, pi) = ck.open(&g, &alpha);
            let eta = Fr::rand(&mut rng);
            let accepted = vk.verify_multi_points(&[c], &pts, &[claimed], &EvaluationProof::<E>(pi.0), &eta).is_ok();
            Ok((accepted, is_false, format!("key for {} points, 3 points presented, degree {}", mep, deg)))
        });
        match r {
            Ok(Ok((accepted, is_false, desc))) => {
                if accepted && is_false {
                    ctx.rep.expect_fail(&id, "streaming_kzg/false-evaluations-accepted/surplus-points",
                        &format!("verify_multi_points accepted FALSE evaluations when given more points than the key supports ({})", desc),
                        format!("# scheme: streaming_kzg\n# case: {}\n# seed: {}\n# {}\n# forgery from public data: claimed values solve the TRUNCATED verification equation\n# rerun: .build/cargo/debug/pcv-harness {} --seed {} --only {}\n", id, ctx.seed, desc, prop, ctx.seed, id));
                }
                ctx.rep.case(&format!("attack stream surplus points {} accepted={} false-claim={}", desc, accepted, is_false), Some(format!("attack-stream-surplus/{}", i % 5)));
            }
            Ok(Err(e)) => ctx.rep.notes.push(format!("{}: attack could not be mounted ({})", id, e)),
            Err(_abort) => {
                // the verifier aborted: a refusal
                ctx.rep.case("attack stream surplus points: verifier aborted (refusal)", Some("attack-stream-surplus/abort".into()));
            }
        }
    }
}

/// Streaming KZG, an evaluation point listed TWICE, for a polynomial with a double root there: the honest
/// multi-point proof exists (the quotient by the vanishing polynomial is exact), the Lagrange denominators of the
/// repeated point are zero. Whatever is claimed at the repeated point must not be accepted (a refusal — the
/// unchanged verifier aborts on the zero inverse — is fine).
fn stream_repeated_point(ctx: &mut Ctx, prop: &str) {
    use ark_bls12_381::Bls12_381;
    use ark_poly_commit::streaming_kzg::{CommitterKey, VerifierKey};
    type E = Bls12_381;
    for i in 0..ctx.n(4, 20) {
        let id = format!("{}/attack-stream-repeated-point/{}", prop, i);
        if !ctx.selected(&id) {
            continue;
        }
        let mut rng = rng_for(ctx.seed, "attack-stream-repeated-point", i as u64);
        let a = if i % 3 == 0 { Fr::zero() } else { Fr::rand(&mut rng) };
        let b = Fr::rand(&mut rng);
        // f = (X - a)^2 · g(X)
        let gdeg = 1 + i % 4;
        let g: Vec<Fr> = (0..=gdeg).map(|_| Fr::rand(&mut rng)).collect();
        let sq = [a * a, -(a + a), Fr::one()];
        let mut f = vec![Fr::zero(); g.len() + 2];
        for (k, gk) in g.iter().enumerate() {
            for (j, sj) in sq.iter().enumerate() {
                f[k + j] += *gk * sj;
            }
        }
        let horner = |p: &[Fr], x: Fr| p.iter().rev().fold(Fr::zero(), |acc, c| acc * x + c);
        let pts = vec![a, a, b];
        let r = guarded(|| {
            let ck = CommitterKey::<E>::new(f.len() + 1, 3, &mut rng);
            let vk = VerifierKey::from(&ck);
            let c = ck.commit(&f);
            let eta = Fr::rand(&mut rng);
            let pi = ck.batch_open_multi_points(&[&f], &pts, &eta);
            let claimed = vec![Fr::from(5u64), Fr::from(7u64), horner(&f, b)];
            vk.verify_multi_points(&[c], &pts, &[claimed], &pi, &eta).is_ok()
        });
        let accepted = matches!(r, Ok(true));
        if accepted {
            ctx.rep.expect_fail(&id, "streaming_kzg/false-evaluations-accepted/repeated-point",
                "verify_multi_points accepted false values at a point listed twice (polynomial with a double root there)",
                format!("# scheme: streaming_kzg\n# case: {}\n# seed: {}\n# points [a, a, b], f = (X-a)^2·g, claimed f(a) = 5 and 7 (true value 0)\n# rerun: .build/cargo/debug/pcv-harness {} --seed {} --only {}\n", id, ctx.seed, prop, ctx.seed, id));
        }
        ctx.rep.case(&format!("attack stream repeated point accepted={} (verifier outcome {:?})", accepted, r.as_ref().map(|b| *b).map_err(|e| e.chars().take(40).collect::<String>())), Some(format!("attack-stream-repeated/{}", i % 4)));
    }
}

/// A commitment to a polynomial of degree 10 made WITHOUT bound is presented under the enforced bound 5 with
/// the identity element as its shifted part, together with the library's own proofs for the unbounded
/// commitment: `check`, `batch_check` and `check_combinations` (single term, coefficient one) must not accept a
/// non-zero value (the verifier's equation then contains the extra term `ξ'·v·…` of the bound, which only
/// vanishes for `v = 0`). MarlinKZG10 and the inner-product argument (the two schemes with shifted commitments).
fn identity_shifted_relabel(ctx: &mut Ctx, prop: &str) {
    use ark_poly_commit::{Evaluations, LabeledCommitment, LinearCombination, QuerySet};
    fn go<PC, FC>(ctx: &mut Ctx, prop: &str, name: &str, craft: FC)
    where
        PC: PolynomialCommitment<Fr, UniPoly>,
        FC: Fn(&PC::Commitment) -> PC::Commitment,
    {
        for i in 0..ctx.n(3, 12) {
            let id = format!("{}/attack-identity-shifted/{}/{}", prop, name, i);
            if !ctx.selected(&id) {
                continue;
            }
            let mut rng = rng_for(ctx.seed, "attack-identity-shifted", i as u64);
            let (deg, bound) = (10 + i % 3, 5 + i % 2);
            let r = guarded(|| -> Result<Vec<(&'static str, bool)>, String> {
                let pp = PC::setup(15, None, &mut rng).map_err(|e| format!("setup {:?}", e))?;
                let (ck, vk) = PC::trim(&pp, 15, 0, Some(&[bound])).map_err(|e| format!("trim {:?}", e))?;
                let poly = <UniPoly as DenseUVPolynomial<Fr>>::rand(deg, &mut rng);
                let lp = LabeledPolynomial::new("p".to_string(), poly.clone(), None, None);
                let (comms, sts) = PC::commit(&ck, [&lp], None).map_err(|e| format!("commit {:?}", e))?;
                let mut z = Fr::rand(&mut rng);
                while poly.evaluate(&z).is_zero() || z.is_zero() {
                    z = Fr::rand(&mut rng);
                }
                let v = poly.evaluate(&z);
                let crafted = vec![LabeledCommitment::new("p".to_string(), craft(comms[0].commitment()), Some(bound))];
                let mut out = vec![];
                // single opening
                let mut sp = generic::fresh_sponge();
                let pf = PC::open(&ck, [&lp], &comms, &z, &mut sp, &sts, None).map_err(|e| format!("open {:?}", e))?;
                let mut sp = generic::fresh_sponge();
                out.push(("check", PC::check(&vk, &crafted, &z, [v], &pf, &mut sp, None).unwrap_or(false)));
                // batch
                let mut qs = QuerySet::new();
                qs.insert(("p".to_string(), ("z".to_string(), z)));
                let mut ev = Evaluations::new();
                ev.insert(("p".to_string(), z), v);
                let mut sp = generic::fresh_sponge();
                let bp = PC::batch_open(&ck, [&lp], &comms, &qs, &mut sp, &sts, None).map_err(|e| format!("batch_open {:?}", e))?;
                let mut sp = generic::fresh_sponge();
                out.push(("batch_check", PC::batch_check(&vk, &crafted, &qs, &ev, &bp, &mut sp, &mut rng).unwrap_or(false)));
                // combination 1·p
                let lc = LinearCombination::new("lc", vec![(Fr::one(), "p".to_string())]);
                let mut lqs = QuerySet::new();
                lqs.insert(("lc".to_string(), ("z".to_string(), z)));
                let mut lev = Evaluations::new();
                lev.insert(("lc".to_string(), z), v);
                let mut sp = generic::fresh_sponge();
                let lp_ = PC::open_combinations(&ck, [&lc], [&lp], &comms, &lqs, &mut sp, &sts, None)
                    .map_err(|e| format!("open_combinations {:?}", e))?;
                let mut sp = generic::fresh_sponge();
                out.push(("check_combinations",
                    PC::check_combinations(&vk, [&lc], &crafted, &lqs, &lev, &lp_, &mut sp, &mut rng).unwrap_or(false)));
                Ok(out)
            });
            match r {
                Ok(Ok(outs)) => {
                    for (what, acc) in &outs {
                        if *acc {
                            ctx.rep.expect_fail(&id, &format!("{}/unenforced-bound-accepted/identity-shifted/{}", name, what),
                                &format!("{} accepted a degree-{} polynomial's commitment presented under the enforced bound {} with the identity as shifted part", what, deg, bound),
                                format!("# scheme: {}\n# case: {}\n# seed: {}\n# commitment made without bound, relabelled Some({}) with shifted_comm = Some(identity); library's own proof; value p(z) != 0\n# rerun: .build/cargo/debug/pcv-harness {} --seed {} --only {}\n", name, id, ctx.seed, bound, prop, ctx.seed, id));
                        }
                    }
                    ctx.rep.case(&format!("attack identity-shifted {} deg={} bound={} {:?}", name, deg, bound, outs), Some(format!("attack-identity-shifted/{}", name)));
                }
                Ok(Err(e)) | Err(e) => {
                    // a refusal anywhere (e.g. an assertion on the crafted commitment) is not an acceptance
                    ctx.rep.case(&format!("attack identity-shifted {} refused: {}", name, e.chars().take(60).collect::<String>()), Some(format!("attack-identity-shifted/{}/refused", name)));
                }
            }
        }
    }
    go::<generic::MarlinPC, _>(ctx, prop, "marlin", |c| {
        let mut c = c.clone();
        c.shifted_comm = Some(ark_poly_commit::kzg10::Commitment(ark_bls12_381::G1Affine::zero()));
        c
    });
    go::<IpaPC, _>(ctx, prop, "ipa", |c| {
        let mut c = c.clone();
        c.shifted_comm = Some(G1Affine::zero());
        c
    });
}

/// Streaming KZG, a key made for ZERO evaluation points: the verifier key derived from the stream key has a
/// single G2 power, the MSM of `verify` truncates `[-α, 1]` to `-α·g2`, and `π = −(C − v·g)/α` — obtainable
/// through the public prover as the quotient of a crafted polynomial — proves any value `v` (D22).  Whatever the
/// claim, such a key must not produce a positive verification result for a false value.
fn stream_zero_eval_points(ctx: &mut Ctx, prop: &str) {
    use ark_bls12_381::Bls12_381;
    use ark_poly_commit::streaming_kzg::{CommitterKey, CommitterKeyStream, VerifierKey};
    type E = Bls12_381;
    for i in 0..ctx.n(3, 12) {
        let id = format!("{}/attack-stream-zero-eval-points/{}", prop, i);
        if !ctx.selected(&id) {
            continue;
        }
        let mut rng = rng_for(ctx.seed, "attack-stream-zero-eval-points", i as u64);
        let deg = 2 + i % 6;
        let r = guarded(|| -> (bool, bool) {
            let ck = CommitterKey::<E>::new(deg + 2, 0, &mut rng);
            let cks = CommitterKeyStream::from(&ck);
            let vk = if i % 2 == 0 { VerifierKey::from(&cks) } else { VerifierKey::from(&ck) };
            let f: Vec<Fr> = (0..=deg).map(|_| Fr::rand(&mut rng)).collect();
            let c = ck.commit(&f);
            let mut alpha = Fr::rand(&mut rng);
            while alpha.is_zero() {
                alpha = Fr::rand(&mut rng);
            }
            let (v, pi) = ck.open(&f, &alpha);
            let honest = vk.verify(&c, &alpha, &v, &pi).is_ok();
            // quotient q = −(f − v2)/α, obtained as the proof of opening h = q·(X − α) at α
            let v2 = v + Fr::one() + Fr::from(i as u64);
            let ai = alpha.inverse().unwrap();
            let mut q: Vec<Fr> = f.iter().map(|x| -*x * ai).collect();
            q[0] += v2 * ai;
            let mut h = vec![Fr::zero(); q.len() + 1];
            for (k, qk) in q.iter().enumerate() {
                h[k + 1] += *qk;
                h[k] -= *qk * alpha;
            }
            let (_, forged) = ck.open(&h, &alpha);
            (honest, vk.verify(&c, &alpha, &v2, &forged).is_ok())
        });
        let accepted = matches!(r, Ok((_, true)));
        if accepted {
            ctx.rep.expect_fail(&id, "streaming_kzg/false-evaluation-accepted/key-for-zero-evaluation-points",
                "verify accepted a FALSE evaluation under a key made for zero evaluation points (proof = quotient of a crafted polynomial, from the public prover)",
                format!("# scheme: streaming_kzg\n# case: {}\n# seed: {}\n# CommitterKey::new({}, 0), verifier key from the {} key; claimed value = true value + {}; proof = open(q·(X-α), α).1 with q = -(f - v)/α\n# rerun: .build/cargo/debug/pcv-harness {} --seed {} --only {}\n",
                    id, ctx.seed, deg + 2, if i % 2 == 0 { "stream" } else { "time" }, 1 + i, prop, ctx.seed, id));
        }
        ctx.rep.case(&format!("attack stream zero-eval-points key (from {} key): {:?}", if i % 2 == 0 { "stream" } else { "time" }, r.as_ref().map_err(|e| e.chars().take(40).collect::<String>())), Some(format!("attack-stream-zero-eval/{}", i % 2)));
    }
}

/// Streaming KZG, a polynomial with more coefficients than the key has powers: no prover may answer (D24: the
/// time-efficient committer's MSM dropped the surplus coefficients — the commitment of the truncation).
fn stream_oversize_polynomial(ctx: &mut Ctx, prop: &str) {
    use ark_bls12_381::Bls12_381;
    use ark_poly_commit::streaming_kzg::{CommitterKey, CommitterKeyStream};
    type E = Bls12_381;
    for i in 0..ctx.n(4, 16) {
        let id = format!("{}/attack-stream-oversize-polynomial/{}", prop, i);
        if !ctx.selected(&id) {
            continue;
        }
        let mut rng = rng_for(ctx.seed, "attack-stream-oversize-polynomial", i as u64);
        let d = 1 + i % 7;
        let surplus = 1 + i % 4;
        let ck = match guarded(|| CommitterKey::<E>::new(d, 2, &mut rng)) {
            Ok(k) => k,
            Err(_) => continue,
        };
        let f: Vec<Fr> = (0..d + 1 + surplus).map(|_| rand_nonzero(&mut rng)).collect();
        let alpha = Fr::rand(&mut rng);
        let pts = vec![Fr::rand(&mut rng), Fr::rand(&mut rng)];
        let mut answered: Vec<&str> = vec![];
        if guarded(|| ck.commit(&f)).is_ok() {
            answered.push("time commit");
        }
        if guarded(|| ck.batch_commit(&[f.clone()])).is_ok() {
            answered.push("time batch_commit");
        }
        if guarded(|| ck.open(&f, &alpha)).is_ok() {
            answered.push("time open");
        }
        if guarded(|| ck.open_multi_points(&f, &pts)).is_ok() {
            answered.push("time open_multi_points");
        }
        let sk = CommitterKeyStream::from(&ck);
        let fs = ark_std::iterable::Reverse(f.as_slice());
        if guarded(|| sk.commit(&fs)).is_ok() {
            answered.push("space commit");
        }
        if guarded(|| sk.open(&fs, &alpha, 4)).is_ok() {
            answered.push("space open");
        }
        if !answered.is_empty() {
            ctx.rep.expect_fail(&id, "streaming_kzg/out-of-domain-answered/polynomial-longer-than-the-key",
                &format!("a polynomial of {} coefficients under a key of {} powers was answered by: {}", f.len(), d + 1, answered.join(", ")),
                format!("# scheme: streaming_kzg\n# case: {}\n# seed: {}\n# CommitterKey::new({}, 2); polynomial of {} coefficients\n# rerun: .build/cargo/debug/pcv-harness {} --seed {} --only {}\n", id, ctx.seed, d, f.len(), prop, ctx.seed, id));
        }
        ctx.rep.case(&format!("attack stream oversize polynomial key {} len {} answered {:?}", d + 1, f.len(), answered), Some(format!("attack-stream-oversize/{}", surplus)));
    }
}

/// IPA `check_combinations`, a commitment WITHOUT degree bound that carries a stray `shifted_comm` (a field the
/// prover controls): the combining loop pushed a second element for it while one element per unbounded
/// combination is read back, so the NEXT combination was paired with the stray element — with
/// `shifted_comm = commit(q)` and the library's proof for `(p1, q)`, the false value `q(z)` verified for the
/// honestly committed `p2` (D26).  Must not be accepted.
fn ipa_stray_shifted_commitment(ctx: &mut Ctx, prop: &str) {
    use ark_poly_commit::ipa_pc::Commitment;
    use ark_poly_commit::{Evaluations, LabeledCommitment, LinearCombination, QuerySet};
    for i in 0..ctx.n(3, 12) {
        let id = format!("{}/attack-ipa-stray-shifted/{}", prop, i);
        if !ctx.selected(&id) {
            continue;
        }
        let mut rng = rng_for(ctx.seed, "attack-ipa-stray-shifted", i as u64);
        let d = [3usize, 7, 15][i % 3];
        let r = guarded(|| -> Result<(bool, bool), String> {
            let pp = IpaPC::setup(d, None, &mut rng).map_err(|e| format!("{:?}", e))?;
            let (ck, vk) = IpaPC::trim(&pp, d, 0, None).map_err(|e| format!("{:?}", e))?;
            let rp = |rng: &mut Rng| <UniPoly as DenseUVPolynomial<Fr>>::rand(d, rng);
            let p1 = LabeledPolynomial::new("p1".to_string(), rp(&mut rng), None, None);
            let p2 = LabeledPolynomial::new("p2".to_string(), rp(&mut rng), None, None);
            let q = LabeledPolynomial::new("p2".to_string(), rp(&mut rng), None, None);
            let (comms, _) = IpaPC::commit(&ck, [&p1, &p2], None).map_err(|e| format!("{:?}", e))?;
            let adv_polys = vec![p1.clone(), q.clone()];
            let (adv_comms, adv_states) = IpaPC::commit(&ck, &adv_polys, None).map_err(|e| format!("{:?}", e))?;
            let z = Fr::rand(&mut rng);
            let lcs = vec![
                LinearCombination::new("lc1", vec![(Fr::one(), "p1")]),
                LinearCombination::new("lc2", vec![(Fr::one(), "p2")]),
            ];
            let mut qs = QuerySet::new();
            qs.insert(("lc1".to_string(), ("z".to_string(), z)));
            qs.insert(("lc2".to_string(), ("z".to_string(), z)));
            let mut sp = generic::fresh_sponge();
            let proof = IpaPC::open_combinations(&ck, &lcs, &adv_polys, &adv_comms, &qs, &mut sp, &adv_states, None)
                .map_err(|e| format!("{:?}", e))?;
            let c1_bad = LabeledCommitment::new("p1".to_string(),
                Commitment { comm: comms[0].commitment().comm, shifted_comm: Some(adv_comms[1].commitment().comm) }, None);
            let vcomms = vec![c1_bad, comms[1].clone()];
            let mut evals = Evaluations::new();
            evals.insert(("lc1".to_string(), z), p1.evaluate(&z));
            evals.insert(("lc2".to_string(), z), q.evaluate(&z));
            let falsev = q.evaluate(&z) != p2.evaluate(&z);
            let mut sp = generic::fresh_sponge();
            let acc = IpaPC::check_combinations(&vk, &lcs, &vcomms, &qs, &evals, &proof, &mut sp, &mut rng).unwrap_or(false);
            Ok((falsev, acc))
        });
        if let Ok(Ok((true, true))) = r {
            ctx.rep.expect_fail(&id, "ipa/false-claim-accepted/stray-shifted-commitment",
                "check_combinations accepted a false value for an honestly committed polynomial: another commitment of the list (no degree bound) carried a stray shifted_comm",
                format!("# scheme: ipa\n# case: {}\n# seed: {}\n# lc1 = p1, lc2 = p2 at one point; p1's commitment presented as Commitment {{ comm, shifted_comm: Some(commit(q)) }} with bound None; proof = open_combinations on (p1, q); claimed lc2(z) = q(z)\n# rerun: .build/cargo/debug/pcv-harness {} --seed {} --only {}\n", id, ctx.seed, prop, ctx.seed, id));
        }
        ctx.rep.case(&format!("attack ipa stray shifted_comm d={} -> {:?}", d, r.as_ref().map_err(|e| e.chars().take(40).collect::<String>())), Some(format!("attack-ipa-stray-shifted/{}", d)));
    }
}

/// IPA's round challenges come from a hash (the scheme's random oracle), which the model treats as an oracle:
/// its OUTPUTS are replayed, so what is HASHED must be tied separately.  Every theorem about exceptional round
/// challenges (`ipa_algebraic_forgery_trichotomy`: "λᵢ, ρᵢ are fixed before uᵢ is drawn") needs round `i`'s input
/// to contain the previous challenge, `L_i` and `R_i`, and the first input to contain the combined commitment,
/// the point and the combined value.  Both sides (`open` and `check`) are inspected through a logging digest.
fn ipa_round_challenges_bind_proof(ctx: &mut Ctx, prop: &str) {
    use crate::props_ipa::ipa;
    type LPC = ipa::PC;
    let contains = |hay: &[u8], needle: &[u8]| needle.is_empty() || hay.windows(needle.len()).any(|w| w == needle);
    let ser = |x: &dyn Fn(&mut Vec<u8>)| {
        let mut b = vec![];
        x(&mut b);
        b
    };
    for i in 0..ctx.n(4, 16) {
        let id = format!("{}/ipa-oracle-inputs/{}", prop, i);
        if !ctx.selected(&id) {
            continue;
        }
        let mut rng = rng_for(ctx.seed, "ipa-oracle-inputs", i as u64);
        let d = [3usize, 7, 15, 1][i % 4];
        let hiding = i % 2 == 1;
        let r = guarded(|| -> Result<Vec<String>, String> {
            let pp = LPC::setup(d, None, &mut rng).map_err(|e| format!("{:?}", e))?;
            let (ck, vk) = LPC::trim(&pp, d, if hiding { 1 } else { 0 }, None).map_err(|e| format!("{:?}", e))?;
            let p = <UniPoly as DenseUVPolynomial<Fr>>::rand(d, &mut rng);
            let lp = LabeledPolynomial::new("p".to_string(), p.clone(), None, if hiding { Some(1) } else { None });
            let (comms, sts) = LPC::commit(&ck, [&lp], Some(&mut rng)).map_err(|e| format!("{:?}", e))?;
            let z = Fr::rand(&mut rng);
            let v = p.evaluate(&z);
            let mut problems = vec![];
            ipa::ro_clear();
            let mut sp = generic::fresh_sponge();
            let proof = LPC::open(&ck, [&lp], &comms, &z, &mut sp, &sts, Some(&mut rng)).map_err(|e| format!("{:?}", e))?;
            let plog = ipa::ro_take_raw();
            let mut sp = generic::fresh_sponge();
            let ok = LPC::check(&vk, &comms, &z, [v], &proof, &mut sp, Some(&mut rng)).map_err(|e| format!("{:?}", e))?;
            let vlog = ipa::ro_take_raw();
            if !ok {
                problems.push("honest proof rejected".to_string());
            }
            let zb = ser(&|b| z.serialize_uncompressed(b).unwrap());
            for (side, log) in [("prover", &plog), ("verifier", &vlog)] {
                // group the hash-and-retry attempts: inputs that differ only in the 8-byte counter belong to one call
                let mut calls: Vec<Vec<u8>> = vec![];
                for (inp, _) in log.iter() {
                    let body = inp[..inp.len().saturating_sub(8)].to_vec();
                    if calls.last() != Some(&body) {
                        calls.push(body);
                    }
                }
                let k = proof.l_vec.len();
                if calls.len() < k + 1 {
                    problems.push(format!("{}: {} oracle calls for {} rounds", side, calls.len(), k));
                    continue;
                }
                let rounds = &calls[calls.len() - k..];
                let pre = &calls[..calls.len() - k];
                if !pre.iter().any(|c| contains(c, &zb)) {
                    problems.push(format!("{}: no oracle input before the rounds contains the evaluation point", side));
                }
                for j in 0..k {
                    let lb = ser(&|b| proof.l_vec[j].serialize_uncompressed(b).unwrap());
                    let rb = ser(&|b| proof.r_vec[j].serialize_uncompressed(b).unwrap());
                    if !contains(&rounds[j], &lb) {
                        problems.push(format!("{}: the input of round challenge {} does not contain L_{}", side, j + 1, j + 1));
                    }
                    if !contains(&rounds[j], &rb) {
                        problems.push(format!("{}: the input of round challenge {} does not contain R_{}", side, j + 1, j + 1));
                    }
                    // chained to the previous challenge: the previous call's OUTPUT-derived field element, serialized
                    let prev_out = log.iter().rev().find(|(inp, _)| inp[..inp.len().saturating_sub(8)] == *(if j == 0 { &pre[pre.len() - 1] } else { &rounds[j - 1] }))
                        .and_then(|(_, out)| Fr::from_random_bytes(out));
                    if let Some(pc) = prev_out {
                        let pb = ser(&|b| pc.serialize_uncompressed(b).unwrap());
                        if !contains(&rounds[j], &pb) {
                            problems.push(format!("{}: the input of round challenge {} does not contain the previous challenge", side, j + 1));
                        }
                    }
                }
            }
            Ok(problems)
        });
        match r {
            Ok(Ok(problems)) => {
                if !problems.is_empty() {
                    ctx.rep.model_disagreements.push(Failure {
                        case_id: id.clone(),
                        signature: "ipa/oracle-input-structure".into(),
                        what: format!("IPA random-oracle inputs do not bind the transcript: {}", problems.join("; ")),
                        replay: format!("# property {}: the model replays the random oracle's outputs; what is hashed is checked here\n# case: {}\n# seed: {}\n# degree {} hiding {}\n# {}\n# rerun: .build/cargo/debug/pcv-harness {} --seed {} --only {}\n", prop, id, ctx.seed, d, hiding, problems.join("\n# "), prop, ctx.seed, id),
                    });
                }
                ctx.rep.case(&format!("ipa oracle inputs d={} hiding={} problems={}", d, hiding, problems.len()), Some(format!("ipa-oracle-inputs/{}/{}", d, hiding)));
            }
            Ok(Err(e)) | Err(e) => ctx.rep.notes.push(format!("{}: could not run ({})", id, e.chars().take(80).collect::<String>())),
        }
    }
}
