//! Constructive attacks for C03: forgeries that exist exactly when a shape check of a verifier is
//! weakened. They turn "the model refuses what the implementation answers" into a concrete false value
//! that is accepted. On the unchanged tree every forgery must be refused.
use crate::common::*;
use crate::generic::{self, IpaPC, UniPoly};
use crate::Ctx;
use ark_bls12_381::{Fr, G1Affine, G1Projective};
use ark_crypto_primitives::sponge::CryptographicSponge;
use ark_ec::{AffineRepr, CurveGroup, VariableBaseMSM};
use ark_ff::{Field, One, UniformRand, Zero};
use ark_poly::{DenseUVPolynomial, Polynomial};
use ark_poly_commit::ipa_pc::Proof as IpaProof;
use ark_poly_commit::{LabeledPolynomial, PolynomialCommitment, CHALLENGE_SIZE};
use ark_serialize::CanonicalSerialize;
use blake2::{Blake2s256, Digest};

pub fn run(ctx: &mut Ctx, prop: &str) {
    if prop == "C03" {
        ipa_stretched(ctx);
    }
}

/// the scheme's random oracle (hash-and-retry into the scalar field)
fn ro(bytes: &[u8]) -> Fr {
    let mut i = 0u64;
    loop {
        let mut input = bytes.to_vec();
        input.extend(i.to_le_bytes());
        let hash = Blake2s256::digest(input.as_slice());
        if let Some(c) = Fr::from_random_bytes(&hash) {
            return c;
        }
        i += 1;
    }
}

fn msm(bases: &[G1Affine], scalars: &[Fr]) -> G1Projective {
    <G1Projective as VariableBaseMSM>::msm_unchecked(bases, scalars)
}

fn ip(a: &[Fr], b: &[Fr]) -> Fr {
    a.iter().zip(b).map(|(x, y)| *x * y).sum()
}

/// IPA, `k` halving rounds too many: the folding argument run over the key padded with identity points
/// proves ANY value if the verifier tolerates the longer `l_vec`/`r_vec` (its check polynomial then has
/// more coefficients than the key has generators and the MSM truncates). Single unbounded non-hiding
/// polynomial; also `k` rounds too few is tried with the truncated key.
fn ipa_stretched(ctx: &mut Ctx) {
    let n_cases = ctx.n(6, 40);
    for i in 0..n_cases {
        let id = format!("C03/attack-ipa-stretched/{}", i);
        if !ctx.selected(&id) {
            continue;
        }
        let mut rng = rng_for(ctx.seed, "C03/attack-ipa-stretched", i as u64);
        let degree = [1usize, 3, 7, 15][i % 4];
        let extra = 1 + (i / 4) % 2;
        let n = degree + 1;
        let r = guarded(|| -> Result<(bool, String), String> {
            let pp = IpaPC::setup(degree, None, &mut rng).map_err(|e| err_kind(&e))?;
            let (ck, vk) = IpaPC::trim(&pp, degree, 0, None).map_err(|e| err_kind(&e))?;
            if ck.comm_key.len() != n {
                return Err("key length".into());
            }
            let p = UniPoly::rand(degree, &mut rng);
            let lp = LabeledPolynomial::new("p".to_string(), p.clone(), None, None);
            let (comms, _states) = IpaPC::commit(&ck, [&lp], Some(&mut rng)).map_err(|e| err_kind(&e))?;
            let z = Fr::rand(&mut rng);
            let value = p.evaluate(&z);
            let false_value = value + Fr::one() + Fr::rand(&mut rng).square();
            if false_value == value {
                return Err("degenerate".into());
            }
            // opening challenge of the single polynomial, as `check` will derive it from a fresh sponge
            let ch: Fr = generic::fresh_sponge().squeeze_field_elements_with_sizes(&[CHALLENGE_SIZE])[0];
            let combined_commitment = (comms[0].commitment().comm * ch).into_affine();
            let combined_v = ch * false_value;
            let mut bytes = Vec::new();
            combined_commitment.serialize_uncompressed(&mut bytes).unwrap();
            z.serialize_uncompressed(&mut bytes).unwrap();
            combined_v.serialize_uncompressed(&mut bytes).unwrap();
            let mut round_challenge = ro(&bytes);
            let h_prime = (vk.h * round_challenge).into_affine();
            let big = n << extra;
            let mut coeffs: Vec<Fr> = p.coeffs().iter().map(|c| *c * ch).collect();
            coeffs.resize(big, Fr::zero());
            let z_to_n = z.pow([n as u64]);
            coeffs[n] = ch * (false_value - value) * z_to_n.inverse().ok_or("z = 0")?;
            let mut zs = Vec::with_capacity(big);
            let mut cur = Fr::one();
            for _ in 0..big {
                zs.push(cur);
                cur *= z;
            }
            let mut key: Vec<G1Affine> = ck.comm_key.clone();
            key.resize(big, G1Affine::zero());
            let (mut l_vec, mut r_vec) = (Vec::new(), Vec::new());
            let mut m = big;
            while m > 1 {
                let half = m / 2;
                let (c_l, c_r) = coeffs.split_at(half);
                let (z_l, z_r) = zs.split_at(half);
                let (k_l, k_r) = key.split_at(half);
                let l = (msm(k_l, c_r) + h_prime * ip(c_r, z_l)).into_affine();
                let rr = (msm(k_r, c_l) + h_prime * ip(c_l, z_r)).into_affine();
                l_vec.push(l);
                r_vec.push(rr);
                let mut bytes = Vec::new();
                round_challenge.serialize_uncompressed(&mut bytes).unwrap();
                l.serialize_uncompressed(&mut bytes).unwrap();
                rr.serialize_uncompressed(&mut bytes).unwrap();
                round_challenge = ro(&bytes);
                let inv = round_challenge.inverse().ok_or("zero challenge")?;
                let new_coeffs: Vec<Fr> = c_l.iter().zip(c_r).map(|(a, b)| *a + inv * b).collect();
                let new_zs: Vec<Fr> = z_l.iter().zip(z_r).map(|(a, b)| *a + round_challenge * b).collect();
                let new_key: Vec<G1Affine> = k_l.iter().zip(k_r).map(|(a, b)| (a.into_group() + *b * round_challenge).into_affine()).collect();
                coeffs = new_coeffs;
                zs = new_zs;
                key = new_key;
                m = half;
            }
            let forged = IpaProof::<G1Affine> { l_vec, r_vec, final_comm_key: key[0], c: coeffs[0], hiding_comm: None, rand: None };
            let single = matches!(guarded(|| IpaPC::check(&vk, &comms, &z, [false_value], &forged, &mut generic::fresh_sponge(), Some(&mut rng.clone()))), Ok(Ok(true)));
            Ok((single, format!("degree {} extra rounds {} proof rounds {}", degree, extra, forged.l_vec.len())))
        });
        match r {
            Ok(Ok((accepted, desc))) => {
                if accepted {
                    ctx.rep.expect_fail(&id, "ipa/forged-value-accepted/stretched-proof",
                        &format!("IPA check accepted a FALSE value from a forged proof with too many rounds ({})", desc),
                        format!("# scheme: ipa\n# case: {}\n# seed: {}\n# {}\n# forgery: folding argument over the key padded with identity points, lie placed in coefficient n\n# rerun: .build/cargo/debug/pcv-harness C03 --seed {} --only {}\n", id, ctx.seed, desc, ctx.seed, id));
                }
                ctx.rep.case(&format!("attack ipa stretched {} accepted={}", desc, accepted), Some(format!("attack-ipa/{}/{}", degree, extra)));
            }
            Ok(Err(e)) | Err(e) => {
                ctx.rep.notes.push(format!("{}: attack could not be mounted ({})", id, e));
            }
        }
    }
}
