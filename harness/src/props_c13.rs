//! Property C13 — correspondence / expectation run (see DESIGN.md §5, C13).
//!
//! (a) `calculate_t` (hook) on a (field, λ, d, n) grid: against the model's `calcT` (= `tSpec` with
//!     `q = |F|`) and, independently of the model, against exact big-integer evaluation of the
//!     soundness bound at `t` and `t − 1`;
//! (b) honest proofs of the three linear-code schemes: number and positions of the opened columns
//!     (mirror structs for the crate-private proof / commitment types, `LogSponge` record);
//! (c) the row encoders: hook `reed_solomon`, public `LinearEncode::encode` of the three schemes —
//!     values against the model, linearity and declared length directly;
//! (d) `compute_dimensions` (public `LinCodeParametersInfo`) against the integer model, plus the
//!     factor-4 balancing inequality of C19 evaluated exactly.
use crate::common::*;
use crate::generic::{BrakedownPC, ColH, MTConfig, MlLigeroPC, SparseML, UniLigeroPC, UniPoly};
use crate::wire::{self, Req, Val};
use crate::Ctx;
use ark_bls12_381::Fr;
use ark_crypto_primitives::merkle_tree::{Config, Path};
use ark_ff::{BigInteger, One, PrimeField, UniformRand, Zero};
use ark_poly::{
    DenseUVPolynomial, EvaluationDomain, GeneralEvaluationDomain, MultilinearExtension, Polynomial,
};
use ark_poly_commit::linear_codes::{
    BrakedownPCParams, LigeroPCParams, LinCodeParametersInfo, LinearEncode, MultilinearBrakedown,
    MultilinearLigero, UnivariateLigero,
};
use ark_poly_commit::{verif_hooks, Error, LabeledPolynomial, PolynomialCommitment};
use ark_serialize::{CanonicalDeserialize, CanonicalSerialize};
use ark_std::rand::RngCore;
use num_bigint::BigUint;
use std::collections::HashMap;

// ------------------------------------------------------------------------------------------------
// mirror structs (DESIGN §2.4): same field order as the crate-private types
// ------------------------------------------------------------------------------------------------
#[derive(CanonicalSerialize, CanonicalDeserialize)]
struct MProofSingle {
    paths: Vec<Path<MTConfig>>,
    v: Vec<Fr>,
    columns: Vec<Vec<Fr>>,
}
#[derive(CanonicalSerialize, CanonicalDeserialize)]
struct MProof {
    opening: MProofSingle,
    well_formedness: Option<Vec<Fr>>,
}
#[derive(CanonicalSerialize, CanonicalDeserialize)]
struct MMeta {
    n_rows: usize,
    n_cols: usize,
    n_ext_cols: usize,
}
#[derive(CanonicalSerialize, CanonicalDeserialize)]
struct MComm {
    metadata: MMeta,
    root: <MTConfig as Config>::InnerDigest,
}
#[derive(CanonicalSerialize, CanonicalDeserialize)]
struct MSprsMat {
    n: usize,
    m: usize,
    d: usize,
    ind_ptr: Vec<usize>,
    col_ind: Vec<usize>,
    val: Vec<Fr>,
}
#[derive(CanonicalSerialize, CanonicalDeserialize)]
struct MBrakedownParams {
    sec_param: usize,
    alpha: (usize, usize),
    beta: (usize, usize),
    rho_inv: (usize, usize),
    base_len: usize,
    n: usize,
    m: usize,
    m_ext: usize,
    a_dims: Vec<(usize, usize, usize)>,
    b_dims: Vec<(usize, usize, usize)>,
    start: Vec<usize>,
    end: Vec<usize>,
    a_mats: Vec<MSprsMat>,
    b_mats: Vec<MSprsMat>,
    check_well_formedness: bool,
    leaf_hash_param: (),
    two_to_one_hash_param: (),
    col_hash_params: (),
}

fn mirror<A: CanonicalSerialize, B: CanonicalDeserialize>(a: &A) -> Result<B, String> {
    let mut buf = vec![];
    a.serialize_compressed(&mut buf).map_err(|e| format!("serialize: {:?}", e))?;
    let b = B::deserialize_compressed(&buf[..]).map_err(|e| format!("mirror deserialize: {:?}", e))?;
    Ok(b)
}

// ------------------------------------------------------------------------------------------------
// (a) calculate_t
// ------------------------------------------------------------------------------------------------

fn modulus_big<F: PrimeField>() -> BigUint {
    BigUint::from_bytes_le(&F::MODULUS.to_bytes_le())
}

fn gcd(mut a: u128, mut b: u128) -> u128 {
    while b != 0 {
        let r = a % b;
        a = b;
        b = r;
    }
    a
}

/// Exact evaluation of `2·(1 − d/2)^t + n/q ≤ 2^(−λ)`, `d = d0/d1`, in big integers (independent of
/// the Lean model: the fraction `(2d1 − d0)/(2d1)` is reduced first).
struct Exact {
    pows: HashMap<(u128, u128, usize), (BigUint, BigUint)>,
}
impl Exact {
    fn new() -> Self {
        Exact { pows: HashMap::new() }
    }
    /// requires `0 < d0 < 2·d1`
    fn bound(&mut self, lam: usize, d0: usize, d1: usize, n: usize, q: &BigUint, t: usize) -> bool {
        let b0 = 2 * d1 as u128;
        let a0 = b0 - d0 as u128;
        let g = gcd(a0, b0);
        let (a, b) = (a0 / g, b0 / g);
        if self.pows.len() > 4000 {
            self.pows.clear();
        }
        let (at, bt) = self
            .pows
            .entry((a, b, t))
            .or_insert_with(|| (BigUint::from(a).pow(t as u32), BigUint::from(b).pow(t as u32)));
        // 2·a^t·q·2^λ + n·b^t·2^λ ≤ b^t·q
        let lhs = ((&*at * q) << (lam + 1)) + ((&*bt * BigUint::from(n)) << lam);
        let rhs = &*bt * q;
        lhs <= rhs
    }
}

fn usable(d0: usize, d1: usize) -> bool {
    d1 > 0 && d0 > 0 && (d0 as u128) < 2 * d1 as u128
}

/// Compare the implementation's answer with the property (exact bound at `t`, `t − 1`).
fn judge(
    ex: &mut Exact,
    lam: usize,
    d0: usize,
    d1: usize,
    n: usize,
    q: &BigUint,
    out: &Result<usize, String>,
) -> Option<(&'static str, String)> {
    if !usable(d0, d1) {
        return match out {
            Ok(t) => Some(("unusable-distance-accepted", format!("returned t={} for the unusable distance {}/{}", t, d0, d1))),
            Err(_) => None,
        };
    }
    let exists = (BigUint::from(n) << lam) < *q; // a t exists iff n/q < 2^-λ
    match out {
        Err(e) => {
            if exists {
                Some(("usable-parameters-refused", format!("refused ({}) although the bound is satisfiable", e)))
            } else {
                None
            }
        }
        Ok(t) => {
            let t = *t;
            if !exists {
                return Some(("unusable-parameters-accepted", format!("returned t={} although no t satisfies the bound", t)));
            }
            if t > n {
                return Some(("t-exceeds-codeword", format!("returned t={} > n={}", t, n)));
            }
            if t < n {
                if !ex.bound(lam, d0, d1, n, q, t) {
                    return Some(("t-too-small", format!("returned t={} but the bound fails at t", t)));
                }
                if t > 0 && ex.bound(lam, d0, d1, n, q, t - 1) {
                    return Some(("t-too-large", format!("returned t={} but the bound already holds at t-1", t)));
                }
                None
            } else {
                // capped: the least t is ≥ n
                if n > 0 && ex.bound(lam, d0, d1, n, q, n - 1) {
                    return Some(("t-too-large", format!("returned the cap t=n={} but the bound already holds at n-1", n)));
                }
                None
            }
        }
    }
}

fn n_grid(thorough: bool) -> Vec<usize> {
    let mut v: Vec<usize> = (1..=64).collect();
    if thorough {
        v.extend(65..=512);
        v.extend((512..=4096).step_by(37));
    }
    for k in 0..=40u32 {
        let p = 1usize << k;
        v.push(p);
        v.push(p + 1);
        if p > 1 {
            v.push(p - 1);
        }
    }
    v.sort();
    v.dedup();
    v
}

fn lam_grid(thorough: bool, dense_band: bool) -> Vec<usize> {
    if thorough {
        return (1..=256).collect();
    }
    let mut v = vec![1, 2, 3, 5, 8, 13, 21, 34, 55, 64, 80, 89, 100, 128, 144, 160, 192];
    v.extend((1..200).step_by(7));
    let step = if dense_band { 1 } else { 2 };
    let mut l = 200;
    while l <= 256 {
        v.push(l);
        l += step;
    }
    v.push(256);
    v.sort();
    v.dedup();
    v
}

/// `(2·d1 − d0)/(2·d1)` is `1/2^j`: then `2·(1 − d/2)^t = 2^(−λ)` has the integer solution
/// `t = (λ+1)/j` and the f64 code cannot see the residual `n/|F|` that pushes the minimum to `t + 1`.
fn base_is_power_of_half(d0: usize, d1: usize) -> bool {
    if !usable(d0, d1) {
        return false;
    }
    let b0 = 2 * d1 as u128;
    let a0 = b0 - d0 as u128;
    let g = gcd(a0, b0);
    a0 / g == 1 && (b0 / g).is_power_of_two()
}

/// one grid point: implementation vs exact bound (expectation) and vs the model
fn calct_point<F: PrimeField>(
    ctx: &mut Ctx,
    ex: &mut Exact,
    group: &str,
    fname: &str,
    q: &BigUint,
    qs: &str,
    lam: usize,
    d0: usize,
    d1: usize,
    n: usize,
) {
    let id = format!("C13/{}/{}/{}/{}-{}/{}", group, fname, lam, d0, d1, n);
    if !ctx.selected(&id) {
        return;
    }
    let out: Result<usize, String> = match guarded(|| verif_hooks::calculate_t::<F>(lam, (d0, d1), n)) {
        Ok(Ok(t)) => Ok(t),
        Ok(Err(e)) => Err(err_kind(&e)),
        Err(a) => Err(a),
    };
    let verdict = judge(ex, lam, d0, d1, n, q, &out);
    if let Some((sig, what)) = &verdict {
        let class = if base_is_power_of_half(d0, d1) { "/base-is-power-of-half" } else { "" };
        ctx.rep.expect_fail(
            &id,
            &format!("calculate_t/{}{}", sig, class),
            &format!("calculate_t::<{}>(λ={}, d={}/{}, n={}): {}", fname, lam, d0, d1, n, what),
            format!(
                "# calculate_t::<{}>(sec_param={}, distance=({}, {}), codeword_len={}) = {:?}\n# {}\n# field size q = {}\n# rerun: .build/cargo/debug/pcv-harness C13 --only {}\nc13.tspec lam={} d0={} d1={} n={} q={}\n",
                fname, lam, d0, d1, n, out, what, qs, id, lam, d0, d1, n, qs
            ),
        );
    } else {
        // (a point already reported as an expectation failure is not reported a second time as a
        // model disagreement)
        let mut req = Req::new("c13.calct")
            .arg("lam", wire::nat(lam))
            .arg("d0", wire::nat(d0))
            .arg("d1", wire::nat(d1))
            .arg("n", wire::nat(n))
            .arg("q", Val::N(qs.to_string()));
        let outcome = match &out {
            Ok(t) => {
                req = req.arg("hint", wire::nat(*t));
                ImplOutcome::Ok(vec![("t".into(), Expect::Nat(*t))])
            }
            Err(e) => ImplOutcome::Refuse(e.clone()),
        };
        ctx.ses.ask(&id, req, outcome);
    }
    ctx.rep.count(&format!(
        "{}/{}/{}",
        group,
        fname,
        match &out {
            Ok(t) if *t == n => "capped",
            Ok(_) => "least",
            Err(_) => "refused",
        }
    ));
    ctx.rep.case(
        &format!("calculate_t::<{}>(λ={}, d={}/{}, n={}) = {:?}", fname, lam, d0, d1, n, out),
        // distinct by (field, λ, d, bit length of n, outcome class)
        Some(format!("{}/{}/{}/{}/{}/b{}/{}", group, fname, lam, d0, d1, usize::BITS - n.leading_zeros(), out.is_ok())),
    );
}

fn calct_field<F: PrimeField>(ctx: &mut Ctx, fname: &str, dists: &[(usize, usize)], dense_band: bool) {
    let q = modulus_big::<F>();
    let qs = q.to_string();
    let ns = n_grid(ctx.thorough);
    let lams = lam_grid(ctx.thorough, dense_band);
    let mut ex = Exact::new();
    for &(d0, d1) in dists {
        ex.pows.clear();
        for &lam in &lams {
            for &n in &ns {
                calct_point::<F>(ctx, &mut ex, "calct", fname, &q, &qs, lam, d0, d1, n);
            }
        }
        ctx.flush_model(&format!("C13-calct-{}-{}-{}", fname, d0, d1));
    }
}

fn part_a(ctx: &mut Ctx) {
    // the crate's distances: Ligero (ρ⁻¹ − 1)/ρ⁻¹ for ρ⁻¹ ∈ {2,4,8}, Brakedown β/r = 61000/1521000
    let mut dists: Vec<(usize, usize)> = vec![(1, 2), (3, 4), (7, 8), (61000, 1521000)];
    // random relative distances 0 < d < 1
    let nrand = ctx.n(3, 6);
    for i in 0..nrand {
        let mut rng = rng_for(ctx.seed, "C13/dist", i as u64);
        let d1 = range(&mut rng, 2, 64);
        let d0 = range(&mut rng, 1, d1 - 1);
        dists.push((d0, d1));
    }
    calct_field::<Fr>(ctx, "bls12-381-Fr", &dists, true);
    let few = &dists[..if ctx.thorough { 6 } else { 5 }];
    calct_field::<ark_bls12_377::Fr>(ctx, "bls12-377-Fr", few, false);
    calct_field::<ark_ed_on_bls12_381::Fr>(ctx, "ed-on-bls12-381-Fr", few, false);
    let q = modulus_big::<Fr>();
    let qs = q.to_string();
    let mut ex = Exact::new();
    // boundary of the domain: relative distance exactly 1 (repetition-like codes), small grid
    for &lam in &[1usize, 2, 64, 128, 200, 256] {
        for &n in &[1usize, 2, 3, 4, 66, 130, 1 << 20, 1 << 40] {
            calct_point::<Fr>(ctx, &mut ex, "calct-d1", "bls12-381-Fr", &q, &qs, lam, 1, 1, n);
        }
    }
    // unusable distances: d = 0, d = 2, d > 2, zero denominator
    let bad: Vec<(usize, usize)> = vec![(0, 1), (0, 7), (2, 1), (8, 4), (3, 1), (1, 0), (0, 0)];
    for &(d0, d1) in &bad {
        for &lam in &[1usize, 80, 128, 256] {
            for &n in &[1usize, 64, 1 << 20] {
                calct_point::<Fr>(ctx, &mut ex, "calct-unusable", "bls12-381-Fr", &q, &qs, lam, d0, d1, n);
            }
        }
    }
    ctx.flush_model("C13-calct-boundary");
}

// ------------------------------------------------------------------------------------------------
// (b) honest proofs: number and positions of the opened columns
// ------------------------------------------------------------------------------------------------

fn fold_index(bytes: &[u8], n: usize) -> usize {
    // exact (no usize overflow): big-endian fold mod n
    let mut acc: u128 = 0;
    for &b in bytes {
        acc = ((acc << 8) + b as u128) % (n as u128);
    }
    acc as usize
}

fn bytes_val(bs: &[Vec<u8>]) -> Val {
    Val::L(bs.iter().map(|b| Val::L(b.iter().map(|x| wire::nat(*x as usize)).collect())).collect())
}

fn honest_open<P, PC>(
    ctx: &mut Ctx,
    name: &str,
    case: usize,
    desc: &str,
    max_degree: usize,
    num_vars: Option<usize>,
    polys: Vec<P>,
    point: P::Point,
) where
    P: Polynomial<Fr>,
    P::Point: Clone,
    PC: PolynomialCommitment<Fr, P, Error = Error>,
    PC::CommitterKey: LinCodeParametersInfo<MTConfig, ColH>,
    PC::Proof: CanonicalSerialize,
{
    let id = format!("C13/open/{}/{}", name, case);
    if !ctx.selected(&id) {
        return;
    }
    let mut rng = rng_for(ctx.seed, &format!("C13/open/{}", name), case as u64);
    let replay = |extra: &str| {
        format!(
            "# scheme: {}\n# case: {} ({})\n# {}\n# rerun: .build/cargo/debug/pcv-harness C13 --only {}\n",
            name, id, desc, extra, id
        )
    };
    let sig = |s: &str| format!("{}/{}", name, s);
    let values: Vec<Fr> = polys.iter().map(|p| p.evaluate(&point)).collect();
    let lps: Vec<LabeledPolynomial<Fr, P>> = polys
        .into_iter()
        .enumerate()
        .map(|(i, p)| LabeledPolynomial::new(format!("p{}", i), p, None, None))
        .collect();
    let res = guarded(|| -> Result<_, Error> {
        let pp = PC::setup(max_degree, num_vars, &mut rng)?;
        let (ck, vk) = PC::trim(&pp, max_degree, 0, None)?;
        let (comms, states) = PC::commit(&ck, &lps, None)?;
        let mut sponge = LogSponge::fresh();
        let proof = PC::open(&ck, &lps, &comms, &point, &mut sponge, &states, None)?;
        let mut vsponge = LogSponge::fresh();
        let acc = PC::check(&vk, &comms, &point, values.clone(), &proof, &mut vsponge, None)?;
        Ok((ck, comms, sponge, proof, vsponge, acc))
    });
    let (ck, comms, sponge, proof, vsponge, acc) = match res {
        Ok(Ok(x)) => x,
        Ok(Err(e)) => {
            ctx.rep.expect_fail(&id, &sig("honest-run-refused"), &format!("setup/commit/open/check refused: {:?}", e), replay("refused"));
            ctx.rep.case(desc, None);
            return;
        }
        Err(a) => {
            ctx.rep.expect_fail(&id, &sig("honest-run-aborted"), &format!("setup/commit/open/check aborted: {}", a), replay("aborted"));
            ctx.rep.case(desc, None);
            return;
        }
    };
    if !acc {
        ctx.rep.expect_fail(&id, &sig("honest-rejected"), "honest opening rejected", replay("check != Ok(true)"));
    }
    let mproofs: Vec<MProof> = match mirror(&proof) {
        Ok(x) => x,
        Err(e) => {
            ctx.rep.expect_fail(&id, &sig("mirror-failed"), &e, replay("proof mirror"));
            return;
        }
    };
    let sec = ck.sec_param();
    let dist = ck.distance();
    let squeezes = sponge.squeezed_bytes();
    if vsponge.squeezed_bytes() != squeezes {
        ctx.rep.expect_fail(&id, &sig("verifier-squeezes-differ"), "the verifier derived other byte strings than the prover", replay("sponge records differ"));
    }
    if mproofs.len() != comms.len() {
        ctx.rep.expect_fail(&id, &sig("proof-count"), &format!("{} proofs for {} commitments", mproofs.len(), comms.len()), replay("proof array length"));
    }
    let qs = wire::modulus_decimal::<Fr>();
    let mut cursor = 0usize;
    for (i, (mp, lc)) in mproofs.iter().zip(comms.iter()).enumerate() {
        let mc: MComm = match mirror(lc.commitment()) {
            Ok(x) => x,
            Err(e) => {
                ctx.rep.expect_fail(&id, &sig("mirror-failed"), &e, replay("commitment mirror"));
                return;
            }
        };
        let _ = &mc.root;
        let n_ext = mc.metadata.n_ext_cols;
        let t = match verif_hooks::calculate_t::<Fr>(sec, dist, n_ext) {
            Ok(t) => t,
            Err(e) => {
                ctx.rep.expect_fail(&id, &sig("t-refused"), &format!("calculate_t refused the scheme's own parameters: {:?}", e), replay("calculate_t Err"));
                return;
            }
        };
        let idxs: Vec<usize> = mp.opening.paths.iter().map(|p| p.leaf_index).collect();
        if mp.opening.columns.len() != t || mp.opening.paths.len() != t {
            ctx.rep.expect_fail(
                &id,
                &sig("column-count"),
                &format!("poly {}: {} columns / {} paths opened, t(n_ext={}) = {}", i, mp.opening.columns.len(), mp.opening.paths.len(), n_ext, t),
                replay("number of opened columns != t"),
            );
        }
        if mp.opening.columns.iter().any(|c| c.len() != mc.metadata.n_rows) || mp.opening.v.len() != mc.metadata.n_cols {
            ctx.rep.expect_fail(&id, &sig("shape"), "column height != n_rows or |v| != n_cols", replay("shape"));
        }
        if idxs.iter().any(|&j| j >= n_ext) {
            ctx.rep.expect_fail(&id, &sig("index-out-of-range"), &format!("leaf index outside the codeword (n_ext={}): {:?}", n_ext, idxs), replay("index range"));
        }
        let hi = (cursor + t).min(squeezes.len());
        let mine: Vec<Vec<u8>> = squeezes[cursor.min(hi)..hi].to_vec();
        cursor += t;
        let nb = verif_hooks::get_num_bytes(n_ext);
        let derived: Vec<usize> = mine.iter().map(|b| fold_index(b, n_ext)).collect();
        if mine.len() != t || mine.iter().any(|b| b.len() != nb) || derived != idxs {
            ctx.rep.expect_fail(
                &id,
                &sig("index-not-from-transcript"),
                &format!("poly {}: leaf indices {:?} are not the folds {:?} of the {} squeezed {}-byte strings", i, idxs, derived, mine.len(), nb),
                replay("positions vs sponge record"),
            );
        }
        ctx.ses.ask(
            &format!("{}/idx{}", id, i),
            Req::new("c13.indices").arg("n", wire::nat(n_ext)).arg("bytes", bytes_val(&mine)),
            ImplOutcome::Ok(vec![("idx".into(), Expect::Nats(idxs.clone())), ("nbytes".into(), Expect::Nat(nb))]),
        );
        ctx.ses.ask(
            &format!("{}/t{}", id, i),
            Req::new("c13.calct")
                .arg("lam", wire::nat(sec))
                .arg("d0", wire::nat(dist.0))
                .arg("d1", wire::nat(dist.1))
                .arg("n", wire::nat(n_ext))
                .arg("q", Val::N(qs.clone()))
                .arg("hint", wire::nat(t)),
            ImplOutcome::Ok(vec![("t".into(), Expect::Nat(mp.opening.columns.len()))]),
        );
        ctx.rep.count(&format!("open/{}/{}", name, if t == n_ext { "t-capped" } else { "t-least" }));
        ctx.rep.case(
            &format!("{} {} poly{} n_rows={} n_cols={} n_ext={} t={}", name, desc, i, mc.metadata.n_rows, mc.metadata.n_cols, n_ext, t),
            Some(format!("open/{}/{}/{}/{}", name, mc.metadata.n_rows, n_ext, t)),
        );
    }
    if cursor != squeezes.len() {
        ctx.rep.expect_fail(&id, &sig("extra-squeezes"), &format!("{} byte squeezes recorded, {} consumed by the openings", squeezes.len(), cursor), replay("squeeze count"));
    }
}

fn rand_sparse_ml(rng: &mut Rng, nv: usize) -> SparseML {
    SparseML::rand(nv, rng)
}

fn part_b(ctx: &mut Ctx) {
    let uni_degs: Vec<usize> = if ctx.thorough {
        vec![0, 1, 2, 3, 7, 8, 15, 16, 31, 63, 64, 100, 255, 256, 500, 1023, 1024, 2000, 4095, 10000, 40000]
    } else {
        vec![0, 1, 2, 3, 7, 8, 16, 31, 64, 100, 255, 256, 1023, 2000, 6000]
    };
    for (c, &d) in uni_degs.iter().enumerate() {
        let mut rng = rng_for(ctx.seed, "C13/open/polys-uni", c as u64);
        let k = 1 + c % 2;
        let polys: Vec<UniPoly> = (0..k).map(|j| UniPoly::rand(if j == 0 { d } else { d / 2 }, &mut rng)).collect();
        let z = Fr::rand(&mut rng);
        honest_open::<UniPoly, UniLigeroPC>(ctx, "uni-ligero", c, &format!("degree={} polys={}", d, k), d.max(1), None, polys, z);
    }
    let ml_nv: Vec<usize> = if ctx.thorough { (1..=15).collect() } else { (1..=12).collect() };
    for (c, &nv) in ml_nv.iter().enumerate() {
        let mut rng = rng_for(ctx.seed, "C13/open/polys-ml", c as u64);
        let k = 1 + c % 2;
        let polys: Vec<SparseML> = (0..k).map(|_| rand_sparse_ml(&mut rng, nv)).collect();
        let z: Vec<Fr> = (0..nv).map(|_| Fr::rand(&mut rng)).collect();
        honest_open::<SparseML, MlLigeroPC>(ctx, "ml-ligero", c, &format!("nv={} polys={}", nv, k), 1, Some(nv), polys, z);
    }
    let bd_nv: Vec<usize> = if ctx.thorough { (2..=15).collect() } else { (2..=12).collect() };
    for (c, &nv) in bd_nv.iter().enumerate() {
        let mut rng = rng_for(ctx.seed, "C13/open/polys-bd", c as u64);
        let k = 1 + c % 2;
        let polys: Vec<SparseML> = (0..k).map(|_| rand_sparse_ml(&mut rng, nv)).collect();
        let z: Vec<Fr> = (0..nv).map(|_| Fr::rand(&mut rng)).collect();
        honest_open::<SparseML, BrakedownPC>(ctx, "brakedown", c, &format!("nv={} polys={}", nv, k), 1, Some(nv), polys, z);
    }
    // the index derivation itself, on codeword lengths no proof can reach
    let ncase = ctx.n(60, 600);
    for c in 0..ncase {
        let id = format!("C13/indices/{}", c);
        if !ctx.selected(&id) {
            continue;
        }
        let mut rng = rng_for(ctx.seed, "C13/indices", c as u64);
        let n = match c % 6 {
            0 => range(&mut rng, 1, 300),
            1 => 1usize << range(&mut rng, 0, 40),
            2 => (1usize << range(&mut rng, 1, 40)) - 1,
            3 => (1usize << range(&mut rng, 0, 40)) + 1,
            4 => (rng.next_u64() >> range(&mut rng, 1, 60)) as usize + 1,
            _ => range(&mut rng, 255, 70000),
        };
        let t = range(&mut rng, 0, 12);
        let mut sp = LogSponge::fresh();
        sp.absorb_seed(c as u64);
        let out = guarded(|| verif_hooks::get_indices_from_sponge(n, t, &mut sp));
        let idxs = match out {
            Ok(Ok(v)) => v,
            other => {
                ctx.rep.expect_fail(&id, "indices/refused", &format!("get_indices_from_sponge({}, {}) failed: {:?}", n, t, other.map(|r| r.map_err(|e| err_kind(&e)))), format!("# get_indices_from_sponge(n={}, t={})\n# rerun: .build/cargo/debug/pcv-harness C13 --only {}\n", n, t, id));
                continue;
            }
        };
        let sq = sp.squeezed_bytes();
        let nb = verif_hooks::get_num_bytes(n);
        let derived: Vec<usize> = sq.iter().map(|b| fold_index(b, n)).collect();
        if idxs.len() != t || sq.len() != t || derived != idxs || idxs.iter().any(|&i| i >= n) || sq.iter().any(|b| b.len() != nb) {
            ctx.rep.expect_fail(
                &id,
                "indices/not-in-range-or-not-from-transcript",
                &format!("n={} t={}: indices {:?}, folds of the squeezed bytes {:?}", n, t, idxs, derived),
                format!("# get_indices_from_sponge(n={}, t={})\n# rerun: .build/cargo/debug/pcv-harness C13 --only {}\n", n, t, id),
            );
        }
        ctx.ses.ask(
            &id,
            Req::new("c13.indices").arg("n", wire::nat(n)).arg("bytes", bytes_val(&sq)),
            ImplOutcome::Ok(vec![("idx".into(), Expect::Nats(idxs)), ("nbytes".into(), Expect::Nat(nb))]),
        );
        ctx.rep.count(&format!("indices/bytes-{}", nb));
        ctx.rep.case(&format!("get_indices_from_sponge(n={}, t={})", n, t), Some(format!("indices/{}/{}", n, t)));
    }
    ctx.flush_model("C13-open");
}

// ------------------------------------------------------------------------------------------------
// (c) encoders
// ------------------------------------------------------------------------------------------------

fn lin_comb(a: Fr, x: &[Fr], b: Fr, y: &[Fr]) -> Vec<Fr> {
    x.iter().zip(y).map(|(u, v)| a * u + b * v).collect()
}

/// One encoder `enc` on messages of length `m`: values against the RS model, linearity, length.
fn rs_case(
    ctx: &mut Ctx,
    id: &str,
    what: &str,
    m: usize,
    rho_inv: usize,
    enc: &dyn Fn(&[Fr]) -> Result<Vec<Fr>, String>,
) {
    if !ctx.selected(id) {
        return;
    }
    let mut rng = rng_for(ctx.seed, id, 0);
    let x: Vec<Fr> = (0..m).map(|_| Fr::rand(&mut rng)).collect();
    let y: Vec<Fr> = (0..m).map(|i| if i % 3 == 2 { Fr::zero() } else { Fr::rand(&mut rng) }).collect();
    let (a, b) = (Fr::rand(&mut rng), Fr::rand(&mut rng));
    let replay = format!(
        "# {} m={} rho_inv={}\n# x={}\n# y={}\n# a={} b={}\n# rerun: .build/cargo/debug/pcv-harness C13 --only {}\n",
        what, m, rho_inv, wire::fes(&x), wire::fes(&y), wire::fe(&a), wire::fe(&b), id
    );
    let (ex, ey, ez) = match (enc(&x), enc(&y), enc(&lin_comb(a, &x, b, &y))) {
        (Ok(p), Ok(q), Ok(r)) => (p, q, r),
        other => {
            ctx.rep.expect_fail(id, &format!("{}/encode-refused", what), &format!("encoder refused a message of the declared length: {:?}", other.0.err().or(other.1.err()).or(other.2.err())), replay);
            return;
        }
    };
    let dom = GeneralEvaluationDomain::<Fr>::new(m * rho_inv);
    let declared = (m * rho_inv).next_power_of_two();
    if ex.len() != declared || ey.len() != declared || ez.len() != declared {
        ctx.rep.expect_fail(id, &format!("{}/length", what), &format!("codeword length {} != declared {}", ex.len(), declared), replay.clone());
    }
    if ez != lin_comb(a, &ex, b, &ey) {
        ctx.rep.expect_fail(id, &format!("{}/not-linear", what), "E(a·x + b·y) != a·E(x) + b·E(y)", replay.clone());
    }
    if let Some(dom) = dom {
        let omega = dom.group_gen();
        ctx.ses.ask(
            id,
            Req::new("c13.rs").arg("msg", wire::fes(&x)).arg("omega", wire::fe(&omega)).arg("len", wire::nat(dom.size())),
            ImplOutcome::Ok(vec![("cw".into(), Expect::Fes(ex.clone())), ("len".into(), Expect::Nat(ex.len()))]),
        );
    }
    ctx.rep.count(&format!("encode/{}", what));
    ctx.rep.case(&format!("{} m={} rho_inv={} -> {}", what, m, rho_inv, ex.len()), Some(format!("encode/{}/{}/{}", what, m, rho_inv)));
}

fn sprs_val(m: &MSprsMat) -> Val {
    Val::L(
        (0..m.m)
            .map(|j| {
                Val::L(
                    (m.ind_ptr[j]..m.ind_ptr[j + 1])
                        .map(|k| Val::L(vec![wire::nat(m.col_ind[k]), wire::fe(&m.val[k])]))
                        .collect(),
                )
            })
            .collect(),
    )
}

type BdCode = MultilinearBrakedown<Fr, MTConfig, SparseML, ColH>;
type BdParams = BrakedownPCParams<Fr, MTConfig, ColH>;

fn brakedown_case(ctx: &mut Ctx, c: usize, poly_len: usize) {
    let id = format!("C13/encode/brakedown/{}", c);
    if !ctx.selected(&id) {
        return;
    }
    let mut rng = rng_for(ctx.seed, "C13/encode/brakedown", c as u64);
    let pp: BdParams = match guarded(|| BdParams::default(&mut rng, poly_len, c % 2 == 0, (), (), ())) {
        Ok(p) => p,
        Err(a) => {
            ctx.rep.expect_fail(&id, "brakedown/default-params-aborted", &format!("BrakedownPCParams::default({}) aborted: {}", poly_len, a), format!("# poly_len={}\n# rerun: .build/cargo/debug/pcv-harness C13 --only {}\n", poly_len, id));
            return;
        }
    };
    let mp: MBrakedownParams = match mirror(&pp) {
        Ok(x) => x,
        Err(e) => {
            ctx.rep.expect_fail(&id, "brakedown/mirror-failed", &e, String::new());
            return;
        }
    };
    // every ROW of every sparse matrix of the code carries exactly `d` non-zero entries in distinct columns (that is
    // what `make_mat` samples, and what the code's distance rests on): a message symbol that feeds no parity
    // symbol changes one codeword position only
    for (which, mats) in [("A", &mp.a_mats), ("B", &mp.b_mats)] {
        for (lvl, sm) in mats.iter().enumerate() {
            let mut per_row = vec![0usize; sm.n];
            let mut ok = sm.ind_ptr.len() == sm.m + 1 && sm.col_ind.len() == sm.val.len() && sm.val.iter().all(|v| !v.is_zero());
            for r in &sm.col_ind {
                if *r < sm.n { per_row[*r] += 1 } else { ok = false }
            }
            let want = sm.d.min(sm.m);
            if !ok || per_row.iter().any(|c| *c != want) {
                let bad: Vec<usize> = per_row.iter().enumerate().filter(|(_, c)| **c != want).map(|(i, _)| i).take(5).collect();
                ctx.rep.expect_fail(&id, "brakedown/sparse-matrix-row-degree",
                    &format!("matrix {}[{}] ({} x {}, d = {}): rows {:?} do not carry exactly {} non-zero entries", which, lvl, sm.n, sm.m, sm.d, bad, want),
                    format!("# BrakedownPCParams::default(rng, {}, ..): matrix {}[{}]\n# rerun: .build/cargo/debug/pcv-harness C13 --only {}\n", poly_len, which, lvl, id));
            }
        }
    }
    let _ = (mp.sec_param, mp.alpha, mp.beta, mp.rho_inv, mp.base_len, mp.n, mp.check_well_formedness);
    let _ = (&mp.leaf_hash_param, &mp.two_to_one_hash_param, &mp.col_hash_params);
    let m = mp.m;
    let x: Vec<Fr> = (0..m).map(|_| Fr::rand(&mut rng)).collect();
    let y: Vec<Fr> = (0..m).map(|i| if i % 4 == 1 { Fr::zero() } else { Fr::rand(&mut rng) }).collect();
    let (a, b) = (Fr::rand(&mut rng), Fr::rand(&mut rng));
    let enc = |v: &[Fr]| -> Result<Vec<Fr>, String> {
        match guarded(|| BdCode::encode(v, &pp)) {
            Ok(Ok(w)) => Ok(w),
            Ok(Err(e)) => Err(err_kind(&e)),
            Err(a) => Err(a),
        }
    };
    let replay = format!(
        "# brakedown encode poly_len={} m={} m_ext={} levels={}\n# x={}\n# y={}\n# a={} b={}\n# rerun: .build/cargo/debug/pcv-harness C13 --only {}\n",
        poly_len, m, mp.m_ext, mp.a_dims.len(), wire::fes(&x), wire::fes(&y), wire::fe(&a), wire::fe(&b), id
    );
    let base = |msg: &[Fr]| {
        Req::new("c13.brakedown")
            .arg("m", wire::nat(mp.m))
            .arg("mext", wire::nat(mp.m_ext))
            .arg("adims", Val::L(mp.a_dims.iter().map(|d| wire::nats(&[d.0, d.1])).collect()))
            .arg("bdims", Val::L(mp.b_dims.iter().map(|d| wire::nats(&[d.0, d.1])).collect()))
            .arg("start", wire::nats(&mp.start))
            .arg("stop", wire::nats(&mp.end))
            .arg("amats", Val::L(mp.a_mats.iter().map(sprs_val).collect()))
            .arg("bmats", Val::L(mp.b_mats.iter().map(sprs_val).collect()))
            .arg("msg", wire::fes(msg))
    };
    match (enc(&x), enc(&y), enc(&lin_comb(a, &x, b, &y))) {
        (Ok(ex), Ok(ey), Ok(ez)) => {
            if ex.len() != mp.m_ext || ez.len() != mp.m_ext {
                ctx.rep.expect_fail(&id, "brakedown/length", &format!("codeword length {} != m_ext {}", ex.len(), mp.m_ext), replay.clone());
            }
            if ez != lin_comb(a, &ex, b, &ey) {
                ctx.rep.expect_fail(&id, "brakedown/not-linear", "E(a·x + b·y) != a·E(x) + b·E(y)", replay.clone());
            }
            ctx.ses.ask(&id, base(&x), ImplOutcome::Ok(vec![("cw".into(), Expect::Fes(ex.clone())), ("len".into(), Expect::Nat(ex.len()))]));
        }
        other => {
            ctx.rep.expect_fail(&id, "brakedown/encode-refused", &format!("encoder refused a message of length m: {:?}", other.0.err().or(other.1.err()).or(other.2.err())), replay.clone());
        }
    }
    // wrong lengths are refused (EncodingError), by the model too
    for bad in [m + 1, m.saturating_sub(1)] {
        let z: Vec<Fr> = (0..bad).map(|_| Fr::one()).collect();
        let out = enc(&z);
        if out.is_ok() {
            ctx.rep.expect_fail(&id, "brakedown/wrong-length-accepted", &format!("message of length {} accepted (m = {})", bad, m), replay.clone());
        }
        ctx.ses.ask(
            &format!("{}/len{}", id, bad),
            base(&z),
            match out {
                Ok(w) => ImplOutcome::Ok(vec![("cw".into(), Expect::Fes(w))]),
                Err(e) => ImplOutcome::Refuse(e),
            },
        );
    }
    ctx.rep.count(&format!("encode/brakedown/levels-{}", mp.a_dims.len()));
    ctx.rep.case(
        &format!("brakedown encode poly_len={} m={} m_ext={} levels={}", poly_len, m, mp.m_ext, mp.a_dims.len()),
        Some(format!("encode/brakedown/{}/{}", m, mp.a_dims.len())),
    );
}

fn part_c(ctx: &mut Ctx) {
    let ms: Vec<usize> = if ctx.thorough { vec![1, 2, 3, 4, 5, 7, 8, 16, 31, 32, 64, 100, 128] } else { vec![1, 2, 3, 4, 5, 8, 16, 32, 33] };
    for &m in &ms {
        for &rho in &[1usize, 2, 3, 4, 8] {
            let id = format!("C13/encode/rs-hook/{}/{}", m, rho);
            rs_case(ctx, &id, "reed_solomon", m, rho, &|v: &[Fr]| guarded(|| verif_hooks::reed_solomon::<Fr>(v, rho)));
        }
    }
    type UL = UnivariateLigero<Fr, MTConfig, UniPoly, ColH>;
    type ML = MultilinearLigero<Fr, MTConfig, SparseML, ColH>;
    let mut rng = rng_for(ctx.seed, "C13/encode/setup", 0);
    let upp = <UL as LinearEncode<Fr, MTConfig, UniPoly, ColH>>::setup(8, None, &mut rng, (), (), ());
    let mpp = <ML as LinearEncode<Fr, MTConfig, SparseML, ColH>>::setup(1, Some(3), &mut rng, (), (), ());
    let urho = upp.distance().1;
    let mrho = mpp.distance().1;
    for &m in &ms {
        let id = format!("C13/encode/uni-ligero/{}", m);
        rs_case(ctx, &id, "uni-ligero-encode", m, urho, &|v: &[Fr]| match guarded(|| UL::encode(v, &upp)) {
            Ok(Ok(w)) => Ok(w),
            Ok(Err(e)) => Err(err_kind(&e)),
            Err(a) => Err(a),
        });
        let id = format!("C13/encode/ml-ligero/{}", m);
        rs_case(ctx, &id, "ml-ligero-encode", m, mrho, &|v: &[Fr]| match guarded(|| ML::encode(v, &mpp)) {
            Ok(Ok(w)) => Ok(w),
            Ok(Err(e)) => Err(err_kind(&e)),
            Err(a) => Err(a),
        });
    }
    // other rates through the public constructor
    for &rho in &[2usize, 3, 5, 6, 8] {
        let pp = LigeroPCParams::<Fr, MTConfig, ColH>::new(100, rho, true, (), (), ());
        for &m in &[1usize, 2, 3, 4, 16] {
            let id = format!("C13/encode/uni-ligero-rho{}/{}", rho, m);
            rs_case(ctx, &id, "uni-ligero-encode", m, rho, &|v: &[Fr]| match guarded(|| UL::encode(v, &pp)) {
                Ok(Ok(w)) => Ok(w),
                Ok(Err(e)) => Err(err_kind(&e)),
                Err(a) => Err(a),
            });
        }
    }
    ctx.flush_model("C13-rs");
    // Brakedown: poly_len = 2^nv; m ≥ 30 gives at least one recursion level, m ≥ 169 two
    let nvs: Vec<usize> = if ctx.thorough { vec![1, 2, 4, 6, 7, 8, 9, 10, 11, 12, 13] } else { vec![1, 3, 6, 7, 9, 10] };
    for (c, &nv) in nvs.iter().enumerate() {
        brakedown_case(ctx, c, 1usize << nv);
        ctx.flush_model(&format!("C13-brakedown-{}", c));
    }
}

// ------------------------------------------------------------------------------------------------
// (d) compute_dimensions
// ------------------------------------------------------------------------------------------------

fn ceil_div(a: usize, b: usize) -> usize {
    (a + b - 1) / b
}

fn dims_case(ctx: &mut Ctx, id: &str, what: &str, n_poly: usize, t: usize, got: (usize, usize)) {
    let (n, m) = got;
    let replay = format!(
        "# {} N={} t={} -> (n, m) = ({}, {})\n# rerun: .build/cargo/debug/pcv-harness C13 --only {}\nc13.dimensions N={} t={}\n",
        what, n_poly, t, n, m, id, n_poly, t
    );
    if n * m < n_poly || !n.is_power_of_two() || (m > 0 && (m - 1) * n >= n_poly) {
        ctx.rep.expect_fail(id, &format!("{}/dimensions-do-not-fit", what), &format!("N={} t={}: n={} m={}", n_poly, t, n, m), replay.clone());
    }
    // C19 balancing: cost(n) ≤ 4·min over power-of-two row counts, c ∈ {1, 2}
    for c in [1usize, 2] {
        let cost = |np: usize| t * np + c * ceil_div(n_poly, np);
        let mut best = usize::MAX;
        let mut np = 1usize;
        while np <= 2 * n_poly.next_power_of_two() {
            best = best.min(cost(np));
            np *= 2;
        }
        if cost(n) > 4 * best {
            ctx.rep.expect_fail(id, &format!("{}/dimensions-unbalanced", what), &format!("N={} t={} c={}: cost(n={}) = {} > 4·{}", n_poly, t, c, n, cost(n), best), replay.clone());
        }
    }
    ctx.ses.ask(
        id,
        Req::new("c13.dimensions").arg("N", wire::nat(n_poly)).arg("t", wire::nat(t)),
        ImplOutcome::Ok(vec![("n".into(), Expect::Nat(n)), ("m".into(), Expect::Nat(m))]),
    );
    ctx.rep.count(&format!("dimensions/{}", what));
    ctx.rep.case(&format!("{} compute_dimensions N={} t={} -> ({}, {})", what, n_poly, t, n, m), Some(format!("dims/{}/{}/{}", what, n_poly, t)));
}

fn part_d(ctx: &mut Ctx) {
    part_d_p(ctx, "C13")
}

/// `compute_dimensions` against the model with the balancing law, and the exact relative distances, under the ids
/// of `prop` (C13: the codes' parameters; C19: the proof-size law at sizes no commitment is made for)
pub fn part_d_p(ctx: &mut Ctx, prop: &str) {
    let mut ladder: Vec<usize> = (1..=64).collect();
    let mut x = 64f64;
    while x < 65536.0 {
        x *= if ctx.thorough { 1.07 } else { 1.37 };
        ladder.push((x as usize).min(65536));
    }
    for k in 6..=16u32 {
        let p = 1usize << k;
        ladder.extend([p - 1, p, p + 1]);
    }
    if ctx.thorough {
        for k in 17..=30u32 {
            let p = 1usize << k;
            ladder.extend([p - 1, p, p + 1]);
        }
    }
    ladder.sort();
    ladder.dedup();
    for &(sec, rho) in &[(128usize, 4usize), (128, 2), (80, 2), (100, 8)] {
        let pp = LigeroPCParams::<Fr, MTConfig, ColH>::new(sec, rho, true, (), (), ());
        for &n_poly in &ladder {
            let id = format!("{}/dims/ligero-{}-{}/{}", prop, sec, rho, n_poly);
            if !ctx.selected(&id) {
                continue;
            }
            let t = match verif_hooks::calculate_t::<Fr>(sec, pp.distance(), n_poly) {
                Ok(t) => t,
                Err(_) => continue,
            };
            if t > n_poly {
                ctx.rep.expect_fail(&id, "lincode/calculate_t-above-codeword-length",
                    &format!("calculate_t(λ={}, d={:?}, n={}) = {} exceeds the codeword length n (the count is capped at n)", sec, pp.distance(), n_poly, t),
                    format!("# property {}: number of column openings capped at the codeword length\n# case: {}\n# calculate_t::<bls12-381 Fr>({}, {:?}, {}) = {}\n", prop, id, sec, pp.distance(), n_poly, t));
            }
            match guarded(|| pp.compute_dimensions(n_poly)) {
                Ok(got) => dims_case(ctx, &id, "ligero", n_poly, t, got),
                Err(a) => ctx.rep.expect_fail(&id, "ligero/compute-dimensions-aborted", &format!("compute_dimensions({}) aborted: {}", n_poly, a), format!("# sec={} rho_inv={} N={}\n", sec, rho, n_poly)),
            }
        }
    }
    let top = if ctx.thorough { 18 } else { 14 };
    for nv in 0..=top {
        let n_poly = 1usize << nv;
        let id = format!("{}/dims/brakedown/{}", prop, n_poly);
        if !ctx.selected(&id) {
            continue;
        }
        let mut rng = rng_for(ctx.seed, "C13/dims/brakedown", nv as u64);
        let t = match verif_hooks::calculate_t::<Fr>(128, (61 * 1000, 1000 * 1521), n_poly) {
            Ok(t) => t,
            Err(_) => continue,
        };
        match guarded(|| BdParams::default(&mut rng, n_poly, true, (), (), ()).compute_dimensions(n_poly)) {
            Ok(got) => dims_case(ctx, &id, "brakedown", n_poly, t, got),
            Err(a) => ctx.rep.expect_fail(&id, "brakedown/default-params-aborted", &format!("BrakedownPCParams::default({}) aborted: {}", n_poly, a), format!("# N={}\n", n_poly)),
        }
    }
    // the relative distance the codes report (it decides t): Ligero (ρ⁻¹−1)/ρ⁻¹, Brakedown β/r = 61/1521 for the
    // crate's default parameters — compared as exact fractions, independent of how the code writes them
    for &(sec, rho) in &[(128usize, 4usize), (128, 2), (80, 2), (100, 8), (64, 3)] {
        let pp = LigeroPCParams::<Fr, MTConfig, ColH>::new(sec, rho, true, (), (), ());
        let (d0, d1) = pp.distance();
        let id = format!("{}/distance/ligero-{}", prop, rho);
        if (d0 as u128) * (rho as u128) != (d1 as u128) * (rho as u128 - 1) || d1 == 0 {
            ctx.rep.expect_fail(&id, "ligero/distance", &format!("Ligero with rho_inv={} reports relative distance {}/{}, expected {}/{}", rho, d0, d1, rho - 1, rho),
                format!("# LigeroPCParams::new({}, {}, ..).distance() = ({}, {})\n# rerun: .build/cargo/debug/pcv-harness {} --only {}\n", sec, rho, d0, d1, prop, id));
        }
        ctx.rep.case(&format!("ligero distance rho_inv={} -> {}/{}", rho, d0, d1), Some(format!("distance/ligero/{}", rho)));
    }
    for nv in [2usize, 6, 10, 14] {
        let id = format!("{}/distance/brakedown/{}", prop, nv);
        let mut rng = rng_for(ctx.seed, "C13/distance/brakedown", nv as u64);
        if let Ok(pp) = guarded(|| BdParams::default(&mut rng, 1usize << nv, true, (), (), ())) {
            let (d0, d1) = pp.distance();
            if (d0 as u128) * 1521 != (d1 as u128) * 61 || d1 == 0 {
                ctx.rep.expect_fail(&id, "brakedown/distance", &format!("default Brakedown reports relative distance {}/{} (= {:.6}), expected beta/r = 61/1521 (= {:.6})", d0, d1, d0 as f64 / d1 as f64, 61.0 / 1521.0),
                    format!("# BrakedownPCParams::default(.., 2^{}, ..).distance() = ({}, {})\n# rerun: .build/cargo/debug/pcv-harness {} --only {}\n", nv, d0, d1, prop, id));
            }
            ctx.rep.case(&format!("brakedown distance nv={} -> {}/{}", nv, d0, d1), Some(format!("distance/brakedown/{}", nv)));
        }
    }
    ctx.flush_model(&format!("{}-dims", prop));
}

pub fn run(ctx: &mut Ctx) {
    part_a(ctx);
    part_b(ctx);
    part_c(ctx);
    part_d(ctx);
    unusable_parameters(ctx);
    ctx.rep.notes.push(
        "calculate_t is f64 code: its equality with tSpec(q = |F|) is established on the grid (model) and by exact big-integer evaluation of the bound at t and t-1 (harness), not by a theorem".into(),
    );
}

/// "Unusable parameter combinations are reported as errors": a Ligero rate whose FFT domain does not exist in
/// the field (`rho_inv` above the field's two-adicity — the Jubjub scalar field has two-adicity 1, BLS12-381's
/// has 32) must make `setup` / `trim` return an error, not keys (and not abort).
fn unusable_parameters(ctx: &mut Ctx) {
    use crate::generic::FieldToBytesColHasher;
    use ark_poly_commit::linear_codes::LinearCodePCS;
    type J = ark_ed_on_bls12_381::Fr;
    type ColJ = FieldToBytesColHasher<J, blake2::Blake2s256>;
    type UniJ = LinearCodePCS<UnivariateLigero<J, MTConfig, ark_poly::univariate::DensePolynomial<J>, ColJ>, J, ark_poly::univariate::DensePolynomial<J>, MTConfig, ColJ>;
    type MlJ = LinearCodePCS<MultilinearLigero<J, MTConfig, ark_poly::DenseMultilinearExtension<J>, ColJ>, J, ark_poly::DenseMultilinearExtension<J>, MTConfig, ColJ>;
    let mut verdict = |ctx: &mut Ctx, id: String, what: &str, r: Result<Result<(), String>, String>| {
        if !ctx.selected(&id) {
            return;
        }
        match &r {
            Ok(Err(_)) => {}
            Ok(Ok(())) => ctx.rep.expect_fail(&id, "lincode/unusable-parameters-answered",
                &format!("{}: keys were handed out for a rate whose FFT domain does not exist in the field", what),
                format!("# property C13: unusable parameter combinations are reported as errors\n# case: {}\n# {}\n", id, what)),
            Err(e) => ctx.rep.expect_fail(&id, "lincode/unusable-parameters-aborted",
                &format!("{}: aborted instead of reporting an error: {}", what, e.chars().take(80).collect::<String>()),
                format!("# property C13: unusable parameter combinations are reported as errors\n# case: {}\n# {}\n", id, what)),
        }
        ctx.rep.case(&format!("unusable parameters {} -> {:?}", what, r.as_ref().map(|x| x.as_ref().map_err(|e| e.chars().take(40).collect::<String>()))), Some(id.clone()));
    };
    let mut rng = rng_for(ctx.seed, "C13/unusable", 0);
    for d in [1usize, 4, 16] {
        let r = guarded(|| UniJ::setup(d, None, &mut rng).map(|_| ()).map_err(|e| format!("{:?}", e)));
        verdict(ctx, format!("C13/unusable/jubjub/uni-setup/{}", d), &format!("UnivariateLigero::setup({}) over the Jubjub scalar field (two-adicity 1, default rho_inv 4)", d), r);
    }
    for nv in [2usize, 4] {
        let r = guarded(|| MlJ::setup(1, Some(nv), &mut rng).map(|_| ()).map_err(|e| format!("{:?}", e)));
        verdict(ctx, format!("C13/unusable/jubjub/ml-setup/{}", nv), &format!("MultilinearLigero::setup({} variables) over the Jubjub scalar field (two-adicity 1, default rho_inv 2)", nv), r);
    }
    for rho in [2usize, 4, 8] {
        let pp = LigeroPCParams::<J, MTConfig, ColJ>::new(128, rho, true, (), (), ());
        let r = guarded(|| UniJ::trim(&pp, 1, 0, None).map(|_| ()).map_err(|e| format!("{:?}", e)));
        verdict(ctx, format!("C13/unusable/jubjub/uni-trim/{}", rho), &format!("UnivariateLigero::trim with rho_inv {} over the Jubjub scalar field", rho), r);
        let r = guarded(|| MlJ::trim(&pp, 1, 0, None).map(|_| ()).map_err(|e| format!("{:?}", e)));
        verdict(ctx, format!("C13/unusable/jubjub/ml-trim/{}", rho), &format!("MultilinearLigero::trim with rho_inv {} over the Jubjub scalar field", rho), r);
    }
    for rho in [33usize, 40, 64] {
        let pp = LigeroPCParams::<Fr, MTConfig, ColH>::new(128, rho, true, (), (), ());
        let r = guarded(|| UniLigeroPC::trim(&pp, 1, 0, None).map(|_| ()).map_err(|e| format!("{:?}", e)));
        verdict(ctx, format!("C13/unusable/bls/uni-trim/{}", rho), &format!("UnivariateLigero::trim with rho_inv {} over BLS12-381 Fr (two-adicity 32)", rho), r);
    }
}

/// the row-degree law of Brakedown's sparse matrices (see `brakedown_case`), callable from other properties
pub fn brakedown_structure(ctx: &mut Ctx, prop: &str) {
    for (c, nv) in [6usize, 9, 10].iter().enumerate() {
        let id = format!("{}/brakedown-matrix-structure/{}", prop, nv);
        if !ctx.selected(&id) {
            continue;
        }
        let mut rng = rng_for(ctx.seed, "brakedown-matrix-structure", c as u64);
        let poly_len = 1usize << nv;
        let pp: BdParams = match guarded(|| BdParams::default(&mut rng, poly_len, true, (), (), ())) {
            Ok(p) => p,
            Err(_) => continue,
        };
        let mp: MBrakedownParams = match mirror(&pp) {
            Ok(x) => x,
            Err(_) => continue,
        };
        for (which, mats) in [("A", &mp.a_mats), ("B", &mp.b_mats)] {
            for (lvl, sm) in mats.iter().enumerate() {
                let mut per_row = vec![0usize; sm.n];
                let mut ok = sm.ind_ptr.len() == sm.m + 1 && sm.col_ind.len() == sm.val.len() && sm.val.iter().all(|v| !v.is_zero());
                for r in &sm.col_ind {
                    if *r < sm.n { per_row[*r] += 1 } else { ok = false }
                }
                let want = sm.d.min(sm.m);
                if !ok || per_row.iter().any(|c| *c != want) {
                    let bad: Vec<usize> = per_row.iter().enumerate().filter(|(_, c)| **c != want).map(|(i, _)| i).take(5).collect();
                    ctx.rep.expect_fail(&id, "brakedown/sparse-matrix-row-degree",
                        &format!("matrix {}[{}] ({} x {}, d = {}): rows {:?} do not carry exactly {} non-zero entries (a message symbol without parity: the code has distance 1 there)", which, lvl, sm.n, sm.m, sm.d, bad, want),
                        format!("# BrakedownPCParams::default(rng, {}, ..): matrix {}[{}]\n# rerun: .build/cargo/debug/pcv-harness {} --only {}\n", poly_len, which, lvl, prop, id));
                }
            }
        }
        ctx.rep.case(&format!("brakedown matrices nv={} levels={} row degrees", nv, mp.a_mats.len()), Some(format!("brakedown-structure/{}", nv)));
    }
}
