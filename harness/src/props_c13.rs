//! Property C13 — correspondence / expectation run (see DESIGN.md §5, C13).
use crate::Ctx;

pub fn run(ctx: &mut Ctx) {
    let _ = ctx;
}
