//! Property C14 — correspondence / expectation run (see DESIGN.md §5, C14).
use crate::Ctx;

pub fn run(ctx: &mut Ctx) {
    let _ = ctx;
}
