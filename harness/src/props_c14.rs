//! Property C14 — streaming KZG: the space-efficient committer/prover equals the time-efficient
//! one, the verifier accepts exactly the true values, the folded-polynomial iterators enumerate the
//! successive foldings (DESIGN.md §5, C14).
//!
//! The streaming key has private fields: it is made by `CommitterKey::new` from a ChaCha20 RNG and
//! the trapdoor τ is recovered by replaying a clone of the RNG (first field draw) and *verified*
//! against every published power.  The generators are not known as scalars, so the model runs with
//! `g = g2 = 1` and a group element `P` is compared as `P == s·G`, `G = powers_of_g[0]`, with `s`
//! computed by the harness from τ and then compared with the model's scalar.
use crate::common::*;
use crate::wire::{self, Req};
use crate::Ctx;
use ark_bls12_381::{Bls12_381, Fr, G1Affine, G1Projective};
use ark_ec::{AffineRepr, CurveGroup};
use ark_ff::{Field, One, UniformRand, Zero};
use ark_poly_commit::streaming_kzg::{
    Commitment, CommitterKey, CommitterKeyStream, EvaluationProof, FoldedPolynomialStream,
    FoldedPolynomialTree, VerifierKey,
};
use ark_std::iterable::{Iterable, Reverse};
use ark_std::rand::RngCore;

type E = Bls12_381;
const BUFS: &[usize] = &[1, 2, 3, 7, 64, 1 << 20];

// ------------------------------------------------------------------------------------------------
// plain field / polynomial arithmetic of the harness (the "spec" side)
// ------------------------------------------------------------------------------------------------

fn horner(p: &[Fr], x: Fr) -> Fr {
    p.iter().rev().fold(Fr::zero(), |acc, c| acc * x + c)
}

fn eval_be(p: &[Fr], x: Fr) -> Fr {
    p.iter().fold(Fr::zero(), |acc, c| acc * x + c)
}

/// ∏ (X - a), little-endian
fn vanishing(points: &[Fr]) -> Vec<Fr> {
    let mut z = vec![Fr::one()];
    for a in points {
        let mut nz = vec![Fr::zero(); z.len() + 1];
        for (i, c) in z.iter().enumerate() {
            nz[i + 1] += c;
            nz[i] -= *a * c;
        }
        z = nz;
    }
    z
}

/// schoolbook division by a monic `z` of degree m: (quotient, remainder padded to m), little-endian
fn divmod(p: &[Fr], z: &[Fr]) -> (Vec<Fr>, Vec<Fr>) {
    let m = z.len() - 1;
    let mut r = p.to_vec();
    if r.len() < m {
        r.resize(m, Fr::zero());
    }
    let mut q = vec![Fr::zero(); r.len() - m];
    for i in (m..r.len()).rev() {
        let c = r[i];
        q[i - m] = c;
        for j in 0..=m {
            r[i - m + j] -= c * z[j];
        }
    }
    r.truncate(m);
    (q, r)
}

fn fold_le(cs: &[Fr], u: Fr) -> Vec<Fr> {
    cs.chunks(2)
        .map(|c| if c.len() == 2 { c[0] + u * c[1] } else { c[0] })
        .collect()
}

fn foldings_le(cs: &[Fr], chal: &[Fr]) -> Vec<Vec<Fr>> {
    let mut out = vec![];
    let mut cur = cs.to_vec();
    for u in chal {
        cur = fold_le(&cur, *u);
        out.push(cur.clone());
    }
    out
}

fn rev(v: &[Fr]) -> Vec<Fr> {
    v.iter().rev().cloned().collect()
}

fn lin_comb(ps: &[Vec<Fr>], eta: Fr) -> Vec<Fr> {
    let n = ps.iter().map(|p| p.len()).max().unwrap_or(0);
    let mut out = vec![Fr::zero(); n];
    let mut e = Fr::one();
    for p in ps {
        for (i, c) in p.iter().enumerate() {
            out[i] += e * c;
        }
        e *= eta;
    }
    out
}

fn distinct_points(rng: &mut Rng, m: usize) -> Vec<Fr> {
    let mut v: Vec<Fr> = vec![];
    while v.len() < m {
        // small and large values, zero included now and then
        let x = match range(rng, 0, 5) {
            0 => Fr::from(rng.next_u32() as u64 % 17),
            _ => Fr::rand(rng),
        };
        if !v.contains(&x) {
            v.push(x);
        }
    }
    v
}

/// structured coefficient vectors of exactly `len` entries
fn gen_coeffs(rng: &mut Rng, len: usize) -> (Vec<Fr>, &'static str) {
    let mut c: Vec<Fr> = (0..len).map(|_| Fr::rand(rng)).collect();
    if len == 0 {
        return (c, "empty");
    }
    match range(rng, 0, 9) {
        0 => {
            let k = range(rng, 1, len);
            for x in c.iter_mut().skip(len - k) {
                *x = Fr::zero();
            }
            (c, "high-zeros")
        }
        1 => {
            let k = range(rng, 1, len);
            for x in c.iter_mut().take(k) {
                *x = Fr::zero();
            }
            (c, "low-zeros")
        }
        2 => {
            for x in c.iter_mut() {
                if coin(rng) {
                    *x = Fr::zero();
                }
            }
            (c, "sparse")
        }
        3 => {
            for x in c.iter_mut() {
                *x = Fr::from(rng.next_u32() as u64 % 3);
            }
            (c, "small")
        }
        _ => (c, "dense"),
    }
}

// ------------------------------------------------------------------------------------------------
// key with recovered trapdoor
// ------------------------------------------------------------------------------------------------

struct Key {
    ck: CommitterKey<E>,
    tau: Fr,
    g: G1Affine,
    max_degree: usize,
    mep: usize,
}

impl Key {
    fn args(&self, r: Req) -> Req {
        r.arg("g", wire::nat(1))
            .arg("g2", wire::nat(1))
            .arg("tau", wire::fe(&self.tau))
            .arg("D", wire::nat(self.max_degree))
            .arg("mep", wire::nat(self.mep))
    }
    fn desc(&self) -> String {
        format!("D={} mep={}", self.max_degree, self.mep)
    }
    /// `s·G` as the library itself computes it
    fn comm_of(&self, s: Fr) -> Commitment<E> {
        self.ck.commit(&[s])
    }
    fn g_times(&self, s: Fr) -> G1Affine {
        (self.g.into_group() * s).into_affine()
    }
}

/// `CommitterKey::new` + trapdoor recovery; the whole key is checked against `τ`.
fn make_key(ctx: &mut Ctx, id: &str, rng: &mut Rng, max_degree: usize, mep: usize) -> Option<Key> {
    let mut replay = rng.clone();
    let ck = match guarded(|| CommitterKey::<E>::new(max_degree, mep, rng)) {
        Ok(ck) => ck,
        Err(a) => {
            ctx.rep.expect_fail(
                id,
                "streaming_kzg/setup-aborts",
                &format!("CommitterKey::new({}, {}) aborted: {}", max_degree, mep, a),
                format!("# CommitterKey::new({}, {}, rng)\n", max_degree, mep),
            );
            return None;
        }
    };
    let tau = Fr::rand(&mut replay);
    let (ok, g) = {
        let sk = CommitterKeyStream::from(&ck);
        let pg: &[G1Affine] = sk.powers_of_g.0;
        let g2s = &sk.powers_of_g2;
        let mut ok = pg.len() == max_degree + 1
            && g2s.len() == (max_degree + 1).min(mep + 1)
            && ck.max_eval_points() + 1 == g2s.len();
        if ok {
            let mut cur = pg[0].into_group();
            for p in pg.iter() {
                ok &= cur.into_affine() == *p;
                cur *= tau;
            }
            let mut cur2 = g2s[0].into_group();
            for p in g2s.iter() {
                ok &= cur2.into_affine() == *p;
                cur2 *= tau;
            }
            ok &= !pg[0].is_zero() && !g2s[0].is_zero();
        }
        (ok, pg.first().cloned().unwrap_or(G1Affine::zero()))
    };
    if !ok {
        ctx.rep.expect_fail(
            id,
            "streaming_kzg/key-not-powers-of-tau",
            "the key made by CommitterKey::new is not (g·τ^i, g2·τ^i) for the first field draw τ",
            format!("# CommitterKey::new({}, {}, rng) with rng of case {}\n", max_degree, mep, id),
        );
        return None;
    }
    Some(Key {
        ck,
        tau,
        g,
        max_degree,
        mep,
    })
}

fn verify_outcome(r: Result<Result<(), ark_poly_commit::streaming_kzg::VerificationError>, String>) -> ImplOutcome {
    match r {
        Ok(Ok(())) => ImplOutcome::Ok(vec![("b".into(), Expect::Bool(true))]),
        Ok(Err(_)) => ImplOutcome::Ok(vec![("b".into(), Expect::Bool(false))]),
        Err(a) => ImplOutcome::Refuse(a),
    }
}

fn accepted(o: &ImplOutcome) -> bool {
    matches!(o, ImplOutcome::Ok(kvs) if kvs.iter().any(|(k, e)| k == "b" && matches!(e, Expect::Bool(true))))
}

// ------------------------------------------------------------------------------------------------
// single point
// ------------------------------------------------------------------------------------------------

fn single_case(ctx: &mut Ctx, i: usize, max_deg: usize) {
    single_case_p(ctx, "C14", i, max_deg)
}

/// streaming KZG is one of the library's schemes: its single- and multi-point round trips (both provers, both
/// verifier-key derivations, polynomials that fill the key exactly included) under C01's ids
pub fn completeness(ctx: &mut Ctx, prop: &str) {
    for i in 0..ctx.n(14, 40) {
        single_case_p(ctx, prop, i, 24);
    }
    ctx.flush_model(&format!("{}-stream-single", prop));
    interop(ctx, prop);
}

fn single_case_p(ctx: &mut Ctx, prop: &str, i: usize, max_deg: usize) {
    let id = format!("{}/single/{}", prop, i);
    if !ctx.selected(&id) {
        return;
    }
    let mut rng = rng_for(ctx.seed, "C14/single", i as u64);
    // length of the coefficient vector: 0 (empty), 1 (degree 0) … max_deg+1; the first cases sweep
    // the small lengths
    let len = if i <= 6 { i } else { range(&mut rng, 1, max_deg + 1) };
    let extra = match range(&mut rng, 0, 3) {
        0 | 1 => 0,
        2 => 1,
        _ => range(&mut rng, 2, 9),
    };
    // `CommitterKey::new(0, _)` publishes a single G2 power and no verifier G1 element: a key that
    // supports evaluation proofs has max_degree >= 1 (the degenerate key is probed separately)
    let max_degree = ((len.max(1) - 1) + extra).max(1);
    let mep = range(&mut rng, 1, 8);
    let key = match make_key(ctx, &id, &mut rng, max_degree, mep) {
        Some(k) => k,
        None => return,
    };
    let (p, kind) = gen_coeffs(&mut rng, len);
    let alpha = match range(&mut rng, 0, 7) {
        0 => Fr::zero(),
        1 => Fr::one(),
        _ => Fr::rand(&mut rng),
    };
    let desc = format!("single {} len={} kind={}", key.desc(), len, kind);
    let replay = format!(
        "# scheme: streaming_kzg single point\n# {}\n# tau={}\n# p={}\n# alpha={}\n",
        desc,
        wire::fe(&key.tau),
        wire::fes(&p),
        wire::fe(&alpha)
    );
    ctx.rep.count(&format!("single/kind-{}", kind));
    ctx.rep.count(&format!("single/extra-key-{}", extra.min(2)));

    // time-efficient
    let c_t = key.ck.commit(&p);
    let (v_t, pi_t) = key.ck.open(&p, &alpha);
    // spec values
    let v_spec = horner(&p, alpha);
    let c_s = horner(&p, key.tau);
    let q_s = if key.tau != alpha {
        (c_s - v_spec) * (key.tau - alpha).inverse().unwrap()
    } else {
        // τ = α never happens for random draws; fall back to the quotient evaluated directly
        let (q, _) = divmod(&p, &[-alpha, Fr::one()]);
        horner(&q, key.tau)
    };
    let mut scalars_ok = true;
    if key.comm_of(c_s) != c_t {
        scalars_ok = false;
        ctx.rep.expect_fail(&id, "streaming_kzg/single/commit-not-key-defined",
            "time commit != p(τ)·G", replay.clone());
    }
    if v_t != v_spec {
        ctx.rep.expect_fail(&id, "streaming_kzg/single/evaluation-wrong",
            "time open returned an evaluation != p(α)", replay.clone());
    }
    if key.g_times(q_s) != pi_t.0 {
        scalars_ok = false;
        ctx.rep.expect_fail(&id, "streaming_kzg/single/proof-not-key-defined",
            "time proof != ((p(τ)-p(α))/(τ-α))·G", replay.clone());
    }
    if scalars_ok {
        ctx.ses.ask(
            &id,
            key.args(Req::new("c14.time_open")).arg("p", wire::fes(&p)).arg("alpha", wire::fe(&alpha)),
            ImplOutcome::Ok(vec![
                ("c".into(), Expect::Fe(c_s)),
                ("v".into(), Expect::Fe(v_t)),
                ("pi".into(), Expect::Fe(q_s)),
            ]),
        );
    }

    // space-efficient, every buffer size
    {
        let sk = CommitterKeyStream::from(&key.ck);
        let stream = Reverse(p.as_slice());
        let sc = guarded(|| sk.commit(&stream));
        let mut space_outcome: Option<ImplOutcome> = None;
        for &buf in BUFS {
            let so = guarded(|| sk.open(&stream, &alpha, buf));
            let this = match (&sc, &so) {
                (Ok(c), Ok((v, pi))) => {
                    if *c != c_t || *v != v_t || *pi != pi_t {
                        ctx.rep.expect_fail(&id, "streaming_kzg/single/space-ne-time",
                            &format!("space commit/open (buffer {}) differs from time: commit_eq={} value_eq={} proof_eq={}",
                                buf, *c == c_t, *v == v_t, *pi == pi_t),
                            replay.clone());
                    }
                    ImplOutcome::Ok(vec![
                        ("c".into(), Expect::Fe(c_s)),
                        ("v".into(), Expect::Fe(*v)),
                        ("pi".into(), Expect::Fe(q_s)),
                    ])
                }
                (Err(a), _) | (_, Err(a)) => {
                    ctx.rep.expect_fail(&id, "streaming_kzg/single/space-aborts",
                        &format!("space commit/open aborted on an in-domain request (buffer {}): {}", buf, a),
                        replay.clone());
                    ImplOutcome::Refuse(a.clone())
                }
            };
            if space_outcome.is_none() {
                space_outcome = Some(this);
            }
        }
        if scalars_ok {
            ctx.ses.ask(
                &id,
                key.args(Req::new("c14.space_open")).arg("p", wire::fes(&p)).arg("alpha", wire::fe(&alpha)),
                space_outcome.unwrap(),
            );
        }
    }

    // verifier: truth and value+δ, with the key derived from either committer key
    let delta = rand_nonzero(&mut rng);
    for vkfrom in 0..2usize {
        let vk = if vkfrom == 0 {
            guarded(|| VerifierKey::from(&key.ck))
        } else {
            guarded(|| VerifierKey::from(&CommitterKeyStream::from(&key.ck)))
        };
        let vk = match vk {
            Ok(vk) => vk,
            Err(a) => {
                ctx.rep.expect_fail(&id, "streaming_kzg/verifier-key-aborts",
                    &format!("VerifierKey::from aborted (from={}): {}", vkfrom, a), replay.clone());
                continue;
            }
        };
        for (what, v, must) in [("truth", v_t, true), ("value+delta", v_t + delta, false)] {
            let out = verify_outcome(guarded(|| vk.verify(&c_t, &alpha, &v, &pi_t)));
            let acc = accepted(&out);
            if must && !acc {
                ctx.rep.expect_fail(&id, &format!("streaming_kzg/single/honest-rejected/vk{}", vkfrom),
                    "verify did not accept the true evaluation", replay.clone());
            }
            if !must && acc {
                ctx.rep.expect_fail(&id, &format!("streaming_kzg/single/false-accepted/vk{}", vkfrom),
                    "verify accepted value+δ", replay.clone());
            }
            if scalars_ok {
                ctx.ses.ask(
                    &format!("{}/verify-{}-vk{}", id, what, vkfrom),
                    key.args(Req::new("c14.verify"))
                        .arg("vkfrom", wire::nat(vkfrom))
                        .arg("c", wire::fe(&c_s))
                        .arg("alpha", wire::fe(&alpha))
                        .arg("v", wire::fe(&v))
                        .arg("pi", wire::fe(&q_s)),
                    out,
                );
            }
        }
    }
    ctx.rep.case(&desc, Some(format!("single/{}/{}/{}", len, kind, extra.min(2))));
}

// ------------------------------------------------------------------------------------------------
// multi point / multi polynomial
// ------------------------------------------------------------------------------------------------

fn multi_case(ctx: &mut Ctx, i: usize, max_deg: usize) {
    multi_case_p(ctx, "C14", i, max_deg)
}

/// the multi-point cases under another property's id (C09: the two verifier-key derivations interoperate at
/// every number of points up to the maximum; C10: the multi-point verifier decides its relation)
pub fn interop(ctx: &mut Ctx, prop: &str) {
    for i in 0..ctx.n(8, 24) {
        multi_case_p(ctx, prop, i, 24);
    }
    ctx.flush_model(&format!("{}-stream", prop));
}

fn multi_case_p(ctx: &mut Ctx, prop: &str, i: usize, max_deg: usize) {
    let id = format!("{}/multi/{}", prop, i);
    if !ctx.selected(&id) {
        return;
    }
    let mut rng = rng_for(ctx.seed, "C14/multi", i as u64);
    let m = if i < 8 { i + 1 } else { range(&mut rng, 1, 8) };
    let k = if i < 8 { 8 - i } else { range(&mut rng, 1, 8) };
    // coefficient-vector lengths: around m (the streaming prover's window), shorter than m (the
    // polynomial is its own remainder), and the whole range
    let lens: Vec<usize> = (0..k)
        .map(|_| match range(&mut rng, 0, 6) {
            0 => m,
            1 => m + 1,
            2 => range(&mut rng, 0, m - 1),
            _ => range(&mut rng, 1, max_deg + 1),
        })
        .collect();
    let maxlen = *lens.iter().max().unwrap();
    let max_degree = maxlen.max(1) - 1 + [0, 0, 1, 5][range(&mut rng, 0, 3)];
    let max_degree = max_degree.max(m); // a key for m points: max_degree >= max_eval_points >= m (and >= 1)
    let mep = range(&mut rng, m, 8);
    let key = match make_key(ctx, &id, &mut rng, max_degree, mep) {
        Some(k) => k,
        None => return,
    };
    let mut kinds = vec![];
    let polys: Vec<Vec<Fr>> = lens
        .iter()
        .map(|&l| {
            let (p, kind) = gen_coeffs(&mut rng, l);
            kinds.push(kind);
            p
        })
        .collect();
    let pts = distinct_points(&mut rng, m);
    let eta: Fr = if coin(&mut rng) { Fr::from(u128::rand(&mut rng)) } else { Fr::rand(&mut rng) };
    let desc = format!("multi {} points={} polys={} lens={:?}", key.desc(), m, k, lens);
    let replay = format!(
        "# scheme: streaming_kzg multi point\n# {}\n# tau={}\n# polys={}\n# points={}\n# eta={}\n",
        desc,
        wire::fe(&key.tau),
        wire::fess(&polys),
        wire::fes(&pts),
        wire::fe(&eta)
    );
    ctx.rep.count(&format!("multi/points-{}", m));
    ctx.rep.count(&format!("multi/polys-{}", k));

    let z = vanishing(&pts);
    if ark_poly_commit::verif_hooks::vanishing_polynomial(&pts) != z {
        ctx.rep.expect_fail(&id, "streaming_kzg/vanishing-wrong",
            "vanishing_polynomial != ∏(X - a)", replay.clone());
    }
    let evals: Vec<Vec<Fr>> = polys.iter().map(|p| pts.iter().map(|a| horner(p, *a)).collect()).collect();
    let qr: Vec<(Vec<Fr>, Vec<Fr>)> = polys.iter().map(|p| divmod(p, &z)).collect();
    let q_s: Vec<Fr> = qr.iter().map(|(q, _)| horner(q, key.tau)).collect();
    let c_s: Vec<Fr> = polys.iter().map(|p| horner(p, key.tau)).collect();
    let mut e = Fr::one();
    let mut batch_s = Fr::zero();
    for q in &q_s {
        batch_s += e * q;
        e *= eta;
    }

    // time-efficient
    let cs = key.ck.batch_commit(&polys);
    let refs: Vec<&Vec<Fr>> = polys.iter().collect();
    let pi = match guarded(|| key.ck.batch_open_multi_points(&refs, &pts, &eta)) {
        Ok(pi) => pi,
        Err(a) => {
            ctx.rep.expect_fail(&id, "streaming_kzg/multi/time-aborts",
                &format!("batch_open_multi_points aborted on an in-domain request: {}", a), replay.clone());
            return;
        }
    };
    let pis: Vec<EvaluationProof<E>> = polys.iter().map(|p| key.ck.open_multi_points(p, &pts)).collect();
    let mut scalars_ok = true;
    for j in 0..k {
        if key.comm_of(c_s[j]) != cs[j] || key.g_times(q_s[j]) != pis[j].0 {
            scalars_ok = false;
        }
    }
    if key.g_times(batch_s) != pi.0 {
        scalars_ok = false;
    }
    if !scalars_ok {
        ctx.rep.expect_fail(&id, "streaming_kzg/multi/time-not-key-defined",
            "time commitments / quotient commitments differ from p(τ)·G, (p / Z)(τ)·G or their η-combination",
            replay.clone());
    } else {
        ctx.ses.ask(
            &id,
            key.args(Req::new("c14.time_multi"))
                .arg("polys", wire::fess(&polys))
                .arg("pts", wire::fes(&pts))
                .arg("eta", wire::fe(&eta)),
            ImplOutcome::Ok(vec![
                ("pi".into(), Expect::Fe(batch_s)),
                ("pis".into(), Expect::Fes(q_s.clone())),
                ("cs".into(), Expect::Fes(c_s.clone())),
            ]),
        );
    }

    // space-efficient: every polynomial, every buffer size; plus the η-combination
    {
        let sk = CommitterKeyStream::from(&key.ck);
        let mut sum = G1Projective::zero();
        let mut e = Fr::one();
        for j in 0..k {
            let stream = Reverse(polys[j].as_slice());
            let rem_spec = rev(&qr[j].1);
            let mut first: Option<ImplOutcome> = None;
            for &buf in BUFS {
                let this = match guarded(|| sk.open_multi_points(&stream, &pts, buf)) {
                    Ok((rem, spi)) => {
                        if spi != pis[j] {
                            ctx.rep.expect_fail(&id, "streaming_kzg/multi/space-proof-ne-time",
                                &format!("space open_multi_points proof (poly {}, buffer {}) differs from time", j, buf),
                                replay.clone());
                        }
                        if rem != rem_spec {
                            ctx.rep.expect_fail(&id, "streaming_kzg/multi/space-remainder-wrong",
                                &format!("space remainder (poly {}, buffer {}) is not p mod Z", j, buf),
                                replay.clone());
                        }
                        for (a, y) in pts.iter().zip(evals[j].iter()) {
                            if eval_be(&rem, *a) != *y {
                                ctx.rep.expect_fail(&id, "streaming_kzg/multi/space-remainder-evaluation",
                                    &format!("remainder(α) != p(α) (poly {}, buffer {})", j, buf), replay.clone());
                            }
                        }
                        if buf == BUFS[0] {
                            sum += spi.0.into_group() * e;
                        }
                        ImplOutcome::Ok(vec![
                            ("rem".into(), Expect::Fes(rem)),
                            ("pi".into(), Expect::Fe(q_s[j])),
                        ])
                    }
                    Err(a) => {
                        ctx.rep.expect_fail(&id, "streaming_kzg/multi/space-aborts",
                            &format!("space open_multi_points aborted (poly {}, buffer {}): {}", j, buf, a),
                            replay.clone());
                        ImplOutcome::Refuse(a)
                    }
                };
                if first.is_none() {
                    first = Some(this);
                }
            }
            e *= eta;
            if scalars_ok {
                ctx.ses.ask(
                    &format!("{}/space/{}", id, j),
                    key.args(Req::new("c14.space_multi"))
                        .arg("p", wire::fes(&polys[j]))
                        .arg("pts", wire::fes(&pts)),
                    first.unwrap(),
                );
            }
        }
        if sum.into_affine() != pi.0 {
            ctx.rep.expect_fail(&id, "streaming_kzg/multi/space-batch-ne-time",
                "Σ ηʲ·space_proofⱼ differs from batch_open_multi_points", replay.clone());
        }
        // the streaming prover on the explicitly batched polynomial
        let comb = lin_comb(&polys, eta);
        let stream = Reverse(comb.as_slice());
        match guarded(|| sk.open_multi_points(&stream, &pts, BUFS[i % BUFS.len()])) {
            Ok((_, spi)) => {
                if spi != pi {
                    ctx.rep.expect_fail(&id, "streaming_kzg/multi/space-batch-ne-time",
                        "space open_multi_points(Σ ηʲ pⱼ) differs from batch_open_multi_points", replay.clone());
                }
            }
            Err(a) => ctx.rep.expect_fail(&id, "streaming_kzg/multi/space-aborts",
                &format!("space open_multi_points(Σ ηʲ pⱼ) aborted: {}", a), replay.clone()),
        }
    }

    // verifier
    let delta = rand_nonzero(&mut rng);
    let (fa, fb) = (range(&mut rng, 0, k - 1), range(&mut rng, 0, m - 1));
    let mut evals_false = evals.clone();
    evals_false[fa][fb] += delta;
    for vkfrom in 0..2usize {
        let vk = if vkfrom == 0 {
            guarded(|| VerifierKey::from(&key.ck))
        } else {
            guarded(|| VerifierKey::from(&CommitterKeyStream::from(&key.ck)))
        };
        let vk = match vk {
            Ok(vk) => vk,
            Err(a) => {
                ctx.rep.expect_fail(&id, "streaming_kzg/verifier-key-aborts",
                    &format!("VerifierKey::from aborted (from={}): {}", vkfrom, a), replay.clone());
                continue;
            }
        };
        for (what, ev, must) in [("truth", &evals, true), ("value+delta", &evals_false, false)] {
            let out = verify_outcome(guarded(|| vk.verify_multi_points(&cs, &pts, ev, &pi, &eta)));
            let acc = accepted(&out);
            if vkfrom == 0 {
                if must && !acc {
                    ctx.rep.expect_fail(&id, "streaming_kzg/multi/honest-rejected",
                        "verify_multi_points did not accept the true evaluations", replay.clone());
                }
            } else if must && !acc {
                ctx.rep.expect_fail(
                    &id,
                    "streaming_kzg/multi/stream-vk-rejects-truth",
                    "verify_multi_points with the stream-derived verifier key did not accept the true evaluations",
                    replay.clone(),
                );
            }
            if !must && acc {
                ctx.rep.expect_fail(&id, &format!("streaming_kzg/multi/false-accepted/vk{}", vkfrom),
                    "verify_multi_points accepted a changed evaluation", replay.clone());
            }
            if scalars_ok {
                ctx.ses.ask(
                    &format!("{}/verify-{}-vk{}", id, what, vkfrom),
                    key.args(Req::new("c14.verify_multi"))
                        .arg("vkfrom", wire::nat(vkfrom))
                        .arg("cs", wire::fes(&c_s))
                        .arg("pts", wire::fes(&pts))
                        .arg("evals", wire::fess(ev))
                        .arg("pi", wire::fe(&batch_s))
                        .arg("eta", wire::fe(&eta)),
                    out,
                );
            }
        }
    }
    ctx.rep.case(&desc, Some(format!("multi/{}/{}/{}", m, k, maxlen)));
}

/// Polynomials with fewer coefficients than evaluation points: the time prover divides (zero
/// quotient), the streaming prover `unwrap`s the first `m` stream items.
fn short_case(ctx: &mut Ctx, i: usize) {
    let id = format!("C14/short/{}", i);
    let mut rng = rng_for(ctx.seed, "C14/short", i as u64);
    let m = range(&mut rng, 2, 8);
    let len = range(&mut rng, 0, m - 1);
    let key = match make_key(ctx, &id, &mut rng, 8, 8) {
        Some(k) => k,
        None => return,
    };
    let p: Vec<Fr> = (0..len).map(|_| Fr::rand(&mut rng)).collect();
    let pts = distinct_points(&mut rng, m);
    let desc = format!("short {} points={} len={}", key.desc(), m, len);
    let replay = format!(
        "# scheme: streaming_kzg multi point, fewer coefficients than points\n# {}\n# tau={}\n# p={}\n# points={}\n# time: open_multi_points(p, points); space: open_multi_points(Reverse(p), points, 1<<20)\n",
        desc, wire::fe(&key.tau), wire::fes(&p), wire::fes(&pts)
    );
    let t = guarded(|| key.ck.open_multi_points(&p, &pts));
    let sk = CommitterKeyStream::from(&key.ck);
    let stream = Reverse(p.as_slice());
    let s = guarded(|| sk.open_multi_points(&stream, &pts, 1 << 20));
    match (&t, &s) {
        (Ok(tp), Ok((rem, sp))) => {
            let mut padded = p.clone();
            padded.resize(m, Fr::zero());
            if tp != sp || *rem != rev(&padded) {
                ctx.rep.expect_fail(&id, "streaming_kzg/multi/short-polynomial/space-ne-time",
                    "space open_multi_points differs from time on a polynomial shorter than the point set",
                    replay.clone());
            }
        }
        (Ok(_), Err(a)) => {
            ctx.rep.expect_fail(&id, "streaming_kzg/multi/short-polynomial/space-aborts",
                &format!("time open_multi_points answers, space open_multi_points aborts when the polynomial has fewer coefficients ({}) than evaluation points ({}): {}", len, m, a),
                replay.clone());
        }
        (Err(a), _) => {
            ctx.rep.expect_fail(&id, "streaming_kzg/multi/short-polynomial/time-aborts",
                &format!("time open_multi_points aborted: {}", a), replay.clone());
        }
    }
    let out = match s {
        Ok((rem, _)) => ImplOutcome::Ok(vec![("rem".into(), Expect::Fes(rem)), ("pi".into(), Expect::Fe(Fr::zero()))]),
        Err(a) => ImplOutcome::Refuse(a),
    };
    ctx.ses.ask(
        &id,
        key.args(Req::new("c14.space_multi")).arg("p", wire::fes(&p)).arg("pts", wire::fes(&pts)),
        out,
    );
    if t.is_ok() {
        ctx.ses.ask(
            &format!("{}/time", id),
            key.args(Req::new("c14.time_multi"))
                .arg("polys", wire::fess(&[p.clone()]))
                .arg("pts", wire::fes(&pts))
                .arg("eta", wire::nat(1)),
            ImplOutcome::Ok(vec![("pi".into(), Expect::Fe(Fr::zero())), ("pis".into(), Expect::Fes(vec![Fr::zero()]))]),
        );
    }
    ctx.rep.count("multi/short-polynomial");
    ctx.rep.case(&desc, Some(format!("short/{}/{}", m, len)));
}

// ------------------------------------------------------------------------------------------------
// folding iterators
// ------------------------------------------------------------------------------------------------

fn fold_iterators(ctx: &mut Ctx) {
    for n in 1..=130usize {
        for depth in 0..=7usize {
            let id = format!("C14/fold/{}/{}", n, depth);
            let mut rng = rng_for(ctx.seed, "C14/fold", (n * 8 + depth) as u64);
            let cs: Vec<Fr> = (0..n)
                .map(|_| if range(&mut rng, 0, 9) == 0 { Fr::zero() } else { Fr::rand(&mut rng) })
                .collect();
            let chal: Vec<Fr> = (0..depth).map(|_| Fr::rand(&mut rng)).collect();
            let be = rev(&cs);
            let be_slice = be.as_slice();
            let spec = foldings_le(&cs, &chal);
            let replay = format!(
                "# scheme: streaming_kzg folding iterators\n# n={} depth={}\n# coefficients (little-endian)={}\n# challenges={}\n",
                n, depth, wire::fes(&cs), wire::fes(&chal)
            );
            // tree
            let tree = guarded(|| {
                let t = FoldedPolynomialTree::new(&be_slice, chal.as_slice());
                (t.iter().collect::<Vec<(usize, Fr)>>(), t.depth(), t.len())
            });
            let stream = guarded(|| {
                let s = FoldedPolynomialStream::new(&be_slice, chal.as_slice());
                (s.iter().collect::<Vec<Fr>>(), s.len())
            });
            let mut outcome_fields = vec![];
            match &tree {
                Ok((items, d, l)) => {
                    let mut ok = *d == depth && *l == n;
                    for lvl in 1..=depth {
                        let got: Vec<Fr> = items.iter().filter(|(i, _)| *i == lvl).map(|(_, v)| *v).collect();
                        ok &= got == rev(&spec[lvl - 1]);
                    }
                    ok &= items.iter().all(|(i, _)| *i >= 1 && *i <= depth);
                    if !ok {
                        ctx.rep.expect_fail(&id, "streaming_kzg/fold/tree-ne-naive-fold",
                            "FoldedPolynomialTree does not enumerate the coefficients of the successive foldings",
                            replay.clone());
                    }
                    outcome_fields.push(("tree_levels".to_string(), Expect::Nats(items.iter().map(|x| x.0).collect())));
                    outcome_fields.push(("tree_values".to_string(), Expect::Fes(items.iter().map(|x| x.1).collect())));
                }
                Err(a) => ctx.rep.expect_fail(&id, "streaming_kzg/fold/tree-aborts",
                    &format!("FoldedPolynomialTree iteration aborted: {}", a), replay.clone()),
            }
            match &stream {
                Ok((items, l)) => {
                    let want = if depth == 0 { be.clone() } else { rev(&spec[depth - 1]) };
                    if *items != want || *l != want.len() {
                        ctx.rep.expect_fail(&id, "streaming_kzg/fold/stream-ne-naive-fold",
                            &format!("FoldedPolynomialStream: items_ok={} len()={} expected {}", *items == want, l, want.len()),
                            replay.clone());
                    }
                    outcome_fields.push(("stream".to_string(), Expect::Fes(items.clone())));
                    outcome_fields.push(("stream_len".to_string(), Expect::Nat(*l)));
                }
                Err(a) => ctx.rep.expect_fail(&id, "streaming_kzg/fold/stream-aborts",
                    &format!("FoldedPolynomialStream iteration aborted: {}", a), replay.clone()),
            }
            outcome_fields.push((
                "foldings".to_string(),
                Expect::Raw(wire::fess(&spec.iter().map(|f| rev(f)).collect::<Vec<_>>())),
            ));
            let outcome = if tree.is_ok() && stream.is_ok() {
                ImplOutcome::Ok(outcome_fields)
            } else {
                ImplOutcome::Refuse("abort".into())
            };
            ctx.ses.ask(
                &id,
                Req::new("c14.fold").arg("cs", wire::fes(&cs)).arg("chal", wire::fes(&chal)),
                outcome,
            );
            ctx.rep.count(&format!("fold/depth-{}", depth));
            ctx.rep.count(if n % (1 << depth) == 0 { "fold/aligned" } else { "fold/padded" });
            ctx.rep.case(&format!("fold n={} depth={}", n, depth), Some(format!("fold/{}/{}", n, depth)));
        }
    }
    ctx.flush_model("C14-fold");
}

/// `commit_folding` / `open_folding` against the time prover on explicitly folded polynomials.
fn folding_case(ctx: &mut Ctx, i: usize, n: usize, depth: usize) {
    let id = format!("C14/folding/{}", i);
    let mut rng = rng_for(ctx.seed, "C14/folding", i as u64);
    let m = range(&mut rng, 1, 4);
    let max_degree = (n - 1 + range(&mut rng, 0, 2)).max(m);
    let mep = m.max(range(&mut rng, 1, 8));
    let key = match make_key(ctx, &id, &mut rng, max_degree, mep) {
        Some(k) => k,
        None => return,
    };
    let cs: Vec<Fr> = (0..n).map(|_| Fr::rand(&mut rng)).collect();
    let chal: Vec<Fr> = (0..depth).map(|_| Fr::rand(&mut rng)).collect();
    let pts = distinct_points(&mut rng, m);
    let eta = Fr::rand(&mut rng);
    let mut etas = vec![];
    let mut e = Fr::one();
    for _ in 0..depth {
        etas.push(e);
        e *= eta;
    }
    let buf = BUFS[i % BUFS.len()];
    let desc = format!("folding {} n={} depth={} points={} buffer={}", key.desc(), n, depth, m, buf);
    let replay = format!(
        "# scheme: streaming_kzg commit_folding/open_folding\n# {}\n# tau={}\n# coefficients={}\n# challenges={}\n# points={}\n# etas={}\n",
        desc, wire::fe(&key.tau), wire::fes(&cs), wire::fes(&chal), wire::fes(&pts), wire::fes(&etas)
    );
    let spec = foldings_le(&cs, &chal);
    let z = vanishing(&pts);
    let be = rev(&cs);
    let be_slice = be.as_slice();
    let sk = CommitterKeyStream::from(&key.ck);

    // commit_folding
    let time_cs: Vec<Commitment<E>> = spec.iter().map(|f| key.ck.commit(f)).collect();
    let c_s: Vec<Fr> = spec.iter().map(|f| horner(f, key.tau)).collect();
    let key_defined = time_cs.iter().zip(c_s.iter()).all(|(c, s)| key.comm_of(*s) == *c);
    let got = guarded(|| {
        let tree = FoldedPolynomialTree::new(&be_slice, chal.as_slice());
        sk.commit_folding(&tree, buf)
    });
    let out = match got {
        Ok(v) => {
            if v != time_cs {
                ctx.rep.expect_fail(&id, "streaming_kzg/folding/commit_folding-ne-time",
                    "commit_folding differs from the time commitments of the explicitly folded polynomials",
                    replay.clone());
            }
            ImplOutcome::Ok(vec![("cs".into(), Expect::Fes(c_s.clone()))])
        }
        Err(a) => {
            ctx.rep.expect_fail(&id, "streaming_kzg/folding/commit_folding-aborts",
                &format!("commit_folding aborted: {}", a), replay.clone());
            ImplOutcome::Refuse(a)
        }
    };
    if key_defined {
        ctx.ses.ask(
            &format!("{}/commit", id),
            key.args(Req::new("c14.commit_folding")).arg("cs", wire::fes(&cs)).arg("chal", wire::fes(&chal)),
            out,
        );
    }

    // open_folding
    let qr: Vec<(Vec<Fr>, Vec<Fr>)> = spec.iter().map(|f| divmod(f, &z)).collect();
    let mut want = G1Projective::zero();
    let mut want_s = Fr::zero();
    for (j, f) in spec.iter().enumerate() {
        want += key.ck.open_multi_points(f, &pts).0.into_group() * etas[j];
        want_s += etas[j] * horner(&qr[j].0, key.tau);
    }
    let want_rems: Vec<Vec<Fr>> = qr.iter().map(|(_, r)| rev(r)).collect();
    let got = guarded(|| {
        let tree = FoldedPolynomialTree::new(&be_slice, chal.as_slice());
        sk.open_folding(tree, &pts, &etas, buf)
    });
    let out = match got {
        Ok((rems, proof)) => {
            if proof.0 != want.into_affine() {
                ctx.rep.expect_fail(&id, "streaming_kzg/folding/open_folding-proof-ne-time",
                    "open_folding proof differs from Σ etas[i]·time.open_multi_points(fold^i)", replay.clone());
            }
            if rems != want_rems {
                ctx.rep.expect_fail(&id, "streaming_kzg/folding/open_folding-remainders",
                    "open_folding remainders are not (fold^i mod Z)", replay.clone());
            }
            ImplOutcome::Ok(vec![
                ("rems".into(), Expect::Raw(wire::fess(&rems))),
                ("pi".into(), Expect::Fe(want_s)),
            ])
        }
        Err(a) => {
            ctx.rep.expect_fail(&id, "streaming_kzg/folding/open_folding-aborts",
                &format!("open_folding aborted: {}", a), replay.clone());
            ImplOutcome::Refuse(a)
        }
    };
    if key.g_times(want_s) == want.into_affine() {
        ctx.ses.ask(
            &format!("{}/open", id),
            key.args(Req::new("c14.open_folding"))
                .arg("cs", wire::fes(&cs))
                .arg("chal", wire::fes(&chal))
                .arg("pts", wire::fes(&pts))
                .arg("etas", wire::fes(&etas)),
            out,
        );
    } else {
        ctx.rep.expect_fail(&id, "streaming_kzg/folding/time-not-key-defined",
            "time open_multi_points of a folded polynomial is not (fold^i / Z)(τ)·G", replay.clone());
    }
    ctx.rep.count(&format!("folding/depth-{}", depth));
    ctx.rep.case(&desc, Some(format!("folding/{}/{}/{}", n, depth, m)));
}

/// `CommitterKey::new(max_degree, max_eval_points)` with `max_degree < max_eval_points` publishes
/// only `max_degree + 1` G2 powers; with `max_degree = 0` the derived verifier key has no G1 element.
/// Recorded in the distribution and the notes of the run (model and implementation are compared).
fn degenerate_key_probe(ctx: &mut Ctx) {
    let id = "C14/degenerate-key/0".to_string();
    let mut rng = rng_for(ctx.seed, "C14/degenerate-key", 0);
    let mut replay = rng.clone();
    let ck = match guarded(|| CommitterKey::<E>::new(0, 3, &mut rng)) {
        Ok(ck) => ck,
        Err(_) => return,
    };
    let tau = Fr::rand(&mut replay);
    let c0 = Fr::rand(&mut rng);
    let alpha = Fr::rand(&mut rng);
    let c = ck.commit(&[c0]);
    let (v, pi) = ck.open(&[c0], &alpha);
    let out = verify_outcome(guarded(|| {
        let vk = VerifierKey::from(&ck);
        vk.verify(&c, &alpha, &v, &pi)
    }));
    let g2_len = CommitterKeyStream::from(&ck).powers_of_g2.len();
    ctx.rep.count(&format!("degenerate-key/new(0,3)-g2-powers-{}", g2_len));
    if !accepted(&out) {
        ctx.rep.count("degenerate-key/verify-refuses-truth");
        ctx.rep.notes.push(format!(
            "CommitterKey::new(0, 3) publishes {} G2 power(s); VerifierKey::from(&ck).verify on the honest opening of a constant polynomial: {:?}",
            g2_len, out
        ));
    }
    ctx.ses.ask(
        &id,
        Req::new("c14.verify")
            .arg("g", wire::nat(1))
            .arg("g2", wire::nat(1))
            .arg("tau", wire::fe(&tau))
            .arg("D", wire::nat(0))
            .arg("mep", wire::nat(3))
            .arg("vkfrom", wire::nat(0))
            .arg("c", wire::fe(&c0))
            .arg("alpha", wire::fe(&alpha))
            .arg("v", wire::fe(&v))
            .arg("pi", wire::nat(0)),
        out,
    );
    ctx.rep.case("degenerate key new(0,3)", None);
}

/// conversions between the two kinds of key and the batch forms of `commit`: the streaming key turned back into
/// an in-memory key commits like the original (to every polynomial that fits), `batch_commit` is `commit` mapped,
/// for both provers.
fn key_conversions(ctx: &mut Ctx) {
    let n = ctx.n(8, 60);
    for i in 0..n {
        let id = format!("C14/keys/{}", i);
        if !ctx.selected(&id) {
            continue;
        }
        let mut rng = rng_for(ctx.seed, "C14/keys", i as u64);
        let max_degree = range(&mut rng, 1, 40);
        let mep = range(&mut rng, 1, 5);
        let key = match make_key(ctx, &id, &mut rng, max_degree, mep) {
            Some(k) => k,
            None => continue,
        };
        let sk = CommitterKeyStream::from(&key.ck);
        let fail = |ctx: &mut Ctx, what: &str, detail: String| {
            ctx.rep.expect_fail(&id, &format!("streaming_kzg/{}", what), &detail,
                format!("# CommitterKey::new({}, {}, rng of case {})\n# {}\n# rerun: .build/cargo/debug/pcv-harness C14 --seed {} --only {}\n", max_degree, mep, id, detail, ctx.seed, id));
        };
        // as_committer_key(k) keeps the k lowest powers: it commits like the original key to every polynomial of k coefficients
        for k in [1usize, (max_degree + 1) / 2 + 1, max_degree + 1] {
            let k = k.min(max_degree + 1);
            match guarded(|| sk.as_committer_key(k)) {
                Ok(ck2) => {
                    let (cs, _) = gen_coeffs(&mut rng, k);
                    let a = guarded(|| key.ck.commit(&cs));
                    let b = guarded(|| ck2.commit(&cs));
                    match (a, b) {
                        (Ok(a), Ok(b)) if a == b => {}
                        (a, b) => fail(ctx, "as-committer-key-differs", format!("as_committer_key({}) commits differently to a polynomial of {} coefficients (or one of the two aborted: {} / {})", k, cs.len(), a.is_err(), b.is_err())),
                    }
                }
                Err(a) => fail(ctx, "as-committer-key-aborts", format!("as_committer_key({}) aborted on a key of {} powers: {}", k, max_degree + 1, a)),
            }
        }
        // batch forms
        let polys: Vec<Vec<Fr>> = (0..range(&mut rng, 1, 4)).map(|_| { let l = range(&mut rng, 1, max_degree + 1); gen_coeffs(&mut rng, l).0 }).collect();
        let single: Vec<_> = polys.iter().map(|p| key.ck.commit(p)).collect();
        match guarded(|| key.ck.batch_commit(&polys)) {
            Ok(b) if b == single => {}
            other => fail(ctx, "time-batch-commit-differs", format!("time batch_commit differs from commit mapped: {:?}", other.map(|v| v.len()))),
        }
        let revs: Vec<Vec<Fr>> = polys.iter().map(|p| rev(p)).collect();
        let space_single: Vec<_> = revs.iter().map(|p| sk.commit(&&p[..])).collect();
        if space_single != single {
            fail(ctx, "space-commit-differs", "space commit differs from time commit".into());
        }
        ctx.rep.case(&format!("keys max_degree={} mep={} polys={}", max_degree, mep, polys.len()), Some(format!("keys/{}/{}", max_degree, mep)));
    }
}

pub fn run(ctx: &mut Ctx) {
    key_conversions(ctx);
    let max_deg = if ctx.thorough { 256 } else { 64 };
    let n_single = ctx.n(60, 500);
    for i in 0..n_single {
        single_case(ctx, i, max_deg);
    }
    // the extreme degree of the tier, once
    single_case(ctx, 1_000_000 + max_deg, max_deg);
    degenerate_key_probe(ctx);
    ctx.flush_model("C14-single");

    let n_multi = ctx.n(24, 250);
    for i in 0..n_multi {
        multi_case(ctx, i, max_deg);
    }
    ctx.flush_model("C14-multi");
    let n_short = ctx.n(6, 30);
    for i in 0..n_short {
        short_case(ctx, i);
    }
    ctx.flush_model("C14-short");

    fold_iterators(ctx);

    // commit_folding / open_folding: small exhaustive grid, then random sizes
    let mut i = 0;
    let grid: Vec<(usize, usize)> = if ctx.thorough {
        (1..=20).flat_map(|n| (0..=5).map(move |d| (n, d))).collect()
    } else {
        (1..=9).flat_map(|n| (0..=3).map(move |d| (n, d))).collect()
    };
    for (n, d) in grid {
        folding_case(ctx, i, n, d);
        i += 1;
    }
    let n_rand = ctx.n(12, 150);
    for _ in 0..n_rand {
        let mut rng = rng_for(ctx.seed, "C14/folding-size", i as u64);
        let n = range(&mut rng, 1, if ctx.thorough { 130 } else { 70 });
        let d = range(&mut rng, 0, 7);
        folding_case(ctx, i, n, d);
        i += 1;
    }
    ctx.flush_model("C14-folding");
}
